#!/usr/bin/env python3
"""Helper for seeded breaking changes (kept under /verif/seeded/<id>/).

  tools_seed.py validate <seed_dir>   scratch worktree under /tmp: demo passes without the patch and fails with
                                      it; the repository's test suite passes with it.  Worktree removed afterwards.
  tools_seed.py run <seed_dir> [tier] apply the patch to /repo, run the property's check, ALWAYS undo the patch.
Nothing here is registered in MANIFEST.json.
"""
import json, os, subprocess, sys, tempfile, shutil
from pathlib import Path

ROOT = Path(__file__).resolve().parent
PY = "/venv/bin/python"


def sh(cmd, cwd=None, env=None, timeout=3600):
    p = subprocess.run(cmd, shell=True, cwd=cwd, env=env, capture_output=True, text=True, timeout=timeout)
    return p.returncode, (p.stdout + p.stderr)


def demo_cmd(seed, wt):
    demo = seed / "demo.py"
    txt = demo.read_text()
    if "def test_" in txt and "__main__" not in txt:
        return f"{PY} -m pytest -q -p no:cacheprovider {demo}"
    return f"{PY} {demo}"


def validate(seed):
    seed = Path(seed).resolve()
    wt = Path(tempfile.mkdtemp(prefix="seedwt_", dir="/tmp"))
    shutil.rmtree(wt)
    rc, out = sh(f"git -C /repo worktree add --detach {wt} HEAD")
    assert rc == 0, out
    env = dict(os.environ, PYTHONPATH=str(wt), PYTHONWARNINGS="ignore")
    res = {}
    try:
        rc0, o0 = sh(demo_cmd(seed, wt), cwd=wt, env=env)
        res["demo_clean_rc"] = rc0
        rc, out = sh(f"git apply {seed/'patch.diff'}", cwd=wt)
        res["patch_applies"] = rc == 0
        if rc != 0:
            res["apply_err"] = out[-500:]
            return res
        rc1, o1 = sh(demo_cmd(seed, wt), cwd=wt, env=env)
        res["demo_patched_rc"] = rc1
        res["demo_patched_tail"] = o1[-600:]
        rct, ot = sh(f"{PY} -m pytest -q -p no:cacheprovider -n 8 --timeout=900 Test 2>&1 | tail -5", cwd=wt, env=env)
        res["tests_tail"] = ot[-400:]
        res["tests_pass"] = (" failed" not in ot) and (" error" not in ot.lower() or "0 error" in ot.lower())
        res["valid"] = rc0 == 0 and rc1 != 0 and res["tests_pass"]
    finally:
        sh(f"git -C /repo worktree remove --force {wt}")
        shutil.rmtree(wt, ignore_errors=True)
    return res


def run(seed, tier="quick", pid=None, inplace=False):
    """Run the property's check against the seeded change.  Default: a scratch worktree of /repo HEAD
    with the patch applied, put first on PYTHONPATH (so /repo itself — and anything else running
    against it — is not disturbed).  inplace=True applies the patch to /repo and undoes it afterwards."""
    seed = Path(seed).resolve()
    meta = json.loads((seed / "meta.json").read_text())
    pid = pid or meta["property"]
    ev = ROOT / "evidence" / f"{pid}.json"
    saved = ev.read_text() if ev.exists() else None
    try:
        return _run(seed, tier, pid, inplace)
    finally:
        if saved is not None:
            ev.write_text(saved)      # the evidence of a seeded run is not evidence about /repo


def _run(seed, tier, pid, inplace):
    if inplace:
        rc, out = sh("git -C /repo status --porcelain -- synkit")
        assert out.strip() == "", "refusing: /repo has uncommitted changes\n" + out
        rc, out = sh(f"git -C /repo apply {seed/'patch.diff'}")
        assert rc == 0, out
        try:
            rc, out = sh(f"./check {pid} --tier {tier}", cwd=ROOT, timeout=7200)
        finally:
            sh("git -C /repo checkout -- .")
    else:
        wt = Path(tempfile.mkdtemp(prefix="seedrun_", dir="/tmp"))
        shutil.rmtree(wt)
        rc, out = sh(f"git -C /repo worktree add --detach {wt} HEAD")
        assert rc == 0, out
        try:
            rc, out = sh(f"git apply {seed/'patch.diff'}", cwd=wt)
            assert rc == 0, out
            env = dict(os.environ, PYTHONPATH=str(wt))
            chk, o2 = sh(f"{PY} -c 'import synkit; print(synkit.__file__)'", cwd=ROOT, env=env)
            assert str(wt) in o2, "worktree is not the imported synkit: " + o2
            rc, out = sh(f"./check {pid} --tier {tier}", cwd=ROOT, env=env, timeout=7200)
        finally:
            sh(f"git -C /repo worktree remove --force {wt}")
            shutil.rmtree(wt, ignore_errors=True)
    lines = [l for l in out.splitlines() if l.startswith(("VIOLATION", "KNOWN-FINDING", "[" + pid))]
    return {"check": pid, "tier": tier, "exit": rc, "lines": [l[:300] for l in lines[-6:]]}


if __name__ == "__main__":
    cmd = sys.argv[1]
    if cmd == "validate":
        print(json.dumps(validate(sys.argv[2]), indent=1))
    elif cmd == "run":
        print(json.dumps(run(sys.argv[2], *(sys.argv[3:5])), indent=1))
    elif cmd == "table":
        rows = []
        for d in sorted((ROOT / "seeded").iterdir()):
            if not (d / "meta.json").exists():
                continue
            m = json.loads((d / "meta.json").read_text())
            r = json.loads((d / "result.json").read_text()) if (d / "result.json").exists() else {}
            tier = "quick" if (r.get("quick") or {}).get("exit") == 1 else "thorough" if (r.get("thorough") or {}).get("exit") == 1 else "-"
            rows.append(f"| {d.name} | {m.get('property')} | {str(m.get('summary', ''))[:160].replace('|', '/')} | "
                        f"{str(m.get('needs', ''))[:160].replace('|', '/')} | "
                        f"{'yes (' + tier + ')' if r.get('detected') else ('superseded by a repair (see meta.json)' if str(m.get('status', '')).startswith('superseded') else 'NO')} |")
        print("| seed | property | change | needs | caught |\n|---|---|---|---|---|\n" + "\n".join(rows))
    elif cmd == "record":
        # validate + run (quick; thorough too when quick misses) and store the outcome next to the seed
        seed = Path(sys.argv[2]).resolve()
        v = validate(seed)
        r = run(seed, "quick") if v.get("valid") else None
        r2 = run(seed, "thorough") if (r and r["exit"] == 0) else None
        res = {"validation": v, "quick": r, "thorough": r2,
               "detected": bool((r and r["exit"] == 1) or (r2 and r2["exit"] == 1))}
        m = json.loads((seed / "meta.json").read_text())
        if str(m.get("status", "")).startswith("superseded"):
            res["note"] = m["status"]
        (seed / "result.json").write_text(json.dumps(res, indent=1) + "\n")
        print(json.dumps({"seed": seed.name, "valid": v.get("valid"), "detected": res["detected"],
                          "quick_exit": r and r["exit"], "thorough_exit": r2 and r2["exit"]}))

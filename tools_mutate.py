#!/venv/bin/python
"""Mechanical mutants of the anchored code, as a measure of what the quick checks detect.

For a property, small source mutations (comparison flips, and/or swaps, dropped `not`, +/- swaps,
off-by-one constants, True/False swaps, break/continue swaps, dropped `sorted(...)`) are drawn inside
the source ranges the property is anchored in (properties.jsonl: anchors.mechanism[].where),
restricted to statements the quick check executes (coverage/<id>.json).  Each mutant is applied in a
scratch git worktree of /repo (outside /repo and /verif, removed afterwards), then

  1. the repository's own test suite is run in the worktree  -> mutants the tests already kill are
     discarded (they are not "changes that still pass the existing tests");
  2. the property's quick check is run against the worktree (PYTHONPATH) -> killed / survived.

Survivors are written with their diff to mutants/<id>.json for triage (equivalent mutant, outside
the property, or a real gap of the check).  Nothing is ever changed in /repo; the evidence directory
is saved and restored.

    ./tools_mutate.py C17 [--n 12] [--seed 0] [--jobs 4]
    ./tools_mutate.py --table
"""
import ast, json, os, random, re, shutil, subprocess, sys, tempfile, concurrent.futures as cf

ROOT = os.path.dirname(os.path.abspath(__file__))
REPO = "/repo"
PY = "/venv/bin/python"

CMP = {ast.Lt: "<=", ast.LtE: "<", ast.Gt: ">=", ast.GtE: ">", ast.Eq: "!=", ast.NotEq: "==",
       ast.In: "not in", ast.NotIn: "in", ast.Is: "is not", ast.IsNot: "is"}
CMP_SRC = {ast.Lt: "<", ast.LtE: "<=", ast.Gt: ">", ast.GtE: ">=", ast.Eq: "==", ast.NotEq: "!=",
           ast.In: "in", ast.NotIn: "not in", ast.Is: "is", ast.IsNot: "is not"}


def props():
    out = {}
    for line in open(os.path.join(ROOT, "properties.jsonl")):
        if line.strip():
            d = json.loads(line)
            out[d["id"]] = d
    return out


def ranges(prop):
    """file -> [(a, b)] on the current tree (anchors resolved through function names)"""
    sys.path.insert(0, ROOT)
    from harness import anchors
    out = {}
    for _name, _where, fn, a, b, _q in anchors.property_ranges(prop):
        out.setdefault(fn, []).append((a, b))
    return out


def executed_lines(pid):
    """anchored statement lines the quick check does NOT execute, per file (from tools_cover)"""
    f = os.path.join(ROOT, "coverage", pid + ".json")
    if not os.path.exists(f):
        return None
    r = json.load(open(f))
    miss = {}
    full = {}
    for fn in [x["file"] for x in r["files"]]:
        full[os.path.basename(fn)] = fn
    for m in r["mechanisms"]:
        for item in (m.get("missing") or []):
            base, _, spec = item.partition(":")
            fn = full.get(base, base)
            for s in spec.split(","):
                a, _, b = s.partition("-")
                if a.isdigit():
                    for n in range(int(a), int(b or a) + 1):
                        miss.setdefault(fn, set()).add(n)
    return miss


def sites(src, inrange):
    """list of (line, col, end_line, end_col, replacement, description) textual edits"""
    tree = ast.parse(src)
    lines = src.splitlines(keepends=True)
    out = []

    def seg(n):
        return ast.get_source_segment(src, n)

    for node in ast.walk(tree):
        ln = getattr(node, "lineno", None)
        if ln is None or not inrange(ln):
            continue
        if isinstance(node, ast.Compare) and len(node.ops) == 1:
            op = node.ops[0]
            if type(op) in CMP:
                l, r = node.left, node.comparators[0]
                if l.end_lineno == r.lineno:
                    mid = lines[l.end_lineno - 1][l.end_col_offset:r.col_offset]
                    if CMP_SRC[type(op)] in mid:
                        new = mid.replace(CMP_SRC[type(op)], CMP[type(op)], 1)
                        out.append((l.end_lineno, l.end_col_offset, r.lineno, r.col_offset, new,
                                    "compare %s -> %s" % (CMP_SRC[type(op)], CMP[type(op)])))
        elif isinstance(node, ast.BoolOp) and len(node.values) >= 2:
            a, b = node.values[0], node.values[1]
            if a.end_lineno == b.lineno:
                mid = lines[a.end_lineno - 1][a.end_col_offset:b.col_offset]
                w = "and" if isinstance(node.op, ast.And) else "or"
                nw = "or" if w == "and" else "and"
                if re.search(r"\b%s\b" % w, mid):
                    out.append((a.end_lineno, a.end_col_offset, b.lineno, b.col_offset,
                                re.sub(r"\b%s\b" % w, nw, mid, 1), "%s -> %s" % (w, nw)))
        elif isinstance(node, ast.UnaryOp) and isinstance(node.op, ast.Not):
            s = seg(node.operand)
            if s and node.lineno == node.end_lineno:
                out.append((node.lineno, node.col_offset, node.end_lineno, node.end_col_offset,
                            "(" + s + ")", "drop not"))
        elif isinstance(node, ast.BinOp) and isinstance(node.op, (ast.Add, ast.Sub)):
            a, b = node.left, node.right
            if a.end_lineno == b.lineno:
                mid = lines[a.end_lineno - 1][a.end_col_offset:b.col_offset]
                w = "+" if isinstance(node.op, ast.Add) else "-"
                nw = "-" if w == "+" else "+"
                if mid.count(w) == 1:
                    out.append((a.end_lineno, a.end_col_offset, b.lineno, b.col_offset,
                                mid.replace(w, nw), "%s -> %s" % (w, nw)))
        elif isinstance(node, ast.Constant) and node.lineno == node.end_lineno:
            if isinstance(node.value, bool):
                out.append((node.lineno, node.col_offset, node.end_lineno, node.end_col_offset,
                            str(not node.value), "%s -> %s" % (node.value, not node.value)))
            elif isinstance(node.value, int) and 0 <= node.value <= 3:
                out.append((node.lineno, node.col_offset, node.end_lineno, node.end_col_offset,
                            str(node.value + 1), "%d -> %d" % (node.value, node.value + 1)))
        elif isinstance(node, ast.Break):
            out.append((node.lineno, node.col_offset, node.end_lineno, node.end_col_offset,
                        "continue", "break -> continue"))
        elif isinstance(node, ast.Continue):
            out.append((node.lineno, node.col_offset, node.end_lineno, node.end_col_offset,
                        "break", "continue -> break"))
        elif (isinstance(node, ast.Call) and isinstance(node.func, ast.Name)
              and node.func.id == "sorted" and len(node.args) == 1 and not node.keywords
              and node.lineno == node.end_lineno):
            s = seg(node.args[0])
            if s:
                out.append((node.lineno, node.col_offset, node.end_lineno, node.end_col_offset,
                            "list(" + s + ")", "drop sorted"))
    return out


def apply_edit(src, e):
    l1, c1, l2, c2, new, _ = e
    lines = src.splitlines(keepends=True)
    # ast column offsets are in utf-8 bytes
    b1 = lines[l1 - 1].encode()
    if l1 == l2:
        nb = b1[:c1] + new.encode() + b1[c2:]
        lines[l1 - 1] = nb.decode()
    else:
        return None
    out = "".join(lines)
    try:
        ast.parse(out)
    except SyntaxError:
        return None
    return out


def sh(cmd, cwd=None, env=None, timeout=3600):
    return subprocess.run(cmd, cwd=cwd, env=env, capture_output=True, text=True, timeout=timeout)


def worker(args):
    pid, idx, fn, edit, tmp = args
    wt = os.path.join(tmp, "wt%d" % idx)
    res = {"file": fn, "line": edit[0], "op": edit[5]}
    try:
        sh(["git", "-C", REPO, "worktree", "add", "--detach", wt, "HEAD"])
        path = os.path.join(wt, fn)
        src = open(path).read()
        new = apply_edit(src, edit)
        if new is None or new == src:
            res["status"] = "invalid"
            return res
        open(path, "w").write(new)
        res["diff"] = sh(["git", "-C", wt, "diff"]).stdout
        env = dict(os.environ, PYTHONPATH=wt, PYTHONWARNINGS="ignore")
        t = sh([PY, "-m", "pytest", "-q", "-x", "-p", "no:cacheprovider", "-n", "4", "Test"], cwd=wt, env=env)
        if t.returncode != 0:
            res["status"] = "killed_by_tests"
            return res
        evd = os.path.join(tmp, "ev%d" % idx)
        env2 = dict(env, VERIF_SEED="0", VERIF_EVIDENCE_DIR=evd, VERIF_REPLAY_DIR=os.path.join(tmp, "rp%d" % idx))
        c = sh([PY, "-m", "harness.core", pid, "--tier", "quick"], cwd=ROOT, env=env2)
        last = (c.stdout.strip().splitlines() or [""])[-1]
        res["check_exit"] = c.returncode
        res["check_summary"] = last[:300]
        viol = [l for l in c.stdout.splitlines() if l.startswith("VIOLATION")]
        res["status"] = "killed" if c.returncode == 1 and viol else ("survived" if c.returncode == 0 else "error")
        if viol:
            res["violation"] = viol[0][:300]
        return res
    except Exception as ex:  # noqa
        res["status"] = "error"
        res["error"] = repr(ex)[:300]
        return res
    finally:
        sh(["git", "-C", REPO, "worktree", "remove", "--force", wt])
        shutil.rmtree(wt, ignore_errors=True)


def table():
    d = os.path.join(ROOT, "mutants")
    rows = ["| prop | mutants drawn | killed by the repo's tests | pass the tests | killed by quick check | survived | triage of survivors |",
            "|---|---|---|---|---|---|---|"]
    triage = json.load(open(os.path.join(d, "triage.json"))) if os.path.exists(os.path.join(d, "triage.json")) else {}
    for fn in sorted(os.listdir(d)):
        if not fn.endswith(".json") or fn == "triage.json":
            continue
        r = json.load(open(os.path.join(d, fn)))
        ms = r["mutants"]
        for m in ms:
            k = "%s|%s|%d|%s" % (r["property"], os.path.basename(m["file"]), m["line"], m["op"])
            if k in triage:
                m["triage"] = triage[k]
        n = lambda s: sum(1 for m in ms if m["status"] == s)
        tri = "; ".join("%s:%d %s — %s" % (os.path.basename(m["file"]), m["line"], m["op"], m.get("triage", "?"))
                        for m in ms if m["status"] == "survived")
        rows.append("| %s | %d | %d | %d | %d | %d | %s |" % (
            r["property"], len(ms), n("killed_by_tests"), n("killed") + n("survived"), n("killed"),
            n("survived"), tri))
    print("\n".join(rows))


def main():
    args = sys.argv[1:]
    if "--table" in args:
        return table()
    n, seed, jobs = 12, 0, 4
    for flag in ("--n", "--seed", "--jobs"):
        if flag in args:
            i = args.index(flag)
            v = int(args[i + 1])
            del args[i:i + 2]
            if flag == "--n": n = v
            elif flag == "--seed": seed = v
            else: jobs = v
    P = props()
    os.makedirs(os.path.join(ROOT, "mutants"), exist_ok=True)
    for pid in args:
        rng = random.Random("%s-%d" % (pid, seed))
        rs = ranges(P[pid])
        miss = executed_lines(pid) or {}
        cands = []
        for fn, rr in rs.items():
            path = os.path.join(REPO, fn)
            if not os.path.exists(path):
                continue
            src = open(path).read()
            inr = lambda ln, rr=rr, fn=fn: any(a <= ln <= b for a, b in rr) and ln not in miss.get(fn, ())
            try:
                for e in sites(src, inr):
                    cands.append((fn, e))
            except SyntaxError:
                pass
        rng.shuffle(cands)
        # at most one mutant per source line
        seen, pick = set(), []
        for fn, e in cands:
            if (fn, e[0]) in seen:
                continue
            seen.add((fn, e[0]))
            pick.append((fn, e))
            if len(pick) >= n:
                break
        tmp = tempfile.mkdtemp(prefix="verifmut_")
        try:
            with cf.ThreadPoolExecutor(max_workers=jobs) as ex:
                results = list(ex.map(worker, [(pid, i, fn, e, tmp) for i, (fn, e) in enumerate(pick)]))
        finally:
            shutil.rmtree(tmp, ignore_errors=True)
            sh(["git", "-C", REPO, "worktree", "prune"])
        old = {}
        outp = os.path.join(ROOT, "mutants", pid + ".json")
        if os.path.exists(outp):
            for m in json.load(open(outp))["mutants"]:
                old[(m["file"], m["line"], m["op"])] = m
        tri = {}
        tf = os.path.join(ROOT, "mutants", "triage.json")
        if os.path.exists(tf):
            tri = json.load(open(tf))
        for m in results:
            o = old.get((m["file"], m["line"], m["op"]))
            if o and "triage" in o and m["status"] == "survived":
                m["triage"] = o["triage"]
            k = "%s|%s|%d|%s" % (pid, os.path.basename(m["file"]), m["line"], m["op"])
            if k in tri and m["status"] == "survived":
                m["triage"] = tri[k]
        # accumulate over runs with different seeds: keep earlier mutants that were not drawn again
        drawn = {(m["file"], m["line"], m["op"]) for m in results}
        kept = [m for k, m in old.items() if k not in drawn]
        for m in results:
            m["seed"] = seed
        json.dump({"property": pid, "seed": seed, "candidates": len(cands), "mutants": kept + results},
                  open(outp, "w"), indent=1)
        c = lambda s: sum(1 for m in results if m["status"] == s)
        print(pid, "candidates", len(cands), "drawn", len(results), "tests-kill", c("killed_by_tests"),
              "check-kill", c("killed"), "survived", c("survived"), "error", c("error") + c("invalid"), flush=True)


if __name__ == "__main__":
    main()

#!/bin/bash
# usage: run_all.sh [quick|thorough] [seed]   runs every check in turn (not registered in MANIFEST; a convenience)
tier=${1:-quick}; seed=${2:-0}
cd "$(dirname "$0")"
for i in 01 02 03 04 05 06 07 08 09 10 11 12 13 14 15 16 17 18 19 20; do
  VERIF_SEED=$seed ./check C$i --tier $tier 2>&1 | grep -v "^KNOWN-FINDING" | tail -2
done

"""Helpers shared by the reactor checks (C03, C04, C05, ...).

* `load_reactions()`       vendored mapped reactions (corpus/reactor_reactions.json)
* `prepare_reaction(rsmi)` hydrogen mode (DESIGN 5a), the two templates, the two substrates
* `run_pool(cases, fn, timeout, procs)`  run `fn(case)` in forked worker processes with a per-case
  soft timeout (SIGALRM inside the worker) and a hard timeout (the parent kills and replaces a
  worker that does not answer), so one slow VF2 search can never hang a check; timed-out cases
  come back as `{"status": "timeout"}` and are only counted.
* `reactor_case(case)`     runs `SynReactor` once and returns every stage as JSON-able data
  (substrate graph, SynRule fragments, mappings, glued ITS per mapping before `_explicit_h`,
  `its_list`, the SMILES of every ITS, `smarts_list`)
* graph encoding for the Lean driver (`enc_graph`), SMILES helpers (`unmapped`, `formula`).

Nothing here draws random numbers; callers sample with their own `random.Random`.
"""
from __future__ import annotations

import json
import multiprocessing as mp
import os
import signal
import time
from multiprocessing.connection import wait as mp_wait

from . import graphio
from .core import ROOT

CORPUS = ROOT / "corpus" / "reactor_reactions.json"


# ------------------------------------------------------------------ corpus
def load_reactions():
    """-> list of {"src": "ecoli"|"uspto"|"hydro", "idx": i, "rsmi": str}"""
    d = json.loads(CORPUS.read_text())
    out = []
    for src in ("ecoli", "uspto", "hydro"):
        for i, s in enumerate(d[src]):
            out.append({"src": src, "idx": i, "rsmi": s})
    return out


def _quiet():
    import logging
    import warnings

    warnings.filterwarnings("ignore")
    logging.disable(logging.CRITICAL)
    try:
        from rdkit import RDLogger

        RDLogger.DisableLog("rdApp.*")
    except Exception:
        pass


def unmapped(smi):
    """Canonical SMILES without atom maps; explicit [H] atoms are merged by RDKit's default parse."""
    from rdkit import Chem

    m = Chem.MolFromSmiles(smi)
    if m is None:
        return None
    for a in m.GetAtoms():
        a.SetAtomMapNum(0)
    return Chem.MolToSmiles(m)


def atom_counts(smi):
    """Element multiset incl. all hydrogens, and total charge, of a (multi-fragment) SMILES."""
    from collections import Counter
    from rdkit import Chem

    m = Chem.MolFromSmiles(smi)
    if m is None:
        return None
    c = Counter()
    q = 0
    for a in m.GetAtoms():
        c[a.GetSymbol()] += 1
        c["H"] += a.GetTotalNumHs()
        q += a.GetFormalCharge()
    return dict(sorted((k, v) for k, v in c.items() if v)), q


def prepare_reaction(rsmi):
    """Hydrogen mode of a mapped reaction and what the reactor populations need.

    mode 'explicit': some centre hydrogen is an explicit atom and no atom changes its hydrogen
                     count implicitly      -> SynReactor defaults (explicit_h=True)
    mode 'implicit': no explicit centre hydrogen -> implicit_temp=True, explicit_h=False
    mode 'mixed'   : both (outside the quantifier; callers skip and count)
    mode 'wildcard': an atom exists on one side only, so the ITS has a wildcard `*` label (wildcards
                     are outside the quantifier; callers skip and count)
    Returns None when the reaction cannot be standardised / parsed.
    """
    _quiet()
    from synkit.IO import rsmi_to_its
    from synkit.Graph.ITS.its_decompose import get_rc
    from synkit.Chem.Reaction.standardize import Standardize

    try:
        its = rsmi_to_its(rsmi)
        rc = get_rc(its)
        std = Standardize().fit(rsmi)
        if std is None:
            return None
        r, p = std.split(">>")
    except Exception:
        return None
    hexp = any(d.get("element") == "H" for _, d in rc.nodes(data=True))
    himp = any(d["typesGH"][0][2] != d["typesGH"][1][2] for _, d in its.nodes(data=True))
    wild = any(d["typesGH"][0][0] == "*" or d["typesGH"][1][0] == "*" for _, d in its.nodes(data=True))
    mode = "wildcard" if wild else ("mixed" if (hexp and himp) else ("explicit" if hexp else "implicit"))
    return {"mode": mode, "reactants": r, "products": p, "n_atoms": its.number_of_nodes(), "n_rc": rc.number_of_nodes()}


def mode_kwargs(mode):
    return {} if mode == "explicit" else {"implicit_temp": True, "explicit_h": False}


# ------------------------------------------------------------------ encoding
def enc_graph(G):
    """NetworkX graph -> driver JSON; attributes the protocol cannot carry (non half-integral floats
    such as partial charges) are dropped."""
    def att(d):
        out = {}
        for k, v in d.items():
            try:
                out[str(k)] = graphio.val(v)
            except graphio.Unsupported:
                pass
        return out

    return {
        "nodes": [[int(n), att(d)] for n, d in G.nodes(data=True)],
        "edges": [[int(u), int(v), att(d)] for u, v, d in G.edges(data=True)],
    }


def norm_graph(j):
    """Order-insensitive form of an encoded graph (node list and edge list sorted, edge endpoints
    ordered) for comparing implementation and model output."""
    nodes = sorted(([n, a] for n, a in j["nodes"]), key=lambda x: x[0])
    edges = sorted(([min(u, v), max(u, v), a] for u, v, a in j["edges"]), key=lambda x: (x[0], x[1]))
    return {"nodes": nodes, "edges": edges}


# ------------------------------------------------------------------ one reactor run
class _SoftTimeout(BaseException):
    """Raised by SIGALRM inside a worker.  Not an `Exception`, so that the broad `except Exception`
    handlers inside synkit (e.g. graph_to_smi) cannot swallow it and turn a timeout into a result."""


def reactor_case(case):
    """case: {"rsmi": template reaction, "core": bool   | "tpl_graph": encoded ITS graph,
              "sub": substrate SMILES                   | "host_graph": encoded molecule graph,
              "invert": bool, "strategy": "all"|"comp"|"bt", "mode": "explicit"|"implicit",
              "stages": bool}
    Returns a JSON-able record with every stage of the pipeline; never raises (exceptions of the
    implementation are reported in `status`)."""
    _quiet()
    import copy

    from synkit.IO import rsmi_to_its
    from synkit.Synthesis.Reactor.syn_reactor import SynReactor
    from synkit.Synthesis.Reactor.strategy import Strategy
    from synkit.Graph.Hyrogen._misc import has_XH, h_to_implicit

    rec = {"status": "ok"}
    try:
        if "tpl_graph" in case:
            tpl = graphio.to_nx(case["tpl_graph"])
        else:
            tpl = rsmi_to_its(case["rsmi"], core=case["core"])
    except Exception as e:  # template cannot be built: not a reactor case
        return {"status": "template-error:" + type(e).__name__}
    rec["tpl"] = enc_graph(tpl)
    kw = mode_kwargs(case["mode"])
    stages = case.get("stages", True)
    try:
        sub = graphio.to_nx(case["host_graph"]) if "host_graph" in case else case["sub"]
        if stages and case["invert"]:
            rec["inverted"] = enc_graph(SynReactor._invert_template(copy.deepcopy(tpl), balance_its=bool(kw.get("implicit_temp"))))
        re = SynReactor(sub, copy.deepcopy(tpl), invert=case["invert"], strategy=case["strategy"], **kw)
        host = re.graph.raw
        rec["host"] = enc_graph(host)
        rule = re.rule
        rec["rule"] = {"rc": enc_graph(rule.rc.raw), "left": enc_graph(rule.left.raw), "right": enc_graph(rule.right.raw)}
        maps = re.mappings
        rec["flag"] = bool(re._flag_pattern_has_explicit_H)
        rec["mappings"] = [graphio.mapping(m) for m in maps]
        rec["map_order"] = [[[int(p), int(h)] for p, h in m.items()] for m in maps]
        strat = Strategy.from_string(case["strategy"])
        if stages:
            pg = rule.left.raw
            rec["has_xh"] = bool(has_XH(pg))
            if rec["has_xh"]:
                rec["pattern"] = enc_graph(h_to_implicit(pg))
            glued, expl = [], []
            for m in maps:
                if rec["flag"]:
                    hg = copy.deepcopy(host)
                    for _, d in hg.nodes(data=True):
                        d.setdefault("typesGH", _default_tg(d))
                    maps2, hexp = SynReactor._get_explicit_map(hg, m, rule.left.raw, strat, None, False)
                    expl.append({"hexp": enc_graph(hexp), "maps": [graphio.mapping(x) for x in maps2]})
                batch = SynReactor._glue_graph(host, rule.rc.raw, m, rec["flag"], rule.left.raw, strat)
                glued.append([enc_graph(g) for g in batch])
            rec["glued"] = glued
            if rec["flag"]:
                rec["explicit_path"] = expl
        its_list = re.its_list
        rec["its"] = [enc_graph(g) for g in its_list]
        rec["smarts_each"] = [SynReactor._to_smarts(copy.deepcopy(g)) for g in its_list]
        rec["smarts_list"] = list(re.smarts_list)
        rec["explicit_h"] = bool(re.explicit_h)
    except _SoftTimeout:
        raise
    except Exception as e:
        rec["status"] = "error:" + type(e).__name__
        rec["error"] = str(e)[:300]
    return rec


def _default_tg(a):
    tpl = (a.get("element", "*"), a.get("aromatic", False), a.get("hcount", 0), a.get("charge", 0), a.get("neighbors", []))
    return tpl, tpl


def explicit_h_case(case):
    """Unit-level run of `SynReactor._explicit_h` on an encoded ITS-like graph.
    -> {"status": "ok", "g": encoded graph} | {"status": "StopIteration"} | {"status": "error:<type>"}"""
    _quiet()
    from synkit.Synthesis.Reactor.syn_reactor import SynReactor

    g = graphio.to_nx(case["its"])
    for _, d in g.nodes(data=True):          # lists, as SynRule writes them
        if "h_pairs" in d:
            d["h_pairs"] = list(d["h_pairs"])
    try:
        out = SynReactor._explicit_h(g)
        return {"status": "ok", "g": enc_graph(out)}
    except StopIteration:
        return {"status": "StopIteration"}
    except _SoftTimeout:
        raise
    except Exception as e:
        return {"status": "error:" + type(e).__name__, "error": str(e)[:200]}


# ------------------------------------------------------------------ process pool with timeouts
def _alarm(signum, frame):
    raise _SoftTimeout()


def _worker(conn, fn, soft):
    _quiet()
    signal.signal(signal.SIGALRM, _alarm)
    while True:
        try:
            msg = conn.recv()
        except EOFError:
            return
        if msg is None:
            return
        i, case = msg
        t0 = time.time()
        try:
            signal.setitimer(signal.ITIMER_REAL, soft)
            try:
                res = fn(case)
            finally:
                signal.setitimer(signal.ITIMER_REAL, 0)
        except _SoftTimeout:
            res = {"status": "timeout"}
        except Exception as e:  # fn is expected not to raise; report rather than die
            res = {"status": "worker-error:" + type(e).__name__, "error": str(e)[:300]}
        if isinstance(res, dict):
            res["wall"] = round(time.time() - t0, 3)
        conn.send((i, res))


def run_pool(cases, fn, timeout=20.0, procs=None):
    """Run fn(case) for every case in forked workers. Returns results in case order.
    A case that exceeds `timeout` seconds yields {"status": "timeout"}: first by SIGALRM inside the
    worker; if the worker does not come back within timeout + 5 s it is killed and replaced."""
    if not cases:
        return []
    procs = procs or min(len(cases), max(1, (os.cpu_count() or 2) - 1), 15)
    ctx = mp.get_context("fork")
    results = [None] * len(cases)
    todo = list(range(len(cases)))[::-1]

    def spawn():
        a, b = ctx.Pipe()
        p = ctx.Process(target=_worker, args=(b, fn, timeout), daemon=True)
        p.start()
        b.close()
        return {"p": p, "c": a, "i": None, "t": 0.0}

    workers = [spawn() for _ in range(procs)]

    def feed(w):
        if todo:
            i = todo.pop()
            w["i"], w["t"] = i, time.time()
            w["c"].send((i, cases[i]))
        else:
            w["i"] = None

    for w in workers:
        feed(w)
    hard = timeout + 5.0
    while any(w["i"] is not None for w in workers):
        busy = [w for w in workers if w["i"] is not None]
        ready = mp_wait([w["c"] for w in busy], timeout=0.5)
        now = time.time()
        for k, w in enumerate(workers):
            if w["i"] is None:
                continue
            if w["c"] in ready:
                try:
                    i, res = w["c"].recv()
                    results[i] = res
                    feed(w)
                    continue
                except (EOFError, OSError):
                    results[w["i"]] = {"status": "worker-died"}
            elif now - w["t"] <= hard and w["p"].is_alive():
                continue
            else:
                results[w["i"]] = {"status": "timeout" if w["p"].is_alive() else "worker-died"}
            # replace the worker
            try:
                w["p"].kill()
                w["p"].join(1)
                w["c"].close()
            except Exception:
                pass
            workers[k] = spawn()
            feed(workers[k])
    for w in workers:
        try:
            w["c"].send(None)
            w["c"].close()
        except Exception:
            pass
    for w in workers:
        w["p"].join(2)
        if w["p"].is_alive():
            w["p"].kill()
    return results

"""Shared by C04 and C05: corpus loading, reaction analysis decided from the input alone
(RDKit atom/bond tables, no SynKit code), reaction / SMILES rewriting seeded from explicit
integers (never the global `random`), and a process pool that applies a rule with the real
`SynReactor` under a per-case timeout.

Nothing here imports `synkit` at module level: the implementation is imported inside the
worker processes only, so that module state of the library (class-level caches, the
`random.seed` calls of some helpers) can neither leak between the harness and the cases nor
touch the harness PRNG.
"""
from __future__ import annotations

import os
import random
import signal
import time
from pathlib import Path

ROOT = Path(__file__).resolve().parent.parent
CORPUS = ROOT / "corpus"

STRATEGIES = ("all", "comp", "bt")


# ----------------------------------------------------------------------------- corpus
def load_corpus(name="c04_reactions.txt"):
    """-> list of (id, reaction smiles); '#' lines are comments."""
    out = []
    for line in (CORPUS / name).read_text().splitlines():
        if not line.strip() or line.startswith("#"):
            continue
        rid, rs = line.split("\t")[:2]
        out.append((rid, rs.strip()))
    return out


# ----------------------------------------------------------------------------- RDKit tables
def _quiet():
    from rdkit import RDLogger

    RDLogger.DisableLog("rdApp.*")


def _side_table(smi):
    """Atom and bond table of one reaction side as SynKit's converter reads it
    (parse without sanitisation so that explicit [H:n] atoms stay, then sanitise).
    -> (atoms: {map: (element, charge, hcount)}, bonds: {(a,b): order*2}, n_unmapped, dup)"""
    from rdkit import Chem

    mol = Chem.MolFromSmiles(smi, sanitize=False)
    if mol is None:
        raise ValueError("unparsable")
    Chem.SanitizeMol(mol)
    atoms, unm, dup = {}, 0, False
    for a in mol.GetAtoms():
        m = a.GetAtomMapNum()
        if m == 0:
            unm += 1
            continue
        if m in atoms:
            dup = True
        atoms[m] = (a.GetSymbol(), a.GetFormalCharge(), a.GetTotalNumHs())
    bonds = {}
    for b in mol.GetBonds():
        u, v = b.GetBeginAtom().GetAtomMapNum(), b.GetEndAtom().GetAtomMapNum()
        if u and v:
            bonds[(min(u, v), max(u, v))] = int(round(b.GetBondTypeAsDouble() * 2))
    return atoms, bonds, unm, dup


def analyze_reaction(rsmi):
    """Everything C04/C05 need to know about a mapped reaction, decided from the input alone.

    keys: ok, why (when not ok), balanced, n_atoms, mode ('explicit' | 'implicit' | 'mixed'),
    hexp (a hydrogen atom is an end of a changed bond), himp (a mapped heavy atom changes its
    hydrogen count), changed_bonds, rc_incomplete (an atom whose charge or hydrogen count differs
    between the sides is incident to no changed bond), has_explicit_h
    """
    _quiet()
    try:
        rs, ps = rsmi.split(">>")
        ra, rb, runm, rdup = _side_table(rs)
        pa, pb, punm, pdup = _side_table(ps)
    except Exception as e:  # noqa: BLE001 - any parse/sanitise failure makes the input ill-formed
        return {"ok": False, "why": "unparsable:" + type(e).__name__}
    if runm or punm:
        return {"ok": False, "why": "unmapped atoms"}
    if rdup or pdup:
        return {"ok": False, "why": "duplicate map numbers"}
    if set(ra) != set(pa):
        return {"ok": False, "why": "sides carry different atom maps"}
    if any(ra[m][0] != pa[m][0] for m in ra):
        return {"ok": False, "why": "element changes along a map"}
    charge_ok = sum(a[1] for a in ra.values()) == sum(a[1] for a in pa.values())
    h_ok = sum(a[2] for a in ra.values()) == sum(a[2] for a in pa.values())
    changed = {e for e in set(rb) | set(pb) if rb.get(e, 0) != pb.get(e, 0)}
    touched = {x for e in changed for x in e}
    hexp = any(ra[m][0] == "H" for m in touched)
    himp = any(ra[m][2] != pa[m][2] for m in ra)
    delta_atoms = [m for m in ra if ra[m][1] != pa[m][1] or ra[m][2] != pa[m][2]]
    rc_incomplete = any(m not in touched for m in delta_atoms)
    mode = "mixed" if (hexp and himp) else ("explicit" if hexp else "implicit")
    return {
        "ok": True,
        "balanced": bool(charge_ok and h_ok),
        "n_atoms": len(ra),
        "n_heavy": sum(1 for a in ra.values() if a[0] != "H"),
        "mode": mode,
        "hexp": hexp,
        "himp": himp,
        "changed_bonds": len(changed),
        "rc_atoms": len(touched),
        "rc_incomplete": rc_incomplete,
        "has_explicit_h": any(a[0] == "H" for a in ra.values()),
        "n_frag": (rs.count(".") + 1, ps.count(".") + 1),
    }


def pattern_atom_mixed_h(rsmi, core, invert):
    """F20 class, decided from the template and the direction alone: after SynRule's stripping
    (an explicit hydrogen is folded into its neighbour's count exactly when it has a heavy
    neighbour on BOTH sides of the rule) some pattern atom keeps an explicit hydrogen neighbour
    and also carries a positive count.  `core`: the template is the reaction centre (only
    changed bonds and their end atoms) rather than the full ITS."""
    _quiet()
    rs, ps = rsmi.split(">>")
    ra, rb, _, _ = _side_table(rs)
    pa, pb, _, _ = _side_table(ps)
    if core:
        changed = {e for e in set(rb) | set(pb) if rb.get(e, 0) != pb.get(e, 0)}
        # get_rc additionally keeps unchanged H-H bonds; they never give a heavy neighbour
        rb = {e: o for e, o in rb.items() if e in changed}
        pb = {e: o for e, o in pb.items() if e in changed}
    left, right = (pb, rb) if invert else (rb, pb)
    el = {m: a[0] for m, a in ra.items()}

    def nbrs(bonds, x):
        return [v if u == x else u for (u, v) in bonds if x in (u, v)]

    def removable(bonds, h):
        return any(el[n] != "H" for n in nbrs(bonds, h))

    for x in el:
        if el[x] == "H":
            continue
        hs = [h for h in nbrs(left, x) if el[h] == "H"]
        folded = [h for h in hs if removable(left, h) and removable(right, h)]
        if folded and len(folded) < len(hs):
            return True
    return False


def kekule_blind(rsmi):
    """A reaction string with every bond order forgotten (all bonds single, no aromatic flags) but every atom's
    hydrogen count and charge kept.  Two outputs that are equal under this map differ only in where double bonds
    are drawn over the same skeleton with the same hydrogens and charges, i.e. in the Kekule / resonance form RDKit
    happened to pick when it sanitised a ring written with aromatic bonds that it does not re-perceive as aromatic
    (the choice depends on the atom order; RDKit is outside what C05 is about)."""
    from rdkit import Chem

    sides = []
    for side in rsmi.split(">>"):
        mol = Chem.MolFromSmiles(side)
        if mol is None:
            return rsmi
        rw = Chem.RWMol(mol)
        for a in rw.GetAtoms():
            h = a.GetTotalNumHs()
            a.SetIsAromatic(False)
            a.SetNoImplicit(True)
            a.SetNumExplicitHs(h)
            a.SetNumRadicalElectrons(0)
        for b in rw.GetBonds():
            b.SetIsAromatic(False)
            b.SetBondType(Chem.BondType.SINGLE)
        sides.append(".".join(sorted(Chem.MolToSmiles(rw).split("."))))
    return ">>".join(sides)


# ----------------------------------------------------------------------------- rewriting
class RewriteFailed(Exception):
    pass


def _mol_keep_h(smi):
    from rdkit import Chem

    mol = Chem.MolFromSmiles(smi, sanitize=False)
    if mol is None:
        raise ValueError("unparsable: " + smi)
    try:
        Chem.SanitizeMol(mol)  # keeps explicit hydrogen atoms; needed so that e.g. [S] is not written as S
    except Exception:  # noqa: BLE001
        mol.UpdatePropertyCache(strict=False)
    return mol


def canon_unmapped(smi):
    """What Standardize.fit compares: canonical SMILES without atom maps and without stereo marks
    (None if RDKit refuses)."""
    from rdkit import Chem

    mol = Chem.MolFromSmiles(smi)
    if mol is None:
        return None
    for a in mol.GetAtoms():
        a.SetAtomMapNum(0)
    return Chem.MolToSmiles(mol, isomericSmiles=False)


def renumber_reaction(rsmi, seed):
    """A random permutation of the atom-map numbers, the same on both sides."""
    from rdkit import Chem

    _quiet()
    rnd = random.Random(seed)
    rs, ps = rsmi.split(">>")
    mr, mp = _mol_keep_h(rs), _mol_keep_h(ps)
    maps = sorted({a.GetAtomMapNum() for a in mr.GetAtoms()} | {a.GetAtomMapNum() for a in mp.GetAtoms()})
    maps = [m for m in maps if m]
    perm = maps[:]
    rnd.shuffle(perm)
    d = dict(zip(maps, perm))
    for m in (mr, mp):
        for a in m.GetAtoms():
            if a.GetAtomMapNum():
                a.SetAtomMapNum(d[a.GetAtomMapNum()])
    out = Chem.MolToSmiles(mr) + ">>" + Chem.MolToSmiles(mp)
    if [canon_unmapped(x) for x in out.split(">>")] != [canon_unmapped(x) for x in rsmi.split(">>")]:
        raise RewriteFailed("renumbering changed the molecules: " + rsmi)
    return out


def rewrite_smiles(smi, seed):
    """Another way of writing the same molecules: random atom order / ring-closure digits
    (RDKit's random SMILES with its own seed argument) and shuffled fragment order."""
    from rdkit import Chem

    _quiet()
    rnd = random.Random(seed)
    frags = []
    for k, f in enumerate(smi.split(".")):
        mol = _mol_keep_h(f)
        try:
            v = list(Chem.MolToRandomSmilesVect(mol, 1, randomSeed=(seed * 7919 + k) % (2**31 - 1) + 1))
            new = v[0]
        except Exception:  # noqa: BLE001
            new = f
        # self-check of the rewriting: it must denote the same molecule, else keep the fragment as written
        frags.append(new if canon_unmapped(new) == canon_unmapped(f) and canon_unmapped(f) is not None else f)
    rnd.shuffle(frags)
    return ".".join(frags)


def rewrite_reaction(rsmi, seed):
    rs, ps = rsmi.split(">>")
    return rewrite_smiles(rs, seed) + ">>" + rewrite_smiles(ps, seed + 1)


def unmapped_side(smi):
    """One reaction side without atom maps, canonical per fragment, fragments sorted (RDKit only)."""
    parts = [canon_unmapped(f) for f in smi.split(".")]
    if any(p is None for p in parts):
        return None
    return ".".join(sorted(parts)).replace("[HH]", "[H][H]")


# ----------------------------------------------------------------------------- the reactor call
class CaseTimeout(BaseException):
    """BaseException on purpose: SynKit has broad `except Exception` blocks (graph_to_smi …)
    that would otherwise swallow the alarm and silently drop an output."""


_ALARM = {"fired": False}


def _on_alarm(signum, frame):
    _ALARM["fired"] = True
    raise CaseTimeout()


def _worker_init():
    import logging
    import warnings

    warnings.filterwarnings("ignore")
    logging.disable(logging.CRITICAL)
    _quiet()
    signal.signal(signal.SIGALRM, _on_alarm)


def _mode_kwargs(mode):
    # DESIGN §5a: explicit centre hydrogens -> defaults; none explicit -> implicit template
    return {} if mode == "explicit" else {"implicit_temp": True, "explicit_h": False}


def _apply_once(sr, std, substrate, tpl, invert, strategy, mode, want_raw):
    """One SynReactor run. -> dict(results, n_map, n_raw, n_smarts, results_raw?)"""
    calls = []
    orig = sr.SubgraphSearchEngine

    class Recorder(orig):  # records what the search returned before pruning
        @staticmethod
        def find_subgraph_mappings(*a, **k):
            r = orig.find_subgraph_mappings(*a, **k)
            calls.append((r, k.get("host", a[0] if a else None), k.get("pattern", a[1] if len(a) > 1 else None)))
            return r

    reactor = sr.SynReactor(substrate, tpl, invert=invert, strategy=strategy, **_mode_kwargs(mode))
    sr.SubgraphSearchEngine = Recorder
    try:
        maps = reactor.mappings
    finally:
        sr.SubgraphSearchEngine = orig
    raw = [dict(m) for m in calls[0][0]] if calls else None
    host_cc = pattern_cc = None
    if calls and calls[0][1] is not None and calls[0][2] is not None:
        import networkx as nx

        # arguments of the documented search call: used to recognise the documented strict_cc_count guard
        host_cc = nx.number_connected_components(calls[0][1])
        pattern_cc = nx.number_connected_components(calls[0][2])
    smarts = list(reactor.smarts_list)
    res, bad = set(), 0
    for s in smarts:
        try:
            f = std.fit(s)
        except Exception:  # noqa: BLE001
            f = None
        if f is None:
            bad += 1
        else:
            res.add(f)
    out = {"results": sorted(res), "n_map": len(maps), "n_raw": None if raw is None else len(raw),
           "n_smarts": len(smarts), "unstandardisable": bad, "host_cc": host_cc, "pattern_cc": pattern_cc}
    if want_raw and raw is not None:
        # glue EVERY raw match through the reactor's own internals (no pruning)
        reactor._mappings = raw
        reactor._its = None
        reactor._smarts = None
        res2 = set()
        for s in reactor.smarts_list:
            try:
                f = std.fit(s)
            except Exception:  # noqa: BLE001
                f = None
            if f is not None:
                res2.add(f)
        out["results_raw"] = sorted(res2)
    return out


def apply_task(task):
    """Worker entry.  task: {key, substrate, template (mapped rsmi), core, invert, strategies,
    mode, want_raw, timeout, repeat}.  -> {key, status, per-strategy results, wall}"""
    t0 = time.time()
    _ALARM["fired"] = False
    out = {"key": task["key"], "status": "ok", "runs": {}}
    try:
        signal.setitimer(signal.ITIMER_REAL, float(task.get("timeout", 30)))
        import synkit.Synthesis.Reactor.syn_reactor as sr
        from synkit.Chem.Reaction.standardize import Standardize
        from synkit.IO.chem_converter import rsmi_to_its

        std = Standardize()
        if "own_side" in task:
            # C04: the substrate is the unmapped side of the property's own normal form of the reaction
            try:
                out["target"] = std.fit(task["template"])
                task = dict(task, substrate=out["target"].split(">>")[task["own_side"]])
            except CaseTimeout:
                raise
            except Exception:  # noqa: BLE001 - the normal form of the input itself is unavailable: not a case
                out["status"] = "skip:no-normal-form"
                return out
            out["substrate"] = task["substrate"]
        tpl = rsmi_to_its(task["template"], core=task["core"])
        for strat in task["strategies"]:
            for rep in range(task.get("repeat", 1)):
                r = _apply_once(sr, std, task["substrate"], tpl, task["invert"], strat, task["mode"],
                                task.get("want_raw", False) and rep == 0)
                out["runs"].setdefault(strat, []).append(r)
    except CaseTimeout:
        out["status"] = "timeout"
    except Exception as e:  # noqa: BLE001 - an exception of the implementation is a result, not a crash
        out["status"] = "error:" + type(e).__name__
        out["error"] = str(e)[:300]
    finally:
        signal.setitimer(signal.ITIMER_REAL, 0)
    if _ALARM["fired"]:
        out["status"] = "timeout"
    out["wall"] = round(time.time() - t0, 3)
    return out


class Pool:
    """Process pool running `apply_task`; tasks are generated beforehand from ctx.rnd so the
    population is reproducible per seed; only wall-clock timeouts can differ between runs and
    those are counted as skipped, never reported."""

    def __init__(self, workers=None):
        import multiprocessing as mp

        self.n = workers or min(16, os.cpu_count() or 4)
        self.pool = mp.get_context("fork").Pool(self.n, initializer=_worker_init, maxtasksperchild=200)

    def map(self, tasks, chunksize=1):
        # longest expected first so the tail is short
        return self.pool.imap_unordered(apply_task, tasks, chunksize)

    def run(self, tasks, fn=None):
        res = {}
        for r in self.pool.imap_unordered(fn or apply_task, tasks, 1):
            res[r["key"]] = r
        return [res[t["key"]] for t in tasks]

    def close(self):
        self.pool.terminate()
        self.pool.join()


# ----------------------------------------------------------------------------- graph-level runs (tie to the Lean engine)
MATCH_NODE_KEYS = ["element", "charge"]          # node_attrs of SynReactor.mappings
MATCH_EDGE_KEYS = ["order"]                       # edge_attrs of SynReactor.mappings


def _enc_graph(G):
    from . import graphio

    return graphio.graph(G, node_keys={"element", "charge", "hcount"}, edge_keys={"order"})


def _fold_mapped_side(smi):
    """A mapped reaction side with its explicit hydrogens folded into counts (what the unmapped
    substrate of C04 looks like), atom maps kept on the heavy atoms."""
    from rdkit import Chem

    mol = Chem.MolFromSmiles(smi)
    if mol is None:
        raise ValueError("unparsable side")
    return Chem.MolToSmiles(mol)


def _relabelled_copy(G, table, order_seed):
    """nx.relabel_nodes with explicit control of the insertion order (shuffled)."""
    import networkx as nx

    rnd = random.Random(order_seed)
    nodes = list(G.nodes(data=True))
    rnd.shuffle(nodes)
    edges = list(G.edges(data=True))
    rnd.shuffle(edges)
    H = nx.Graph()
    for n, d in nodes:
        H.add_node(table[n], **dict(d))
    for u, v, d in edges:
        if rnd.random() < 0.5:
            u, v = v, u
        H.add_edge(table[u], table[v], **dict(d))
    return H


def _random_injection(nodes, seed):
    rnd = random.Random(seed)
    nodes = list(nodes)
    codomain = rnd.sample(range(1, 3 * len(nodes) + 5), len(nodes))
    return dict(zip(nodes, codomain))


def _graph_run(sr, std, host, tpl, invert, mode, strategy="all"):
    calls = []
    orig = sr.SubgraphSearchEngine

    class Recorder(orig):
        @staticmethod
        def find_subgraph_mappings(*a, **k):
            r = orig.find_subgraph_mappings(*a, **k)
            calls.append((r, k.get("host"), k.get("pattern")))
            return r

    reactor = sr.SynReactor(host, tpl, invert=invert, strategy=strategy, **_mode_kwargs(mode))
    sr.SubgraphSearchEngine = Recorder
    try:
        kept = reactor.mappings
    finally:
        sr.SubgraphSearchEngine = orig
    raw, h, p = calls[0]
    prune = None
    if hasattr(sr.SynReactor, "_prune_by_rule_automorphisms") and len(raw) <= 200:
        # repaired tree: hand the Lean model of the pruning (`pruneByAut`) the same inputs — the automorphisms of the
        # rule (centre graph with before/after labels and order pairs; a specification-level notion, enumerated here
        # with VF2) restricted to the pattern nodes, and the raw matches in the order the search returned them
        import networkx as nx

        rc = reactor.rule.rc.raw
        keep = list(p.nodes())
        keepset = set(keep)
        gm = nx.algorithms.isomorphism.GraphMatcher(
            rc, rc, node_match=lambda a, b: a.get("typesGH") == b.get("typesGH"), edge_match=lambda a, b: a.get("order") == b.get("order"))
        group = []
        for sigma in gm.isomorphisms_iter():
            group.append(sorted([int(x), int(y)] for x, y in sigma.items() if x in keepset))
            if len(group) > 300:
                group = None
                break
        if group is not None:
            prune = {"keep": [int(x) for x in keep], "group": group,
                     "raw_ordered": [sorted([int(a), int(b)] for a, b in m.items()) for m in raw],
                     "kept_ordered": [sorted([int(a), int(b)] for a, b in m.items()) for m in kept]}
    res = set()
    for s in reactor.smarts_list:
        try:
            f = std.fit(s)
        except Exception:  # noqa: BLE001
            f = None
        if f is not None:
            res.add(f)
    return {"host": _enc_graph(h), "pattern": _enc_graph(p), "raw": sorted(sorted([int(a), int(b)] for a, b in m.items()) for m in raw),
            "kept": len(kept), "results": sorted(res), "host_nodes": h.number_of_nodes(), "pattern_nodes": p.number_of_nodes(),
            "prune": prune}


def graph_task(task):
    """task: {key, template, core, invert, mode, host: 'own' | smiles, relabel: bool, fseed, piseed, timeout}
    'own': the host is the template reaction's own substrate side drawn on its atom-map numbers."""
    t0 = time.time()
    _ALARM["fired"] = False
    out = {"key": task["key"], "status": "ok"}
    try:
        signal.setitimer(signal.ITIMER_REAL, float(task.get("timeout", 30)))
        import synkit.Synthesis.Reactor.syn_reactor as sr
        from synkit.Chem.Reaction.standardize import Standardize
        from synkit.IO.chem_converter import rsmi_to_its, smiles_to_graph

        std = Standardize()
        tpl = rsmi_to_its(task["template"], core=task["core"])
        if task["host"] == "own":
            side = task["template"].split(">>")[1 if task["invert"] else 0]
            host = smiles_to_graph(_fold_mapped_side(side), use_index_as_atom_map=True, drop_non_aam=False)
        else:
            host = smiles_to_graph(task["host"], use_index_as_atom_map=False, drop_non_aam=False)
        if host is None:
            out["status"] = "skip:no-host-graph"
            return out
        out["A"] = _graph_run(sr, std, host, tpl, task["invert"], task["mode"])
        if task.get("relabel"):
            f = _random_injection(host.nodes(), task["fseed"])
            pi = _random_injection(tpl.nodes(), task["piseed"])
            hostB = _relabelled_copy(host, f, task["fseed"] + 1)
            tplB = _relabelled_copy(tpl, pi, task["piseed"] + 1)
            out["B"] = _graph_run(sr, std, hostB, tplB, task["invert"], task["mode"])
            out["f"] = sorted([int(a), int(b)] for a, b in f.items())
            out["pi"] = sorted([int(a), int(b)] for a, b in pi.items())
    except CaseTimeout:
        out["status"] = "timeout"
    except Exception as e:  # noqa: BLE001
        out["status"] = "error:" + type(e).__name__
        out["error"] = str(e)[:300]
    finally:
        signal.setitimer(signal.ITIMER_REAL, 0)
    if _ALARM["fired"]:
        out["status"] = "timeout"
    out["wall"] = round(time.time() - t0, 3)
    return out

"""Greedy delta-debugging for sequences."""


def shrink_seq(seq, fails, budget=400):
    """Remove elements of `seq` while `fails(seq)` stays true."""
    seq = list(seq)
    n = 0
    chunk = max(1, len(seq) // 2)
    while chunk >= 1 and n < budget:
        i = 0
        changed = False
        while i < len(seq) and n < budget:
            cand = seq[:i] + seq[i + chunk:]
            n += 1
            if cand != seq and fails(cand):
                seq = cand
                changed = True
            else:
                i += chunk
        if chunk == 1 and not changed:
            break
        chunk = max(1, chunk // 2) if chunk > 1 else (1 if changed else 0)
    return seq

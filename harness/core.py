"""Shared machinery of the checks: Lean build + axiom audit, the model driver,
case accounting, known findings, evidence and VIOLATION reporting.

A check is `run(ctx)` in harness/props/<id>.py.  It generates cases from
`ctx.rnd` (one PRNG seeded by VERIF_SEED), calls the implementation in-process,
asks the Lean driver for the model's answer / the specification verdict, and
reports disagreements through `ctx.violation(...)`.
"""
from __future__ import annotations

import fcntl
import hashlib
import json
import os
import random
import re
import subprocess
import sys
import time
import traceback
from pathlib import Path

ROOT = Path(__file__).resolve().parent.parent
LEAN = ROOT / "lean"
WORK = ROOT / ".work"
DRIVER = LEAN / ".lake" / "build" / "bin" / "driver"
ALLOWED_AXIOMS = {"propext", "Classical.choice", "Quot.sound"}
FORBIDDEN = re.compile(
    r"\bsorry\b|\badmit\b|^axiom\s|native_decide|bv_decide|implemented_by|\bunsafe\s|maxHeartbeats\s+0"
)


class Infra(Exception):
    """Infrastructure failure (exit 2), never a violation."""


def _strip_comments(src: str) -> str:
    # remove nested /- -/ block comments and -- line comments
    out, depth, i = [], 0, 0
    while i < len(src):
        if src.startswith("/-", i):
            depth += 1
            i += 2
        elif src.startswith("-/", i) and depth:
            depth -= 1
            i += 2
        elif depth:
            if src[i] == "\n":
                out.append("\n")
            i += 1
        elif src.startswith("--", i):
            while i < len(src) and src[i] != "\n":
                i += 1
        else:
            out.append(src[i])
            i += 1
    return "".join(out)


def lean_source_scan(files):
    hits = []
    for f in files:
        txt = _strip_comments(Path(f).read_text())
        for n, line in enumerate(txt.splitlines(), 1):
            if FORBIDDEN.search(line):
                hits.append(f"{Path(f).relative_to(LEAN)}:{n}: {line.strip()}")
    return hits


def import_closure(modules):
    """Project-local transitive imports of the given Lean modules -> list of files."""
    seen, todo = {}, list(modules)
    while todo:
        m = todo.pop()
        if m in seen:
            continue
        f = LEAN / (m.replace(".", "/") + ".lean")
        if not f.exists():
            continue
        seen[m] = f
        for line in f.read_text().splitlines():
            mm = re.match(r"\s*(?:public\s+)?import\s+([\w.]+)", line)
            if mm:
                todo.append(mm.group(1))
    return sorted(seen.values())


def lake_build(targets, timeout=3000):
    """Serialised `lake build`; returns (ok, log)."""
    WORK.mkdir(exist_ok=True)
    with open(WORK / "lake.lock", "w") as lk:
        fcntl.flock(lk, fcntl.LOCK_EX)
        p = subprocess.run(
            ["lake", "build", *targets], cwd=LEAN, capture_output=True, text=True, timeout=timeout
        )
    return p.returncode == 0, p.stdout + p.stderr


def lean_run_file(relpath, timeout=900):
    p = subprocess.run(
        ["lake", "env", "lean", relpath], cwd=LEAN, capture_output=True, text=True, timeout=timeout
    )
    return p.returncode, p.stdout + p.stderr


def parse_axioms(output: str):
    """Parse `#print axioms` output -> {theorem: [axioms]}."""
    res = {}
    cur = None
    buf = ""
    for line in output.splitlines():
        m = re.match(r"'([^']+)' depends on axioms: \[(.*)$", line)
        m0 = re.match(r"'([^']+)' does not depend on any axioms", line)
        if m0:
            res[m0.group(1)] = []
            cur = None
            continue
        if m:
            cur = m.group(1)
            buf = m.group(2)
        elif cur is not None:
            buf += " " + line.strip()
        if cur is not None and "]" in buf:
            body = buf.split("]")[0]
            res[cur] = [a.strip() for a in body.split(",") if a.strip()]
            cur = None
            buf = ""
    return res


class LeanDriver:
    """Line protocol: one JSON request per line, one JSON reply per line."""

    def __init__(self):
        if not DRIVER.exists():
            raise Infra(f"driver not built: {DRIVER}")

    def query(self, requests, timeout=3000, shards=1):
        if not requests:
            return []
        if shards > 1 and len(requests) >= 2 * shards:
            from concurrent.futures import ThreadPoolExecutor

            n = len(requests)
            cuts = [(i * n // shards, (i + 1) * n // shards) for i in range(shards)]
            with ThreadPoolExecutor(shards) as ex:
                parts = list(ex.map(lambda ab: self.query(requests[ab[0]:ab[1]], timeout), cuts))
            return [r for part in parts for r in part]
        data = "\n".join(json.dumps(r, separators=(",", ":")) for r in requests) + "\n"
        p = subprocess.run([str(DRIVER)], input=data, capture_output=True, text=True, timeout=timeout)
        if p.returncode != 0:
            raise Infra(f"driver exited {p.returncode}: {p.stderr[-2000:]}")
        lines = [l for l in p.stdout.split("\n") if l]
        if len(lines) != len(requests):
            raise Infra(f"driver answered {len(lines)} lines for {len(requests)} requests")
        return [json.loads(l) for l in lines]

    def ok(self, requests, **kw):
        """Query and unwrap {"ok": x}; a driver-side error is an infrastructure failure."""
        out = []
        for req, rep in zip(requests, self.query(requests, **kw)):
            if "ok" not in rep:
                raise Infra(f"driver error {rep.get('err')!r} on {json.dumps(req)[:400]}")
            out.append(rep["ok"])
        return out


def canon_hash(obj) -> str:
    return hashlib.sha1(json.dumps(obj, sort_keys=True, default=str).encode()).hexdigest()


class Ctx:
    def __init__(self, pid, tier, seed):
        self.pid = pid
        self.tier = tier
        self.seed = seed
        self.rnd = random.Random(seed)
        self.quick = tier == "quick"
        self.evaluations = 0
        self._distinct = set()
        self.nontrivial_rule = ""
        self.gen_rule = ""
        self.samples = []
        self.counters = {}
        self.violations = []  # dicts: {what, case, detail, classes, no_input}
        self.obligations = []  # (name, discharged: bool, note)
        self.assumptions = []
        self.trusted = []
        self.extra = {}
        self.driver = None
        self.t0 = time.time()

    # ---- accounting -------------------------------------------------
    def count(self, key, n=1):
        self.counters[key] = self.counters.get(key, 0) + n

    def case(self, canonical, nontrivial=True, sample=None):
        """Register one evaluated case. `canonical` identifies it up to what makes cases
        'the same'; it is counted in distinct_nontrivial only when `nontrivial`."""
        self.evaluations += 1
        if nontrivial:
            self._distinct.add(canon_hash(canonical))
        if sample is not None and len(self.samples) < 6:
            self.samples.append(sample)

    def obligation(self, name, ok, note=""):
        self.obligations.append((name, bool(ok), note))

    def violation(self, what, case, detail=None, classes=(), no_input=False):
        self.violations.append(
            {"what": what, "case": case, "detail": detail, "classes": sorted(classes), "no_input": no_input}
        )

    def lean(self):
        if self.driver is None:
            self.driver = LeanDriver()
        return self.driver


def load_known(pid):
    f = ROOT / "known_findings.json"
    if not f.exists():
        return []
    return [e for e in json.loads(f.read_text()) if e.get("property") == pid and e.get("status") == "known"]


def match_known(v, known):
    for e in known:
        sel = e.get("selector", {})
        kind = sel.get("kind")
        if kind == "class" and sel.get("name") in v["classes"]:
            return e
        if kind == "input" and canon_hash(sel.get("case")) == canon_hash(v["case"]):
            return e
    return None


def build_and_audit(ctx, proof_modules, audit_file, theorems):
    """Obligations that do not depend on /repo: the Lean development builds, the named
    property theorems exist, and depend on no axiom outside the allowed set."""
    ok, log = lake_build(["driver"] + proof_modules)
    if not ok:
        # distinguish a broken proof module from a broken driver
        okd, logd = lake_build(["driver"])
        if not okd:
            raise Infra("Lean driver does not build:\n" + logd[-3000:])
        ctx.obligation("lake build " + " ".join(proof_modules), False, log[-1500:])
        return False
    ctx.obligation("lake build " + " ".join(proof_modules), True)
    hits = lean_source_scan(import_closure(proof_modules))
    ctx.obligation("no sorry/admit/axiom/native_decide/bv_decide/implemented_by/unsafe in Lean sources", not hits, "; ".join(hits[:5]))
    rc, out = lean_run_file(audit_file)
    ax = parse_axioms(out)
    good = rc == 0
    for t in theorems:
        if t not in ax:
            ctx.obligation(f"theorem {t}", False, "not reported by #print axioms")
            good = False
            continue
        bad = [a for a in ax[t] if a not in ALLOWED_AXIOMS]
        ctx.obligation(f"theorem {t} (axioms: {', '.join(ax[t]) or 'none'})", not bad, ",".join(bad))
        good = good and not bad
    if rc != 0:
        ctx.obligation(f"lean {audit_file}", False, out[-1500:])
    if not ctx.quick:
        # independent re-check of the compiled .olean files by the toolchain's external checker
        p = subprocess.run(["lake", "env", "leanchecker", *proof_modules], cwd=LEAN, capture_output=True, text=True, timeout=3000)
        ctx.obligation("leanchecker " + " ".join(proof_modules), p.returncode == 0, (p.stdout + p.stderr)[-800:])
        good = good and p.returncode == 0
    return good and not hits


def write_evidence(ctx, level, checker_cmd, n_viol):
    ev = {
        "property_id": ctx.pid,
        "tier": ctx.tier,
        "seed": ctx.seed,
        "level": level,
        "coverage": {
            "obligations": len(ctx.obligations),
            "discharged": sum(1 for o in ctx.obligations if o[1]),
            "obligation_list": [{"name": n, "discharged": ok, **({"note": note} if note else {})} for n, ok, note in ctx.obligations],
            "checker_cmd": checker_cmd,
            "trusted_base": ctx.trusted,
            "evaluations": ctx.evaluations,
            "distinct_nontrivial": len(ctx._distinct),
            "rule": ctx.gen_rule + " NON-TRIVIAL/DISTINCT: " + ctx.nontrivial_rule,
            "samples": ctx.samples,
            "counters": dict(sorted(ctx.counters.items())),
            **ctx.extra,
        },
        "assumptions": ctx.assumptions,
        "wall_s": round(time.time() - ctx.t0, 2),
        "violations": n_viol,
    }
    # tooling runs against scratch trees (tools_mutate.py) redirect their output
    d = Path(os.environ["VERIF_EVIDENCE_DIR"]) if os.environ.get("VERIF_EVIDENCE_DIR") else ROOT / "evidence"
    d.mkdir(parents=True, exist_ok=True)
    (d / f"{ctx.pid}.json").write_text(json.dumps(ev, indent=1, default=str) + "\n")


def finish(ctx, level="proof", checker_cmd="", write=True):
    known = load_known(ctx.pid)
    printed_known = set()
    real = []
    for v in ctx.violations:
        e = match_known(v, known)
        if e is not None:
            if e["id"] not in printed_known:
                printed_known.add(e["id"])
                print(f"KNOWN-FINDING: property={ctx.pid} {e['id']}: {e['what']}")
            ctx.count("known_finding_hits:" + e["id"])
        else:
            real.append(v)
    # failed obligations with no failing input are violations too (no-failing-input-found)
    failed = [o for o in ctx.obligations if not o[1]]
    rdir = (Path(os.environ["VERIF_REPLAY_DIR"]) if os.environ.get("VERIF_REPLAY_DIR") else ROOT / "replays") / ctx.pid
    lines = []
    if real or failed:
        rdir.mkdir(parents=True, exist_ok=True)
    seen = set()
    for i, v in enumerate(real):
        key = v["what"]
        if key in seen and len(seen) >= 1 and i >= 5:
            continue
        seen.add(key)
        path = rdir / f"{ctx.tier}-seed{ctx.seed}-{len(lines)}.json"
        path.write_text(json.dumps({"property": ctx.pid, "seed": ctx.seed, "tier": ctx.tier, **v}, indent=1, default=str) + "\n")
        tail = " no-failing-input-found" if v["no_input"] else ""
        lines.append(f"VIOLATION property={ctx.pid} replay={path}{tail}")
        if len(lines) >= 8:
            break
    if failed and not real:
        path = rdir / f"{ctx.tier}-seed{ctx.seed}-obligations.json"
        path.write_text(json.dumps({"property": ctx.pid, "failed_obligations": [{"name": n, "note": note} for n, _, note in failed]}, indent=1) + "\n")
        lines.append(f"VIOLATION property={ctx.pid} replay={path} no-failing-input-found")
    if write:      # a --replay run covers one case only: it must not replace the evidence of a full run
        write_evidence(ctx, level, checker_cmd, len(real) + (1 if failed and not real else 0))
    for l in lines:
        print(l)
    n = len(ctx.obligations)
    print(
        f"[{ctx.pid}] tier={ctx.tier} seed={ctx.seed} obligations={sum(1 for o in ctx.obligations if o[1])}/{n} "
        f"evaluations={ctx.evaluations} distinct_nontrivial={len(ctx._distinct)} violations={len(real)} "
        f"known={len(ctx.violations) - len(real)} wall={time.time() - ctx.t0:.1f}s"
    )
    return 1 if lines else 0


def main(argv=None):
    import argparse, importlib

    ap = argparse.ArgumentParser()
    ap.add_argument("pid")
    ap.add_argument("--tier", default=os.environ.get("VERIF_TIER", "quick"), choices=["quick", "thorough"])
    ap.add_argument("--replay", default=None)
    a = ap.parse_args(argv)
    seed = int(os.environ.get("VERIF_SEED", "0") or 0)
    pid = a.pid.upper()
    ctx = Ctx(pid, a.tier, seed)
    try:
        mod = importlib.import_module(f"harness.props.{pid.lower()}")
        if a.replay:
            case = json.loads(Path(a.replay).read_text())
            if not (isinstance(case, dict) and "case" in case):
                case = {"case": case}      # a bare case (regress/Cxx/*.json) replays like a violation file
            mod.replay(ctx, case)
        else:
            mod.run(ctx)
        rc = finish(ctx, getattr(mod, "LEVEL", "proof"), f"./check {pid} --tier {a.tier}", write=not a.replay)
    except Infra as e:
        print(f"infrastructure failure: {e}", file=sys.stderr)
        rc = 2
    except subprocess.TimeoutExpired as e:
        print(f"infrastructure failure: timeout {e}", file=sys.stderr)
        rc = 2
    except Exception as e:
        traceback.print_exc()
        rc = 2
        # An exception raised INSIDE the implementation under test (innermost frame in the synkit package) that no stream
        # caught is not an infrastructure failure: the correspondence run could not be completed on this tree, so the
        # property is no longer shown to hold.  It is reported as a violation without a failing input (the traceback is the
        # replay); exceptions raised by the harness itself stay exit 2.
        try:
            frames = traceback.extract_tb(e.__traceback__)
            inner = frames[-1].filename if frames else ""
            root = str(ROOT)
            if f"{os.sep}synkit{os.sep}" in inner and not inner.startswith(root):
                rdir = (Path(os.environ["VERIF_REPLAY_DIR"]) if os.environ.get("VERIF_REPLAY_DIR") else ROOT / "replays") / pid
                rdir.mkdir(parents=True, exist_ok=True)
                f = rdir / f"{a.tier}-seed{seed}-uncaught.json"
                f.write_text(json.dumps({"property": pid, "seed": seed, "tier": a.tier, "no_input": True,
                                         "what": "correspondence: the implementation raised an exception no stream expected; "
                                                 "the run could not be completed", "exception": repr(e)[:500],
                                         "traceback": traceback.format_exception(type(e), e, e.__traceback__)[-12:]}, indent=1))
                print(f"VIOLATION property={pid} replay={f} no-failing-input-found")
                rc = 1
        except Exception:      # noqa: BLE001 - reporting must not mask the original failure
            pass
    sys.exit(rc)


if __name__ == "__main__":
    main()

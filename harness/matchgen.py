"""Graph generators and shrinkers shared by the matcher-family checks (C06, C07).

All randomness comes from the `random.Random` handed in (the harness PRNG).  Graphs are
`networkx.Graph` objects with non-negative integer node ids, node attributes
`element` (str), `charge` (int), `hcount` (int, sometimes absent) and edge attribute `order`
(float in {1, 1.5, 2, 3}), i.e. what SynKit's molecule graphs carry.
"""
import itertools

import networkx as nx

ELEMS = ["C", "C", "C", "N", "O", "S"]


# ------------------------------------------------------------------ tiny exhaustive
def _canon_small(n, labels, edges):
    """canonical form of a labelled graph on range(n) under all node permutations"""
    best = None
    for perm in itertools.permutations(range(n)):
        lab = tuple(labels[perm[i]] for i in range(n))
        ed = tuple(sorted((min(a, b), max(a, b), o) for a, b, o in
                          ((perm.index(u), perm.index(v), o) for u, v, o in edges)))
        # perm[i] = old node placed at position i; perm.index(u) = new position of old node u
        key = (lab, ed)
        if best is None or key < best:
            best = key
    return best


def tiny_graphs(n, node_labels, orders):
    """All graphs on n nodes with node labels from `node_labels` (tuples (element, hcount)) and
    edge orders from `orders`, one representative per isomorphism class."""
    seen = {}
    slots = list(itertools.combinations(range(n), 2))
    for labels in itertools.product(node_labels, repeat=n):
        if list(labels) != sorted(labels):  # w.l.o.g. labels sorted: every class has such a member
            continue
        for choice in itertools.product([None] + list(orders), repeat=len(slots)):
            edges = [(u, v, o) for (u, v), o in zip(slots, choice) if o is not None]
            key = _canon_small(n, labels, edges)
            if key not in seen:
                seen[key] = (labels, edges)
    out = []
    for labels, edges in seen.values():
        g = nx.Graph()
        for i, (el, hc) in enumerate(labels):
            a = {"element": el, "charge": 0}
            if hc is not None:
                a["hcount"] = hc
            g.add_node(i, **a)
        for u, v, o in edges:
            g.add_edge(u, v, order=float(o))
        out.append(g)
    return out


# ------------------------------------------------------------------ random molecule-like
def mol_like(rnd, n, ids=None, elems=ELEMS, charge_p=0.1, hcount_absent_p=0.15, ring_p=0.5):
    """Random tree with degree <= 4 plus up to n//3 ring closures."""
    ids = list(ids) if ids is not None else list(range(n))
    g = nx.Graph()
    order = ids[:]
    rnd.shuffle(order)
    for v in order:
        a = {"element": rnd.choice(elems), "charge": 0 if rnd.random() > charge_p else rnd.choice([1, -1])}
        if rnd.random() > hcount_absent_p:
            a["hcount"] = rnd.choice([0, 0, 1, 1, 2, 3])
        g.add_node(v, **a)
    placed = [order[0]] if order else []
    for v in order[1:]:
        cands = [u for u in placed if g.degree(u) < 4]
        u = rnd.choice(cands or placed)
        g.add_edge(u, v, order=float(rnd.choice([1, 1, 1, 2, 3])))
        placed.append(v)
    for _ in range(n // 3):
        if rnd.random() < ring_p and n >= 3:
            u, v = rnd.sample(order, 2)
            if not g.has_edge(u, v) and g.degree(u) < 4 and g.degree(v) < 4:
                g.add_edge(u, v, order=rnd.choice([1.0, 1.5, 2.0]))
    return g


def union(rnd, parts):
    """Disjoint union with interleaved insertion order (node ids must already be disjoint)."""
    g = nx.Graph()
    nodes = [(v, d) for p in parts for v, d in p.nodes(data=True)]
    rnd.shuffle(nodes)
    for v, d in nodes:
        g.add_node(v, **dict(d))
    edges = [(u, v, d) for p in parts for u, v, d in p.edges(data=True)]
    rnd.shuffle(edges)
    for u, v, d in edges:
        if rnd.random() < 0.5:
            u, v = v, u
        g.add_edge(u, v, **dict(d))
    return g


def multi_component(rnd, sizes, elems=ELEMS, base=0, **kw):
    parts = []
    nxt = base
    for s in sizes:
        parts.append(mol_like(rnd, s, ids=range(nxt, nxt + s), elems=elems, **kw))
        nxt += s
    return union(rnd, parts)


def symmetric_family(rnd, kind, n, base=0):
    """cycles, stars, complete bipartite, repeated identical components (all C, hcount equal)."""
    if kind == "cycle":
        g = nx.cycle_graph(n)
    elif kind == "star":
        g = nx.star_graph(n - 1)
    elif kind == "path":
        g = nx.path_graph(n)
    elif kind == "kab":
        g = nx.complete_bipartite_graph(n // 2, n - n // 2)
    else:  # repeated components
        g = nx.disjoint_union_all([nx.path_graph(2) for _ in range(max(1, n // 2))])
    g = nx.relabel_nodes(g, {v: base + i for i, v in enumerate(g.nodes)})
    out = nx.Graph()
    nodes = list(g.nodes)
    rnd.shuffle(nodes)
    for v in nodes:
        out.add_node(v, element="C", charge=0, hcount=1)
    for u, v in g.edges:
        out.add_edge(u, v, order=1.0)
    return out


def relabelled_copy(rnd, g, base=None, shuffle_order=True):
    """Isomorphic copy with fresh node ids (a random injection) and shuffled insertion order."""
    nodes = list(g.nodes)
    n = len(nodes)
    if base is None:
        pool = rnd.sample(range(0, 3 * n + 5), n)
    else:
        pool = rnd.sample(range(base, base + 2 * n + 2), n)
    f = dict(zip(nodes, pool))
    order = nodes[:]
    if shuffle_order:
        rnd.shuffle(order)
    out = nx.Graph()
    for v in order:
        out.add_node(f[v], **dict(g.nodes[v]))
    edges = list(g.edges(data=True))
    if shuffle_order:
        rnd.shuffle(edges)
    for u, v, d in edges:
        if rnd.random() < 0.5:
            u, v = v, u
        out.add_edge(f[u], f[v], **dict(d))
    return out, f


def one_edit(rnd, g):
    """A one-edit neighbour: one element / charge / hcount / bond order changed, or one edge toggled."""
    h = g.copy()
    nodes = list(h.nodes)
    edges = list(h.edges)
    kinds = ["element", "charge", "hcount"]
    if edges:
        kinds += ["order", "deledge"]
    if len(nodes) >= 2:
        kinds.append("addedge")
    k = rnd.choice(kinds)
    if not nodes:
        return h, "none"
    if k == "element":
        v = rnd.choice(nodes)
        h.nodes[v]["element"] = rnd.choice([e for e in "CNOS" if e != h.nodes[v].get("element")])
    elif k == "charge":
        v = rnd.choice(nodes)
        h.nodes[v]["charge"] = h.nodes[v].get("charge", 0) + rnd.choice([1, -1])
    elif k == "hcount":
        v = rnd.choice(nodes)
        h.nodes[v]["hcount"] = h.nodes[v].get("hcount", 0) + rnd.choice([1, 1, -1]) if h.nodes[v].get("hcount", 0) > 0 else 1
    elif k == "order":
        u, v = rnd.choice(edges)
        h[u][v]["order"] = rnd.choice([o for o in (1.0, 2.0, 3.0, 1.5) if o != h[u][v].get("order")])
    elif k == "deledge":
        h.remove_edge(*rnd.choice(edges))
    else:
        u, v = rnd.sample(nodes, 2)
        if h.has_edge(u, v):
            h.remove_edge(u, v)
        else:
            h.add_edge(u, v, order=1.0)
    return h, k


def connected_subset(rnd, g, k, start_pool=None):
    pool = list(start_pool if start_pool is not None else g.nodes)
    if not pool:
        return []
    cur = [rnd.choice(pool)]
    allowed = set(pool)
    while len(cur) < k:
        frontier = [v for u in cur for v in g.neighbors(u) if v not in cur and v in allowed]
        if not frontier:
            break
        cur.append(rnd.choice(frontier))
    return cur


def pattern_from(rnd, host, k, ncomp=1, base=100, induced_p=0.5, lower_h_p=0.4, edit_p=0.0):
    """A pattern planted in `host`: `ncomp` connected pieces of about k nodes in total, taken from
    (preferably different) host components, induced or with some non-bridge edges dropped, hydrogen
    counts possibly lowered (host >= pattern), relabelled with fresh ids.  With `edit_p` one label is
    edited afterwards (usually unplanting it)."""
    comps = [list(c) for c in nx.connected_components(host)]
    rnd.shuffle(comps)
    chosen = []
    used = set()
    per = max(1, k // max(1, ncomp))
    for i in range(ncomp):
        pool = None
        if comps:
            c = comps[i % len(comps)]
            pool = [v for v in c if v not in used]
        if not pool:
            pool = [v for v in host.nodes if v not in used]
        if not pool:
            break
        piece = connected_subset(rnd, host, per, pool)
        used.update(piece)
        chosen.append(piece)
    sub = nx.Graph()
    for piece in chosen:
        s = host.subgraph(piece)
        for v in piece:
            sub.add_node(v, **dict(host.nodes[v]))
        for u, v, d in s.edges(data=True):
            sub.add_edge(u, v, **dict(d))
        if rnd.random() > induced_p:
            for u, v in list(s.edges):
                if rnd.random() < 0.4:
                    sub.remove_edge(u, v)
                    if not nx.has_path(sub, u, v):
                        sub.add_edge(u, v, **dict(host[u][v]))
    for v in sub.nodes:
        if "hcount" in sub.nodes[v] and rnd.random() < lower_h_p:
            sub.nodes[v]["hcount"] = rnd.randint(0, sub.nodes[v]["hcount"])
        elif "hcount" in sub.nodes[v] and rnd.random() < 0.1:
            del sub.nodes[v]["hcount"]
    pat, f = relabelled_copy(rnd, sub, base=base)
    tag = "planted"
    if rnd.random() < edit_p:
        pat, kind = one_edit(rnd, pat)
        tag = "edited:" + kind
    return pat, tag


# ------------------------------------------------------------------ shrinking
def graph_variants(g, keep_nonempty=True):
    """Smaller neighbours of g: one node or one edge deleted, one attribute dropped."""
    for v in list(g.nodes):
        if keep_nonempty and g.number_of_nodes() <= 1:
            break
        h = g.copy()
        h.remove_node(v)
        yield h
    for u, v in list(g.edges):
        h = g.copy()
        h.remove_edge(u, v)
        yield h
    for v in list(g.nodes):
        for k in list(g.nodes[v]):
            if k in ("charge", "hcount"):
                h = g.copy()
                del h.nodes[v][k]
                yield h


def shrink_pair(host, pat, fails, budget=300):
    """Greedy minimisation of (host, pattern) while `fails(host, pattern)` holds."""
    n = 0
    changed = True
    while changed and n < budget:
        changed = False
        for which in (0, 1):
            g = (host, pat)[which]
            for cand in graph_variants(g):
                n += 1
                if n > budget:
                    break
                pair = (cand, pat) if which == 0 else (host, cand)
                try:
                    bad = fails(*pair)
                except Exception:
                    bad = False
                if bad:
                    host, pat = pair
                    changed = True
                    break
            if changed:
                break
    return host, pat


def graphs_equal(a, b):
    return (list(a.nodes(data=True)) == list(b.nodes(data=True))
            and sorted((min(u, v), max(u, v), sorted(d.items())) for u, v, d in a.edges(data=True))
            == sorted((min(u, v), max(u, v), sorted(d.items())) for u, v, d in b.edges(data=True)))

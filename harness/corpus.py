"""Loader for the vendored reaction corpora under corpus/ (see corpus/README.txt).

The population is a fixed text copy; nothing here reads /repo/Data.
"""
import json
from pathlib import Path

CORPUS = Path(__file__).resolve().parent.parent / "corpus"


def load_reactions(sources=None):
    """-> list of {"src", "idx", "rsmi"} in file order (ecoli 274, uspto 100, hydro 50)."""
    out = []
    for line in (CORPUS / "reactions.tsv").read_text().splitlines():
        if not line.strip():
            continue
        src, idx, rsmi = line.split("\t")
        if sources is None or src in sources:
            out.append({"src": src, "idx": int(idx), "rsmi": rsmi})
    return out


def load_its_graphs():
    """-> list of {"src", "idx", "rid", "its"}; `its` in the graphio JSON encoding."""
    return [json.loads(l) for l in (CORPUS / "hydro_its.jsonl").read_text().splitlines() if l.strip()]

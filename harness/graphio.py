"""NetworkX graph <-> the JSON encoding understood by the Lean driver (Driver/GraphJson.lean).

Val:   None | {"n": int half-units} | {"s": str} | {"b": bool} | {"t": [Val...]}
Numbers travel in half-units (value*2 must be integral: bond orders 1, 1.5, 2, 3, counts,
charges), so no float ever crosses the protocol and 1 == 1.0 as in Python.
"""
import networkx as nx


class Unsupported(Exception):
    pass


def val(x):
    if x is None:
        return None
    if isinstance(x, bool):
        return {"b": bool(x)}
    if isinstance(x, str):
        return {"s": x}
    if isinstance(x, (tuple, list)):
        return {"t": [val(y) for y in x]}
    try:
        import numpy as np
        if isinstance(x, np.generic):
            x = x.item()
            return val(x)
    except ImportError:
        pass
    if isinstance(x, int):
        return {"n": 2 * x}
    if isinstance(x, float):
        h = x * 2
        if h != int(h):
            raise Unsupported(f"number {x!r} is not a multiple of 1/2")
        return {"n": int(h)}
    if isinstance(x, (set, frozenset)):
        return {"t": [val(y) for y in sorted(x, key=repr)]}
    raise Unsupported(f"value {x!r} of type {type(x).__name__}")


def unval(j):
    if j is None:
        return None
    if "n" in j:
        h = j["n"]
        return h // 2 if h % 2 == 0 else h / 2
    if "s" in j:
        return j["s"]
    if "b" in j:
        return j["b"]
    if "t" in j:
        return tuple(unval(y) for y in j["t"])
    raise ValueError(j)


def attrs(d, keys=None):
    return {str(k): val(v) for k, v in d.items() if keys is None or k in keys}


def graph(G, node_keys=None, edge_keys=None, node_id=int):
    """Encode G (insertion order kept). Node ids must be non-negative ints (or mapped by node_id)."""
    return {
        "nodes": [[node_id(n), attrs(d, node_keys)] for n, d in G.nodes(data=True)],
        "edges": [[node_id(u), node_id(v), attrs(d, edge_keys)] for u, v, d in G.edges(data=True)],
    }


def to_nx(j, directed=False):
    G = nx.DiGraph() if directed else nx.Graph()
    for n, a in j["nodes"]:
        G.add_node(n, **{k: unval(v) for k, v in a.items()})
    for u, v, a in j["edges"]:
        G.add_edge(u, v, **{k: unval(x) for k, x in a.items()})
    return G


def mapping(m):
    """dict pattern->host  ->  sorted [[p, h], ...]"""
    return sorted([int(p), int(h)] for p, h in m.items())


def mappings(ms):
    """a collection of dict mappings -> canonical sorted list (a set of mappings)"""
    return sorted(mapping(m) for m in ms)

"""Reaction networks: one description -> (a) the JSON the Lean driver reads (Driver/NetJson.lean)
and (b) a real `CRNHyperGraph` built through its public API.

Description (plain JSON value, also what replays store):
    {"reactions": [{"id": "r_1", "rule": "r", "r": [["A", 1], ["B", 2]], "p": [["C", 1]]}, ...],
     "isolated": ["X", ...]}            # species present in the store without any reaction

Every reaction carries an explicit id (id generation is C15's subject, not ours).  The JSON network
lists the species in `_species_order` order (sorted labels) and the reactions in the order of the
bipartite view's reaction nodes (`sorted(H.edges.items())`, i.e. by id); entries with a coefficient
<= 0 are dropped, as `RXNSide` does.  `check_encoding` verifies those two assumptions against the
object actually built, so an encoder/implementation mismatch is reported as such and never as a
property violation.
"""
from __future__ import annotations


def norm_side(side):
    out = {}
    for s, c in side:
        c = int(c)
        if c > 0:
            out[str(s)] = out.get(str(s), 0) + c
    return [[s, c] for s, c in out.items()]


def reactions_of(desc):
    rs = []
    for r in desc["reactions"]:
        rs.append({"id": r["id"], "rule": r.get("rule") or "r", "r": norm_side(r["r"]), "p": norm_side(r["p"])})
    return rs


def well_formed(desc):
    """ids distinct and no reaction with both sides empty (add_rxn would raise)."""
    rs = reactions_of(desc)
    ids = [r["id"] for r in rs]
    return len(set(ids)) == len(ids) and all(r["r"] or r["p"] for r in rs)


def to_net_json(desc):
    rs = reactions_of(desc)
    species = set(desc.get("isolated", []))
    for r in rs:
        species.update(s for s, _ in r["r"])
        species.update(s for s, _ in r["p"])
    return {"species": sorted(species), "reactions": sorted(rs, key=lambda r: r["id"])}


def to_hypergraph(desc):
    from synkit.CRN.Hypergraph.hypergraph import CRNHyperGraph

    H = CRNHyperGraph()
    for r in desc["reactions"]:
        H.add_rxn(dict((s, int(c)) for s, c in r["r"]), dict((s, int(c)) for s, c in r["p"]),
                  rule=r.get("rule"), edge_id=r["id"])
    for k, s in enumerate(desc.get("isolated", [])):
        if s not in H.species:
            H.add_rxn({s: 1}, {}, edge_id=f"__iso_{k}")
            H.remove_species(s, prune_orphans=False)
    return H


def check_encoding(desc, H=None):
    """-> None when the JSON network is what the implementation's bipartite view shows, else a message."""
    from synkit.CRN.Hypergraph.conversion import _as_bipartite
    from synkit.CRN.Props.utils import _species_order, _split_species_reactions

    H = H if H is not None else to_hypergraph(desc)
    net = to_net_json(desc)
    G = _as_bipartite(H)
    _, labels, _ = _species_order(G)
    if list(labels) != net["species"]:
        return f"species order {labels} != {net['species']}"
    _, rnodes = _split_species_reactions(G)
    got = []
    for rn in rnodes:
        rr = sorted([G.nodes[u]["label"], int(d.get("stoich", 1))] for u, _, d in G.in_edges(rn, data=True))
        pp = sorted([G.nodes[v]["label"], int(d.get("stoich", 1))] for _, v, d in G.out_edges(rn, data=True))
        got.append([G.nodes[rn].get("label"), rr, pp])
    want = [[r["rule"], sorted(r["r"]), sorted(r["p"])] for r in net["reactions"]]
    if got != want:
        return f"reaction nodes {got} != {want}"
    return None


def to_net_json_raw(desc):
    """Like `to_net_json` but keeps the sides exactly as written (zero coefficients stay): the
    encoding of a hand-built bipartite graph (`to_bipartite_raw`).  Keys of a side must be distinct."""
    species = set(desc.get("isolated", []))
    rs = []
    for r in desc["reactions"]:
        species.update(s for s, _ in r["r"])
        species.update(s for s, _ in r["p"])
        rs.append({"id": r["id"], "rule": r.get("rule") or "r", "r": [[s, int(c)] for s, c in r["r"]],
                   "p": [[s, int(c)] for s, c in r["p"]]})
    return {"species": sorted(species), "reactions": rs}


def to_bipartite_raw(desc):
    """A directed bipartite graph with the documented node/arc attributes, built by hand in the
    order of the description (string node ids), for the entry points that accept a NetworkX graph."""
    import networkx as nx

    net = to_net_json_raw(desc)
    G = nx.DiGraph()
    for s in net["species"]:
        G.add_node("S:" + s, kind="species", bipartite=0, label=s)
    for r in net["reactions"]:
        rn = "R:" + r["id"]
        G.add_node(rn, kind="reaction", bipartite=1, label=r["rule"])
        for s, c in r["r"]:
            G.add_edge("S:" + s, rn, role="reactant", stoich=int(c))
        for s, c in r["p"]:
            G.add_edge(rn, "S:" + s, role="product", stoich=int(c))
    return G


def fmt(desc):
    def side(x):
        return " + ".join((f"{c}{s}" if c != 1 else s) for s, c in x) or "0"
    return ", ".join(f"{r['id']}: {side(r['r'])} >> {side(r['p'])}" for r in desc["reactions"])

"""Anchored source ranges of a property, resolved against /repo's CURRENT source.

properties.jsonl names ranges as `file.py:a-b` on the pinned tree.  Repairs in /repo ("fix:" commits)
move lines, so a range is resolved through the functions it covers: the functions / methods of the
pinned file that overlap [a, b] are looked up by qualified name in the current file and their current
extents are used.  Where nothing can be resolved the raw range is kept.
"""
import ast, json, os, re, subprocess

REPO = os.environ.get("VERIF_REPO", "/repo")


def base_commit():
    """the pinned tree: the newest commit that is not one of the `fix:` repairs"""
    out = subprocess.run(["git", "-C", REPO, "log", "--format=%H\t%s"], capture_output=True, text=True).stdout
    for line in out.splitlines():
        h, _, s = line.partition("\t")
        if not s.startswith("fix:"):
            return h
    return "HEAD"


def _defs(src):
    """qualified name -> (first line incl. decorators, last line) of every function/method; classes too"""
    out = {}
    try:
        tree = ast.parse(src)
    except SyntaxError:
        return out

    def walk(node, prefix):
        for ch in ast.iter_child_nodes(node):
            if isinstance(ch, (ast.FunctionDef, ast.AsyncFunctionDef, ast.ClassDef)):
                q = prefix + ch.name
                first = min([ch.lineno] + [d.lineno for d in ch.decorator_list])
                out[q] = (first, ch.end_lineno, isinstance(ch, ast.ClassDef))
                walk(ch, q + ".")
            else:
                walk(ch, prefix)
    walk(tree, "")
    return out


def parse_where(where):
    """'a.py:1-5, 9-12' / 'a.py:3; b.py:7-9' / 'a.py' -> [(file, a, b)] (a, b None = whole file)"""
    out, last = [], None
    for part in re.split(r"[,;]", where):
        part = part.strip()
        m = re.match(r"^([^:\s]+\.py)(?::(\d+)(?:-(\d+))?)?", part)
        if m:
            last = m.group(1)
            a = int(m.group(2)) if m.group(2) else None
            b = int(m.group(3)) if m.group(3) else a
            out.append((last, a, b))
            continue
        m = re.match(r"^(\d+)(?:-(\d+))?$", part)
        if m and last:
            a = int(m.group(1))
            out.append((last, a, int(m.group(2)) if m.group(2) else a))
    return out


_cache = {}


def resolve(fn, a, b, base=None):
    """current line ranges [(a', b', name)] for the pinned range fn:a-b"""
    path = os.path.join(REPO, fn)
    if not os.path.exists(path):
        return []
    cur_src = open(path).read()
    if a is None:
        return [(1, len(cur_src.splitlines()), "<file>")]
    base = base or _cache.setdefault("base", base_commit())
    key = (fn, base)
    if key not in _cache:
        old = subprocess.run(["git", "-C", REPO, "show", "%s:%s" % (base, fn)], capture_output=True, text=True)
        _cache[key] = _defs(old.stdout) if old.returncode == 0 else {}
    old_defs, cur_defs = _cache[key], _defs(cur_src)
    # functions / methods overlapping the range (a class only if no function of it overlaps)
    hits = [(q, v) for q, v in old_defs.items() if v[0] <= b and a <= v[1]]
    funcs = [q for q, v in hits if not v[2]]
    # a function nested in another function belongs to the outer one
    outer = [q for q in funcs if not any(q.startswith(o + ".") for o in funcs if o != q)]
    names = outer or [q for q, v in hits if v[2]]
    out = []
    for q in names:
        if q in cur_defs:
            out.append((cur_defs[q][0], cur_defs[q][1], q))
    if not out:
        out = [(a, b, "<raw>")]
    return sorted(set(out))


def property_ranges(prop):
    """[(mechanism name, where, file, a, b, qualified name)] on the current tree"""
    out = []
    for mech in prop["anchors"].get("mechanism", []):
        for fn, a, b in parse_where(mech.get("where", "")):
            for a2, b2, q in resolve(fn, a, b):
                out.append((mech["name"], mech["where"], fn, a2, b2, q))
    return out


def load_properties(root):
    out = {}
    for line in open(os.path.join(root, "properties.jsonl")):
        if line.strip():
            d = json.loads(line)
            out[d["id"]] = d
    return out

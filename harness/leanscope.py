"""Build + axiom audit for one property, with the source scan restricted to the Lean files the
property's theorems can depend on (the transitive `import SynKit…` closure of its Props file).

`core.build_and_audit` scans every file under lean/SynKit*; while other properties are still being
built (their files may legitimately contain unfinished statements) that would fail this property's
obligation for a reason that has nothing to do with it.  `#print axioms` of every property theorem
is checked exactly as in core (a `sorryAx` anywhere below a theorem is caught there as well).
"""
import re

from .core import ALLOWED_AXIOMS, LEAN, Infra, lake_build, lean_run_file, lean_source_scan, parse_axioms


def import_closure(module):
    seen, todo = [], [module]
    while todo:
        m = todo.pop()
        if m in seen:
            continue
        f = LEAN / (m.replace(".", "/") + ".lean")
        if not f.exists():
            continue
        seen.append(m)
        for line in f.read_text().splitlines():
            mm = re.match(r"\s*import\s+(SynKit[\w.]*)", line)
            if mm:
                todo.append(mm.group(1))
    return [LEAN / (m.replace(".", "/") + ".lean") for m in sorted(seen)]


def build_and_audit_scoped(ctx, proof_module, audit_file, theorems):
    ok, log = lake_build(["driver", proof_module])
    if not ok:
        okd, logd = lake_build(["driver"])
        if not okd:
            raise Infra("Lean driver does not build:\n" + logd[-3000:])
        ctx.obligation("lake build " + proof_module, False, log[-1500:])
        return False
    ctx.obligation("lake build " + proof_module, True)
    files = import_closure(proof_module)
    hits = lean_source_scan(files)
    ctx.obligation(f"no sorry/admit/axiom/native_decide/bv_decide/implemented_by/unsafe in the {len(files)} Lean sources "
                   f"{proof_module} depends on", not hits, "; ".join(hits[:5]))
    rc, out = lean_run_file(audit_file)
    ax = parse_axioms(out)
    good = rc == 0
    for t in theorems:
        if t not in ax:
            ctx.obligation(f"theorem {t}", False, "not reported by #print axioms")
            good = False
            continue
        bad = [a for a in ax[t] if a not in ALLOWED_AXIOMS]
        ctx.obligation(f"theorem {t} (axioms: {', '.join(ax[t]) or 'none'})", not bad, ",".join(bad))
        good = good and not bad
    if rc != 0:
        ctx.obligation(f"lean {audit_file}", False, out[-1500:])
    return good and not hits

"""C06 — subgraph search returns exactly the label-preserving monomorphisms.

Correspondence: `SubgraphSearchEngine.find_subgraph_mappings` (real code, in-process) against the
Lean model `SynKit.SubgraphSearch.search` (SynKitModel/SubgraphSearch.lean) whose output is proved
(Props/C06.lean) to be the specification: exhaustive = exactly the monomorphisms, component-aware
= those sending different pattern components into different host components (all when the host
has fewer components), bt = comp if non-empty else all, limits truncate, threshold empties.

Gates (only what C06 determines):
* unlimited runs: the *set* of mappings impl == model, no duplicates;
* runs with max_results / threshold / pre_filter: VF2's enumeration order is not specified, so
  impl result must be duplicate-free, a subset of the unlimited result of the same strategy and
  have the model's length (= min(k, total), or 0 past the threshold);
* inputs unmodified;
* call forms (stream `call-forms`): the same configuration handed over as `Strategy` enum member, in another letter case,
  with arguments left to their documented defaults (strategy=COMPONENT, strict_cc_count=True, max_results=None,
  threshold=None -> DEFAULT_THRESHOLD 5000, pre_filter=False), with integral float limits (SynReactor's
  `embed_threshold: float`), graphs positional / by keyword, on the class / on an instance: same gates against the
  model's answer for the canonical configuration; a failure confined to the call form is classed `call-form`;
* default cap (stream `threshold-boundary`): match counts 4992..5040 around DEFAULT_THRESHOLD with the threshold left
  at its default: everything up to 5000 matches, [] beyond;
* look-alike labels (streams `collision-pairs`, `colliding-labels`): the selected attributes of corresponding pattern / host
  atoms and bonds carry values that are DIFFERENT under Python `==` (and as Lean `Val`) but alike under a cheap summary
  (hash, len, str, first element, rounding, letter case, truthiness), next to values that are EQUAL but written differently
  (1 / 1.0 / numpy scalars) and attributes nobody selected: same gates (the property demands equality of the selected
  attributes, nothing weaker and nothing else).
"""
import json

import networkx as nx

from .. import graphio, matchgen
from ..core import ROOT, build_and_audit

THEOREMS = [
    "SynKit.SubgraphSearch.search_all_eq",
    "SynKit.SubgraphSearch.all_spec",
    "SynKit.SubgraphSearch.limit_all",
    "SynKit.SubgraphSearch.threshold_spec",
    "SynKit.SubgraphSearch.comp_sound",
    "SynKit.SubgraphSearch.comp_subset_all",
    "SynKit.SubgraphSearch.comp_eq_all_of_fewer",
    "SynKit.SubgraphSearch.bt_spec",
    "SynKit.SubgraphSearch.strict_guard",
    "SynKit.SubgraphSearch.limit_comp",
    "SynKit.SubgraphSearch.prefilter_spec",
    "SynKit.Match.mem_allMonos",
    "SynKit.Match.allMonos_nodup",
    "SynKit.SubgraphSearch.comp_complete",
    "SynKit.SubgraphSearch.search_nil_of_no_mono",
    "SynKit.SubgraphSearch.prefilter_zero_sound",
    "SynKit.SubgraphSearch.prefilter_zero_lossless",
    "SynKit.SubgraphSearch.prefilter_estimate_upper",
    "SynKit.SubgraphSearch.prefilter_fires_iff",
    "SynKit.SubgraphSearch.prefilter_sound_or_large",
]

NODE_KEYS = [["element"], ["element", "charge"], ["element", "charge"], []]
EDGE_KEYS = [["order"], ["order"], []]


# ---------------------------------------------------------------- implementation adapter
STRATEGY_MEMBER = {"all": "ALL", "comp": "COMPONENT", "bt": "BACKTRACK"}


def model_cfg(cfg):
    """The canonical configuration the model is asked about: a cfg may carry a "call" entry that only says HOW the
    same configuration is handed to the implementation (enum member / other letter case / argument left out so that
    the documented default applies / integral float limit / positional graphs / call on an instance)."""
    if "call" not in cfg:
        return cfg
    return {k: v for k, v in cfg.items() if k != "call"}


def call_args(cfg, host, pat, nk, ek):
    """-> (use_instance, args, kwargs) of the find_subgraph_mappings call described by cfg (and cfg["call"])."""
    call = cfg.get("call") or {}
    omit = set(call.get("omit", ()))
    flt = set(call.get("float", ()))
    kw = {"node_attrs": list(nk), "edge_attrs": list(ek)}
    form = call.get("strategy", "lower")
    if form == "enum":
        from synkit.Synthesis.Reactor.strategy import Strategy
        kw["strategy"] = getattr(Strategy, STRATEGY_MEMBER[cfg["strategy"]])
    elif form == "upper":
        kw["strategy"] = cfg["strategy"].upper()
    elif form == "title":
        kw["strategy"] = cfg["strategy"].title()
    elif form != "omit":
        kw["strategy"] = cfg["strategy"]
    for key, arg in (("max_results", "max_results"), ("strict", "strict_cc_count"), ("threshold", "threshold"),
                     ("pre_filter", "pre_filter")):
        if key in omit:
            continue
        v = cfg[key]
        if key in flt and v is not None:
            v = float(v)
        kw[arg] = v
    if call.get("positional"):
        args = (host, pat)
    else:
        args = ()
        kw["host"], kw["pattern"] = host, pat
    return bool(call.get("instance")), args, kw


def impl_search(host, pat, nk, ek, cfg):
    from synkit.Graph.Matcher.subgraph_matcher import SubgraphSearchEngine as S

    h0, p0 = host.copy(), pat.copy()
    try:
        if "call" in cfg:
            inst, args, kw = call_args(cfg, host, pat, nk, ek)
            res = (S() if inst else S).find_subgraph_mappings(*args, **kw)
        else:
            res = S.find_subgraph_mappings(host, pat, node_attrs=list(nk), edge_attrs=list(ek), strategy=cfg["strategy"],
                                           max_results=cfg["max_results"], strict_cc_count=cfg["strict"],
                                           threshold=cfg["threshold"], pre_filter=cfg["pre_filter"])
    except Exception as e:  # no error branch is modelled for well-formed inputs
        return {"error": type(e).__name__ + ": " + str(e)[:200]}
    lst = [graphio.mapping(m) for m in res]
    return {"maps": sorted(lst), "n": len(lst), "dups": len(lst) - len({json.dumps(m) for m in lst}),
            "mutated": not (matchgen.graphs_equal(host, h0) and matchgen.graphs_equal(pat, p0))}


def is_unlimited(cfg):
    return (not cfg["max_results"]) and cfg["threshold"] is None and not cfg["pre_filter"]


def judge(cfg, impl, mod, total):
    """-> None or a description of the violated clause."""
    if "error" in impl:
        return "raised " + impl["error"]
    if impl["mutated"]:
        return "an input graph was modified"
    if impl["dups"]:
        return "result contains duplicates"
    if is_unlimited(cfg) and total <= 5000:
        if impl["maps"] != mod["result"]:
            a, b = {json.dumps(m) for m in impl["maps"]}, {json.dumps(m) for m in mod["result"]}
            return (f"result set differs from the specification: {len(a - b)} mapping(s) returned that the specification excludes, "
                    f"{len(b - a)} required mapping(s) missing")
        return None
    if impl["n"] != mod["n"]:
        return f"limited run returned {impl['n']} mapping(s); the property demands {mod['n']} (min(max_results, total) or 0 past the threshold)"
    unl = {json.dumps(m) for m in mod["unlimited"]}
    if any(json.dumps(m) not in unl for m in impl["maps"]):
        return "limited run returned a mapping outside the unlimited result of the same strategy"
    return None


def request(host, pat, nk, ek, cfgs):
    return {"cmd": "c06.search", "host": graphio.graph(host), "pattern": graphio.graph(pat),
            "node_keys": list(nk), "edge_keys": list(ek), "cfgs": [model_cfg(c) for c in cfgs]}


def case_json(host, pat, nk, ek, cfg):
    return {"host": graphio.graph(host), "pattern": graphio.graph(pat), "node_keys": list(nk), "edge_keys": list(ek), "cfg": cfg}


# ---------------------------------------------------------------- configurations
def base_cfgs():
    out = []
    for strat in ("all", "comp", "bt"):
        for strict in ((True,) if strat == "all" else (False, True)):
            out.append({"strategy": strat, "max_results": None, "strict": strict, "threshold": None, "pre_filter": False})
    return out


def limited_cfgs(rnd, total, k=4):
    out = []
    for _ in range(k):
        out.append({"strategy": rnd.choice(["all", "comp", "comp", "bt"]),
                    "max_results": rnd.choice([None, 0, 1, 1, 2, 2, 5, max(1, total - 1), total + 1]),
                    "strict": rnd.random() < 0.3,
                    "threshold": rnd.choice([None, None, 0, 1, max(0, total - 1), total, total + 1, 2]),
                    "pre_filter": rnd.random() < 0.25})
    return out


# ---------------------------------------------------------------- evaluation
def lean_each(ctx, reqs, workers=8):
    """A few expensive requests: one driver process per request, side by side."""
    from concurrent.futures import ThreadPoolExecutor

    with ThreadPoolExecutor(max(1, min(workers, len(reqs)))) as ex:
        return [r[0] for r in ex.map(lambda q: ctx.lean().ok([q]), reqs)]


def evaluate(ctx, cases, tag, each=False):
    """cases: list of (host, pattern, node_keys, edge_keys, cfgs, shape-tag)."""
    if not cases:
        return
    reqs = [request(h, p, nk, ek, cfgs) for h, p, nk, ek, cfgs, _ in cases]
    models = lean_each(ctx, reqs) if each else ctx.lean().ok(reqs, shards=8)
    for (host, pat, nk, ek, cfgs, shape), mod in zip(cases, models):
        total, hcc, pcc = mod["total"], mod["hcc"], mod["pcc"]
        ctx.count("stream:" + tag)
        ctx.count("shape:" + shape)
        ctx.count("matches:" + ("0" if total == 0 else "1" if total == 1 else "many"))
        ctx.count(f"components:h{min(hcc, 3)}p{min(pcc, 3)}" + ("(host fewer)" if hcc < pcc else ""))
        if not mod["comp_model_eq_spec"]:
            # completeness of the component-aware model is proved (`comp_complete`); it is additionally tested
            # here on every case against the brute-force specification
            ctx.count("comp_model_differs_from_spec")
            ctx.violation("model of the component-aware strategy differs from its brute-force specification (clause comp_complete)",
                          case_json(host, pat, nk, ek, cfgs[0] if cfgs else None), {"stream": tag}, no_input=True)
        nontrivial = total >= 1 and host.number_of_nodes() >= 2
        ctx.case([graphio.graph(host), graphio.graph(pat), nk, ek], nontrivial,
                 sample={"stream": tag, **case_json(host, pat, nk, ek, cfgs[0]), "matches": total}
                 if host.number_of_nodes() <= 3 else None)
        for cfg, m in zip(cfgs, mod["runs"]):
            ctx.count("strategy:" + cfg["strategy"] + ("" if is_unlimited(cfg) else "+limits"))
            count_call(ctx, cfg)
            if cfg["strategy"] != "all" and cfg["strict"] and hcc > pcc:
                ctx.count("strict_guard_fired")
            if cfg["pre_filter"] and m["prefilter"]:
                ctx.count("prefilter_fired")
            if m.get("bt_switch") and m["n"]:
                # recorded, not gated: a limit/threshold emptied the component-aware pass, so bt fell back to the
                # exhaustive pass and returned mappings outside its unlimited (component-aware) result — as coded
                ctx.count("bt_limit_switched_to_fallback_nonempty")
            impl = impl_search(host, pat, nk, ek, cfg)
            why = judge(cfg, impl, m, total)
            if why is None:
                continue
            if "call" in cfg and judge(cfg, impl_search(host, pat, nk, ek, model_cfg(cfg)), m, total) is None:
                # the explicit lower-case all-arguments call of the same configuration meets the specification: what
                # broke is the documented way of selecting the strategy / relying on a documented default
                report(ctx, host, pat, nk, ek, cfg, why, tag, classes=["call-form"],
                       what="find_subgraph_mappings answers a documented call form (strategy given as enum member / other letter "
                            "case, argument left to its documented default, integral float limit, positional graphs) differently "
                            "from the explicit call of the same configuration, and departs from the specification")
            else:
                report(ctx, host, pat, nk, ek, cfg, why, tag)
            if len(ctx.violations) >= 5 or each:  # `each`: cases of thousands of mappings, one report is enough
                return


def count_call(ctx, cfg):
    call = cfg.get("call")
    if call is None:
        return
    ctx.count("call:strategy-as-" + call.get("strategy", "lower"))
    for k in call.get("omit", ()):
        ctx.count("call:default-" + k)
    for k in call.get("float", ()):
        if cfg[k] is not None:
            ctx.count("call:float-" + k)
    ctx.count("call:graphs-" + ("positional" if call.get("positional") else "keyword"))
    ctx.count("call:on-" + ("instance" if call.get("instance") else "class"))


def report(ctx, host, pat, nk, ek, cfg, why, tag, classes=(), what=None):
    def fails(h, p):
        mod = ctx.lean().ok([request(h, p, nk, ek, [cfg])])[0]
        return judge(cfg, impl_search(h, p, nk, ek, cfg), mod["runs"][0], mod["total"]) is not None

    h2, p2 = matchgen.shrink_pair(host, pat, fails, budget=300 if host.number_of_nodes() <= 12 else 8)
    mod = ctx.lean().ok([request(h2, p2, nk, ek, [cfg])])[0]
    impl = impl_search(h2, p2, nk, ek, cfg)
    why2 = judge(cfg, impl, mod["runs"][0], mod["total"]) or why
    spec = None
    if "maps" in impl:
        spec = ctx.lean().ok([{"cmd": "c06.spec", "host": graphio.graph(h2), "pattern": graphio.graph(p2),
                               "node_keys": list(nk), "edge_keys": list(ek), "maps": impl["maps"]}])[0]
    ctx.violation(what or "find_subgraph_mappings departs from the specification of the selected strategy",
                  case_json(h2, p2, nk, ek, cfg),
                  {"clause": why2, "stream": tag, "implementation": trim(impl), "specification": trim(mod["runs"][0]),
                   "monomorphisms_total": mod["total"], "host_components": mod["hcc"], "pattern_components": mod["pcc"],
                   "spec_on_impl_output[isMono,distinctComponents]": spec if spec is None or len(spec) <= 200 else
                   {"n": len(spec), "isMono_everywhere": all(a for a, _ in spec), "distinctComponents_everywhere": all(b for _, b in spec)}},
                  classes=classes)


def trim(d, keep=40):
    """Mapping lists of thousands of entries (threshold-boundary stream) are cut in the written detail."""
    out = {}
    for k, v in d.items():
        if isinstance(v, list) and len(v) > keep:
            out[k] = v[:keep]
            out[k + "_cut_from"] = len(v)
        else:
            out[k] = v
    return out


# ---------------------------------------------------------------- generators
def gen_tiny(ctx):
    labels = [("C", 0), ("C", 1), ("N", 0), ("N", 1)]
    hosts, pats = [], []
    nh, np_ = (3, 2) if ctx.quick else (4, 3)
    for n in range(1, nh + 1):
        lab = labels if n <= 3 else [("C", 0), ("C", 1), ("N", 1)]
        orders = (1, 2) if n <= 3 else (1,)
        hosts += matchgen.tiny_graphs(n, lab, orders)
    for n in range(0, np_ + 1):
        pats += matchgen.tiny_graphs(n, labels if n <= 2 else [("C", 0), ("C", 1), ("N", 0)], (1, 2))
    return hosts, pats


def gen_random(ctx, count):
    rnd = ctx.rnd
    out = []
    for i in range(count):
        r = rnd.random()
        if r < 0.35:  # connected host, planted / edited pattern
            host = matchgen.mol_like(rnd, rnd.randint(2, 9))
            pat, tag = matchgen.pattern_from(rnd, host, rnd.randint(1, 4), 1, edit_p=0.3)
            shape = "connected/" + tag.split(":")[0]
        elif r < 0.80:  # multi-component host and pattern
            nh = rnd.choice([1, 2, 2, 3, 3])
            sizes = [rnd.randint(1, 4) for _ in range(nh)]
            while sum(sizes) > 9:
                sizes[sizes.index(max(sizes))] -= 1
            small = rnd.random() < 0.5
            host = matchgen.multi_component(rnd, sizes, elems=["C", "C", "N"] if small else matchgen.ELEMS,
                                            hcount_absent_p=0.5 if small else 0.15, charge_p=0.0 if small else 0.1)
            npc = rnd.choice([1, 2, 2, 3])
            pat, tag = matchgen.pattern_from(rnd, host, rnd.randint(npc, 5), npc, edit_p=0.2,
                                             lower_h_p=0.7 if small else 0.4)
            shape = f"multi/{tag.split(':')[0]}"
        elif r < 0.90:  # symmetric families: many matches
            kind = rnd.choice(["cycle", "star", "path", "kab", "rep"])
            host = matchgen.symmetric_family(rnd, kind, rnd.randint(3, 7))
            pk = rnd.choice(["path", "rep", "star"])
            pat = matchgen.symmetric_family(rnd, pk, rnd.randint(2, 4), base=100)
            shape = "symmetric"
        else:  # unrelated random pair (mostly unplanted), pattern may be larger / empty
            host = matchgen.multi_component(rnd, [rnd.randint(1, 3) for _ in range(rnd.randint(1, 3))], elems=["C", "N"])
            pat = matchgen.multi_component(rnd, [rnd.randint(0, 2) for _ in range(rnd.randint(0, 3))], elems=["C", "N"], base=100)
            shape = "unrelated"
        out.append((host, pat, rnd.choice(NODE_KEYS), rnd.choice(EDGE_KEYS), shape))
    return out


def gen_selection_history(ctx, count):
    """Attribute-selection histories: the same (host, pattern) is searched several times in a row with
    different node/edge attribute selections — selections that are permutations of each other, that
    share their concatenation (an attribute such as `in_ring` exists on atoms AND on bonds in SynKit's
    own graphs), or that are sub-selections.  No answer may depend on the selections used earlier."""
    rnd = ctx.rnd
    out = []
    sels = [(("element",), ("in_ring",)), (("element", "in_ring"), ()), (("in_ring", "element"), ()),
            (("in_ring",), ("order",)), (("element",), ("order", "in_ring")), (("element", "charge"), ("order",)),
            (("charge", "element"), ("order",)), ((), ("in_ring",)), (("in_ring",), ())]
    for _ in range(count):
        host = matchgen.mol_like(rnd, rnd.randint(3, 7))
        for n in host.nodes:
            host.nodes[n]["in_ring"] = rnd.random() < 0.5
        for u, v in host.edges:
            host[u][v]["in_ring"] = rnd.random() < 0.5
        pat, tag = matchgen.pattern_from(rnd, host, rnd.randint(1, 3), 1, edit_p=0.2)
        for n in pat.nodes:
            if rnd.random() < 0.3:
                pat.nodes[n]["in_ring"] = rnd.random() < 0.5
        seq = rnd.sample(sels, rnd.randint(3, 5))
        for nk, ek in seq:
            out.append((host, pat, nk, ek, "selection-history"))
    return out


def call_form_cfgs(rnd, total, k=3):
    """Configurations handed over in the other documented ways (signature of find_subgraph_mappings: `strategy:
    Union[str, Strategy] = Strategy.COMPONENT`, `max_results=None`, `strict_cc_count=True`, `threshold=None`,
    `pre_filter=False`; `Strategy.from_string` lower-cases strings; SynReactor passes `embed_threshold: float`)."""
    out = []
    for _ in range(k):
        strat = rnd.choice(["all", "comp", "comp", "bt"])
        forms = ["enum", "enum", "upper", "title", "lower"] + (["omit", "omit", "omit"] if strat == "comp" else [])
        call = {"strategy": rnd.choice(forms), "omit": [], "float": [],
                "positional": rnd.random() < 0.5, "instance": rnd.random() < 0.3}
        cfg = {"strategy": strat, "max_results": None, "strict": True, "threshold": None, "pre_filter": False}
        # every argument: left out (documented default) or given; limits possibly as integral floats
        if rnd.random() < 0.5:
            call["omit"].append("strict")
        else:
            cfg["strict"] = rnd.random() < 0.5
        if rnd.random() < 0.5:
            call["omit"].append("max_results")
        else:
            cfg["max_results"] = rnd.choice([None, 0, 1, 2, 5, max(1, total - 1), total + 1])
            if rnd.random() < 0.5:
                call["float"].append("max_results")
        if rnd.random() < 0.6:
            call["omit"].append("threshold")
        else:
            cfg["threshold"] = rnd.choice([None, 0, 1, 2, max(0, total - 1), total, total + 1])
            if rnd.random() < 0.6:
                call["float"].append("threshold")
        if rnd.random() < 0.7:
            call["omit"].append("pre_filter")
        else:
            cfg["pre_filter"] = rnd.random() < 0.5
        cfg["call"] = call
        out.append(cfg)
    return out


def drop_optional_attributes(rnd, g):
    """Optional attributes missing on some atoms / bonds (`d.get(k)` is then None on that side)."""
    g = g.copy()
    for v in g.nodes:
        if rnd.random() < 0.15:
            g.nodes[v].pop("charge", None)
        if rnd.random() < 0.05:
            g.nodes[v].pop("element", None)
    for u, v in g.edges:
        if rnd.random() < 0.2:
            g[u][v].pop("order", None)
    return g


def gen_call_forms(ctx, count):
    """Random pairs as in the `random` stream; on a third of them optional attributes are missing on some atoms /
    bonds of either graph, and `hcount` may be among the selected (equality) attributes."""
    rnd = ctx.rnd
    out = []
    for h, p, nk, ek, shape in gen_random(ctx, count):
        if rnd.random() < 0.35:
            h, p = drop_optional_attributes(rnd, h), drop_optional_attributes(rnd, p)
            shape = "attrs-missing/" + shape.split("/")[0]
        if rnd.random() < 0.15:
            nk = ["element", "hcount"]
        out.append((h, p, nk, ek, shape))
    return out


# totals next to DEFAULT_THRESHOLD = 5000 as products of group sizes: the host holds, per group, `f` isolated atoms of
# one element (pattern: one such atom; f images) or f/2 disjoint bonds between two atoms of one element (pattern: one
# such bond; f images); groups use different elements, so the number of monomorphisms is the product
BOUNDARY_TOTALS = {4992: [(6, 8, 8, 13), (4, 6, 8, 26)], 4998: [(6, 7, 7, 17), (2, 3, 7, 7, 17)],
                   5000: [(5, 5, 5, 5, 8), (4, 5, 5, 5, 10), (2, 4, 5, 5, 5, 5)],
                   5005: [(5, 7, 11, 13)], 5016: [(3, 8, 11, 19), (2, 4, 3, 11, 19)], 5040: [(7, 8, 9, 10), (2, 4, 7, 9, 10)]}
BOUNDARY_ELEMS = ["C", "N", "O", "S", "P", "F", "Cl", "Br"]


def boundary_pair(rnd, total):
    factors = list(rnd.choice(BOUNDARY_TOTALS[total]))
    rnd.shuffle(factors)
    elems = rnd.sample(BOUNDARY_ELEMS, len(factors))
    hparts, pparts = [], []
    hid, pid = 0, 200
    for f, el in zip(factors, elems):
        bond = f % 2 == 0 and rnd.random() < 0.5
        order = float(rnd.choice([1, 2]))
        hg, pg = nx.Graph(), nx.Graph()
        for _ in range(f // 2 if bond else f):
            hg.add_node(hid, element=el, charge=0, hcount=rnd.choice([1, 2]))
            if bond:
                hg.add_node(hid + 1, element=el, charge=0, hcount=rnd.choice([1, 2]))
                hg.add_edge(hid, hid + 1, order=order)
            hid += 2 if bond else 1
        pa = {"element": el, "charge": 0}
        if rnd.random() < 0.5:
            pa["hcount"] = rnd.choice([0, 1])
        pg.add_node(pid, **pa)
        if bond:
            pg.add_node(pid + 1, **pa)
            pg.add_edge(pid, pid + 1, order=order)
        pid += 2 if bond else 1
        hparts.append(hg)
        pparts.append(pg)
    assert_total = 1
    for f in factors:
        assert_total *= f
    assert assert_total == total
    return matchgen.union(rnd, hparts), matchgen.union(rnd, pparts)


def gen_threshold_boundary(ctx, count):
    """Hosts/patterns whose number of monomorphisms lies just below, at, and just above the documented default cap
    (`DEFAULT_THRESHOLD` = 5000), searched with `threshold` left at None / left out."""
    rnd = ctx.rnd
    totals = [5000, rnd.choice([5005, 5016, 5040]), rnd.choice([4992, 4998])]
    while len(totals) < count:
        totals.append(rnd.choice(sorted(BOUNDARY_TOTALS)))
    cases = []
    for total in totals[:count]:
        h, p = boundary_pair(rnd, total)
        nk, ek = rnd.choice([["element"], ["element", "charge"]]), rnd.choice([["order"], []])
        cfgs = []
        for strat, strict in rnd.sample([("all", True), ("comp", False), ("bt", False), ("bt", True)], 3):
            cfg = {"strategy": strat, "max_results": None, "strict": strict, "threshold": None, "pre_filter": False}
            r = rnd.random()
            if r < 0.4:  # threshold (and whatever else has the wanted default) left out
                omit = ["threshold", "max_results", "pre_filter"] + (["strict"] if strict else [])
                cfg["call"] = {"strategy": rnd.choice(["enum", "lower"]), "omit": omit, "float": [],
                               "positional": rnd.random() < 0.5, "instance": False}
            elif r < 0.55:  # the cap given explicitly
                cfg["threshold"] = 5000
            elif r < 0.7:  # a limit close to the cap, default threshold
                cfg["max_results"] = rnd.choice([4999, 5000, 5001])
            cfgs.append(cfg)
        cases.append((h, p, nk, ek, cfgs, f"boundary/{'below' if total < 5000 else 'at' if total == 5000 else 'above'}"))
    return cases


# ---------------------------------------------------------------- look-alike labels
# Families of attribute values that are pairwise DIFFERENT under Python `==` (and are encoded to different Lean `Val`s) but
# coincide under some cheap summary an implementation might compare instead of the values themselves:
#   hash()        hash(-1) == hash(-2); hash('') == hash(0) == hash(()) is false but hash('') == 0 == hash(0);
#                 hash(2**61 - 1) == hash(0), hash(2**61) == hash(1) (CPython reduces ints modulo 2**61 - 1); tuples inherit it
#   len() / [0]   equally long strings / tuples, common first element or first letter ('C' / 'Cl' / 'Co')
#   str() / repr  '1' next to 1, 'None' next to None, '-1' next to -1
#   round / int   0 / 0.5 / 1, 1.5 / 2 / 2.5
#   truthiness    0, '', (), None / attribute missing  (`d.get(k) or default`)
#   case / strip  'C' / 'c', 'Cl' / 'CL', 'C' / 'C '
#   sorted / set  (1, 2) / (2, 1), ('C',) / ('C', 'C')
# bool is never mixed with numbers (True == 1 in Python, kept apart in the model).
GENERIC_FAMILIES = [
    [-1, -2], [-1, -2, 0], [-1, -2, 1, 2], ["", 0], ["", 0, None], [0, None], [(), None], [(), ""], [(), 0],
    ["1", 1], ["-1", -1, -2], ["None", None], ["0", 0, ""], [(-1,), (-2,)], [(0, -1), (0, -2)], [(1, 2), (2, 1)],
    [(1, 2), (1, 3)], [(1,), (1, 1)], [("C", "H"), ("H", "C")], [0, 0.5, 1], [1.5, 2, 2.5], [-1, -1.5, -2],
    [2 ** 61 - 1, 0], [2 ** 61, 1], [-(2 ** 61), -1, -2], ["a", "b"], ["ab", "ba"], ["a", "A"], ["a", "a "], [10, 1],
    [12, 21], [255, 256, 257], [1, -1],
]
ELEMENT_FAMILIES = [["C", "Cl"], ["C", "Co", "Cs"], ["N", "Na", "Ne"], ["H", "Hg", "He"], ["C", "c"], ["Cl", "CL"],
                    ["C", "C "], ["O", "Os"], ["N", "n", "Ni"], ["C", "N"], ["", "C"]]
ORDER_FAMILIES = [[1, 1.5], [1.5, 2, 2.5], ["-", "="], ["SINGLE", "DOUBLE"], ["single", "SINGLE"], [1, "1"], [1, 2, None],
                  [(1, 2), (2, 1)], [(1, 2), (1, 1)], [(1.5, 1), (1, 1.5), (1.5, 1.5)], [0, None], [1, 2, 3]]
NODE_EXTRA_KEYS = ["charge", "charge", "atom_map", "isotope", "label", "neighbors", "typesGH"]
EDGE_EXTRA_KEYS = ["standard_order", "standard_order", "label", "weight", "id", "name"]
UNSELECTED_NODE = ["label", "id", "name", "weight", "aromatic"]
UNSELECTED_EDGE = ["weight", "label", "id", "name", "capacity", "conjugated"]


def written(rnd, x, seq=tuple, p=0.35, np_ok=True):
    """The value x, possibly written differently: int / float / numpy scalar (all EQUAL under `==`, one `Val.num`);
    sequences as `seq` throughout one case (tuple and list are NOT equal in Python, so they are never mixed).
    `np_ok=False` where the attribute also takes sequence values somewhere: `numpy scalar == sequence` broadcasts
    (it is an array, not a truth value), which is numpy's business and not a label comparison C06 speaks about."""
    if isinstance(x, (tuple, list)):
        return seq(written(rnd, y, seq, p, False) for y in x)
    if isinstance(x, bool) or not isinstance(x, (int, float)) or abs(x) > 1000:
        return x
    if rnd.random() >= p:
        return x
    import numpy as np
    if float(x) == int(x):
        return rnd.choice([int(x), float(x)] + ([np.int64(int(x)), np.float64(x), np.int32(int(x))] if np_ok else []))
    return rnd.choice([float(x)] + ([np.float64(x)] if np_ok else []))


def plain(x):
    """numpy scalars back to Python numbers (recursively; the sequence type is kept)."""
    if isinstance(x, (tuple, list)):
        return type(x)(plain(y) for y in x)
    return x.item() if hasattr(x, "item") and not isinstance(x, (int, float, str)) else x


def has_seq(fam):
    return any(isinstance(x, (tuple, list)) for x in fam)


def put(rnd, d, key, x, seq=tuple, np_ok=True):
    """d[key] = x; None is written as an explicit None or by leaving the attribute out (`d.get(key)` is None either way)."""
    if x is None and rnd.random() < 0.5:
        d.pop(key, None)
    else:
        d[key] = written(rnd, x, seq, np_ok=np_ok)


def collision_pairs():
    """Deterministic: every ordered pair (a, b) of every family once on atoms and once on bonds.  Atoms: host a-b bonded,
    pattern one atom a (exactly one map).  Bonds: host path with bond values a, b; pattern one bond a (two maps)."""
    out = []
    fams = [("label", f) for f in GENERIC_FAMILIES] + [("charge", f) for f in GENERIC_FAMILIES[:3]] + \
           [("element", f) for f in ELEMENT_FAMILIES]
    for key, fam in fams:
        for ia, a in enumerate(fam):
            for ib, b in enumerate(fam):
                if ia == ib:
                    continue
                h, p = nx.Graph(), nx.Graph()
                for i, x in enumerate((a, b, b)):
                    d = {"element": "C", "charge": 0, "hcount": 1}
                    d[key] = x
                    h.add_node(i, **d)
                h.add_edge(0, 1, order=1.0)
                h.add_edge(1, 2, order=1.0)
                d = {"element": "C", "charge": 0, "hcount": 0}
                d[key] = a
                p.add_node(10, **d)
                nk = ["element", "charge"] + ([key] if key == "label" else [])
                out.append((h, p, nk, ["order"], base_cfgs(), "pair/atom:" + key))
    for key, fam in [("label", f) for f in GENERIC_FAMILIES] + [("standard_order", f) for f in GENERIC_FAMILIES[:3]] + \
                    [("order", f) for f in ORDER_FAMILIES]:
        for ia, a in enumerate(fam):
            for ib, b in enumerate(fam):
                if ia == ib:
                    continue
                h, p = nx.Graph(), nx.Graph()
                for i in range(3):
                    h.add_node(i, element="C", charge=0, hcount=1)
                for i in (10, 11):
                    p.add_node(i, element="C", charge=0)
                for (u, v), x in (((0, 1), a), ((1, 2), b)):
                    d = {"order": 1.0}
                    d[key] = x
                    h.add_edge(u, v, **d)
                d = {"order": 1.0}
                d[key] = a
                p.add_edge(10, 11, **d)
                ek = ["order"] + ([key] if key != "order" else [])
                out.append((h, p, ["element"], ek, base_cfgs(), "pair/bond:" + key))
    return out


def gen_colliding_labels(ctx, count):
    """Random hosts (1-3 components, 3-8 atoms, few elements) on which 1-3 selected attributes (of atoms and/or bonds)
    take their values, atom by atom / bond by bond, from one look-alike family; patterns planted in them, half of them
    with one value flipped to a sibling of the family afterwards (often leaving no match, so that `bt` falls back).
    Numbers are written as int / float / numpy scalars at random, sequences as tuples or (whole case) as lists,
    unselected attributes (`weight`, `label`, `id`, ...) differ freely; a third of the pairs are searched a second time
    with the look-alike attribute NOT selected (then it must not matter)."""
    rnd = ctx.rnd
    out = []
    while len(out) < count:
        seq = list if rnd.random() < 0.25 else tuple
        sizes = [rnd.randint(1, 4) for _ in range(rnd.choice([1, 1, 2, 2, 3]))]
        while sum(sizes) > 8:
            sizes[sizes.index(max(sizes))] -= 1
        if sum(sizes) < 3:
            sizes[0] += 2
        host = matchgen.multi_component(rnd, sizes, elems=rnd.choice([["C"], ["C", "C", "N"], ["C", "N", "O"]]),
                                        charge_p=0.0, hcount_absent_p=0.3)
        placed = []
        kinds = rnd.sample(["node", "node", "edge", "element", "order"], rnd.choice([1, 1, 2, 2, 3]))
        for kind in kinds:
            if kind == "node":
                key, fam = rnd.choice(NODE_EXTRA_KEYS), rnd.choice(GENERIC_FAMILIES)
            elif kind == "edge":
                key, fam = rnd.choice(EDGE_EXTRA_KEYS), rnd.choice(GENERIC_FAMILIES)
            elif kind == "element":
                key, fam = "element", rnd.choice(ELEMENT_FAMILIES)
            else:
                key, fam = "order", rnd.choice(ORDER_FAMILIES)
            on_nodes = kind in ("node", "element")
            if (not on_nodes and host.number_of_edges() == 0) or any(o == on_nodes and k == key for o, k, _ in placed):
                continue
            placed.append((on_nodes, key, fam))
            for d in ([d for _, d in host.nodes(data=True)] if on_nodes else [d for _, _, d in host.edges(data=True)]):
                put(rnd, d, key, rnd.choice(fam), seq, not has_seq(fam))
        if not placed:
            continue
        npc = rnd.choice([1, 1, 2])
        pat, _ = matchgen.pattern_from(rnd, host, rnd.randint(npc, 4), npc, lower_h_p=0.6)
        shape = "lookalike/planted"
        if rnd.random() < 0.5:
            on_nodes, key, fam = rnd.choice(placed)
            ds = [d for _, d in pat.nodes(data=True)] if on_nodes else [d for _, _, d in pat.edges(data=True)]
            if ds:
                d = rnd.choice(ds)
                others = [x for x in fam if graphio.val(x) != graphio.val(d.get(key))]
                put(rnd, d, key, rnd.choice(others), seq, not has_seq(fam))
                shape = "lookalike/flipped"
        # the pattern's own way of writing numbers (the planted copy took over the host's)
        no_np = {(on, k) for on, k, fam in placed if has_seq(fam)}
        for on, ds in ((True, [d for _, d in pat.nodes(data=True)]), (False, [d for _, _, d in pat.edges(data=True)])):
            for d in ds:
                for k in list(d):
                    if k != "hcount" and rnd.random() < 0.3:
                        d[k] = written(rnd, plain(d[k]), seq, p=0.8, np_ok=(on, k) not in no_np)
        # attributes nobody selects
        sel_n = {k for on, k, _ in placed if on}
        sel_e = {k for on, k, _ in placed if not on}
        for g in (host, pat):
            for k in rnd.sample(UNSELECTED_NODE, rnd.randint(0, 2)):
                if k not in sel_n:
                    for _, d in g.nodes(data=True):
                        if rnd.random() < 0.7:
                            d[k] = rnd.choice([0, 1, 2.5, "x", "", True, None, (1, 2) if seq is tuple else [1, 2]])
            for k in rnd.sample(UNSELECTED_EDGE, rnd.randint(0, 2)):
                if k not in sel_e:
                    for _, _, d in g.edges(data=True):
                        if rnd.random() < 0.7:
                            d[k] = rnd.choice([0, 1, 0.5, 3, "x", "", False, None])
        nk = [k for k in ("element", "charge") if k in sel_n or rnd.random() < 0.75] + sorted(sel_n - {"element", "charge"})
        ek = [k for k in ("order",) if k in sel_e or rnd.random() < 0.75] + sorted(sel_e - {"order"})
        rnd.shuffle(nk)
        rnd.shuffle(ek)
        out.append((host, pat, nk, ek, shape))
        if rnd.random() < 0.33:
            on_nodes, key, _ = rnd.choice(placed)
            nk2 = [k for k in nk if not (on_nodes and k == key)]
            ek2 = [k for k in ek if on_nodes or k != key]
            out.append((host, pat, nk2, ek2, "lookalike/unselected"))
    return out[:count]


def gen_component_order(ctx, count):
    """Hosts whose components are ordered differently by node count and by edge count (a small ring next
    to a larger tree), with a pattern component that only fits the larger one: any shortcut that ranks or
    skips host components by a size proxy shows here (seed C06-g)."""
    rnd = ctx.rnd
    out = []
    for _ in range(count):
        n1 = rnd.choice([3, 3, 4])
        n2 = rnd.randint(n1 + 1, 6)
        elems = rnd.choice([["C"], ["C", "C", "N"]])
        parts = [matchgen.mol_like(rnd, n1, ids=range(0, n1), elems=elems, ring_p=1.0, charge_p=0.0, hcount_absent_p=1.0),
                 matchgen.mol_like(rnd, n2, ids=range(n1, n1 + n2), elems=elems, ring_p=0.0, charge_p=0.0, hcount_absent_p=1.0)]
        if rnd.random() < 0.3:
            parts.append(matchgen.mol_like(rnd, 1, ids=range(n1 + n2, n1 + n2 + 1), elems=elems, charge_p=0.0, hcount_absent_p=1.0))
        rnd.shuffle(parts)
        host = matchgen.union(rnd, parts)
        big = [v for v in host.nodes if n1 <= v < n1 + n2]
        k = rnd.randint(n1 + 1, n2)
        core = matchgen.connected_subset(rnd, host, k, start_pool=big)
        extra = [v for v in host.nodes if v not in core and not (n1 <= v < n1 + n2)]
        keep = list(core) + ([rnd.choice(extra)] if extra and rnd.random() < 0.5 else [])
        sub = host.subgraph(keep)
        pat = matchgen.relabelled_copy(rnd, sub.copy(), base=100)
        if isinstance(pat, tuple):
            pat = pat[0]
        out.append((host, pat, rnd.choice(NODE_KEYS), rnd.choice(EDGE_KEYS), "component-order"))
    return out


def with_cfgs(ctx, pairs, limited=3, forms=0):
    """Two passes: the base (unlimited) configurations, plus limited ones drawn knowing the match count."""
    cases = []
    pre = ctx.lean().ok([request(h, p, nk, ek, []) for h, p, nk, ek, _ in pairs], shards=8)
    for (h, p, nk, ek, shape), info in zip(pairs, pre):
        if forms:
            cfgs = call_form_cfgs(ctx.rnd, info["total"], forms)
        else:
            cfgs = base_cfgs() + limited_cfgs(ctx.rnd, info["total"], limited)
        cases.append((h, p, nk, ek, cfgs, shape))
    return cases


def load_regress():
    out = []
    d = ROOT / "regress" / "C06"
    if d.exists():
        for f in sorted(d.glob("*.json")):
            out.append(json.loads(f.read_text()))
    return out


def case_of_json(c):
    return (graphio.to_nx(c["host"]), graphio.to_nx(c["pattern"]), c["node_keys"], c["edge_keys"], [c["cfg"]], "regress")


def run(ctx):
    ctx.trusted = [
        "Lean 4.33 kernel; axioms of the property theorems as listed in obligation_list",
        "hand-written model SynKitModel/SubgraphSearch.lean (+ Match.lean, GraphAlg.lean) tied to /repo by this correspondence run",
        "NetworkX VF2 enumerates exactly the maps accepted by the node/edge closures SynKit supplies (its contract); its enumeration "
        "ORDER is not modelled: limited runs are gated on subset + length only",
        "Driver/SubgraphSearch.lean JSON codec, harness/graphio.py encoding (numbers in half-units), sorting of mapping sets",
    ]
    ctx.assumptions = [
        "graphs are simple undirected NetworkX graphs with non-negative integer node ids; attribute values are None / str / int / float multiples "
        "of 1/2 (also as numpy scalars) / tuples or lists of these; equality of selected attributes is Python `==` on such values, "
        "encoded injectively up to `==` into Lean `Val` (bool never mixed with numbers, tuple never with list, numpy scalars never "
        "next to sequence values of the same attribute: `numpy scalar == sequence` is an array, not a truth value)",
        "'exactly those' for the component-aware strategy is read for strict_cc_count=False; the default True is the documented guard "
        "(host with more components than the pattern => []), modelled as such (DESIGN 5a)",
        "pre_filter=True is a documented blow-up guard (candidate product > threshold*1e4 => []), modelled as coded",
        "documented defaults are taken from the signature/docstring of find_subgraph_mappings: strategy=Strategy.COMPONENT, "
        "max_results=None, strict_cc_count=True, threshold=None (= DEFAULT_THRESHOLD = 5000, class docstring), pre_filter=False; "
        "Strategy.from_string accepts enum members and strings in any letter case (as coded: value.lower()); an integral float "
        "limit (2.0) means the integer limit (2)",
        "not driven, outside C06: strategy='partial' (NotImplementedError), unknown strategy strings (ValueError), "
        "Strategy.__str__/__repr__, SubgraphSearchEngine.__repr__/help; the two `return`s at the head of the nested "
        "`backtrack` are unreachable for max_results >= 0 and any threshold (results only grows at a leaf, and every "
        "caller re-tests the same stop condition right after the call returns)",
    ]
    ctx.gen_rule = ("regression corpus first; tiny-exhaustive: every host class (<=3 nodes quick / <=4 thorough; 2 elements x hcount{0,1} x "
                    "orders{1,2}) x every pattern class (<=2 / <=3 nodes), all three strategies x strict on/off, unlimited; random: molecule-like "
                    "hosts <=9 nodes (trees + ring closures), planted / edited / unrelated patterns, 1-3 components on both sides, symmetric "
                    "families; each with the 5 unlimited configurations plus limited ones (max_results in {None,0,1,2,5,total-1,total+1}, "
                    "threshold in {None,0,1,2,total-1,total,total+1}, pre_filter on/off). "
                    "call-forms (150 quick / 2000 thorough pairs of the random population, 35% with charge/element/order missing on "
                    "some atoms/bonds, 15% with hcount among the selected attributes; 3 configurations each): strategy as enum member / "
                    "UPPER / Title / lower / left out (comp), each of strict_cc_count, max_results, threshold, pre_filter left out "
                    "(p = .5/.5/.6/.7) or given, limits as int or integral float, host/pattern positional or keyword, class or instance "
                    "call. threshold-boundary (4 quick / 12 thorough): group-product hosts of 28-60 atoms (isolated atoms / disjoint "
                    "bonds, one element per group) with exactly 4992, 4998, 5000, 5005, 5016 or 5040 monomorphisms (always one at 5000, "
                    "one above, one below), 3 of {all, comp, bt, bt-strict} each, threshold at default (40% of them with the defaulted "
                    "arguments left out), explicit 5000, or max_results in {4999,5000,5001}. "
                    "collision-pairs (deterministic, both tiers): every ordered pair (a, b) of every look-alike family (values different "
                    "under == but alike under hash / len / str / first element / rounding / truthiness / letter case / sorting: -1,-2; '',0,None; "
                    "'1',1; (1,2),(2,1); 0,.5,1; 2**61-1,0; 'C','Cl','Co'; 'C','c'; orders 1.5,2,2.5; '-','='; ...) once on atoms (host a-b-b, "
                    "pattern atom a; key label / charge / element) and once on bonds (host path with bond values a, b, pattern bond a; key "
                    "label / standard_order / order), 5 unlimited configurations each. colliding-labels (300 quick / 3000 thorough): hosts of "
                    "1-3 components and 3-8 atoms over <=3 elements; 1-3 selected attributes (atoms: charge, atom_map, isotope, label, "
                    "neighbors, typesGH, element; bonds: standard_order, label, weight, id, name, order) take values atom by atom / bond by "
                    "bond from one family; planted patterns (1-2 components, hcount lowered), 50% with one value flipped to a sibling; numbers "
                    "written as int / float / numpy scalars at random (never numpy next to sequence values), sequences as tuples or, 25% of "
                    "cases, lists throughout; None as explicit None or attribute missing; 0-2 unselected attributes on atoms and bonds with "
                    "arbitrary values; selected keys permuted, element / charge / order selected with p=.75; a third searched again with the "
                    "look-alike attribute not selected; 5 unlimited + 1 limited configuration each.")
    ctx.nontrivial_rule = "(host, pattern, keys) distinct as JSON, host has >=2 nodes and at least one monomorphism exists"
    build_and_audit(ctx, ["SynKitProofs.Props.C06"], "SynKitProofs/Audit/C06.lean", THEOREMS)

    reg = load_regress()
    evaluate(ctx, [case_of_json(c) for c in reg], "regress")
    ctx.count("regress_cases", len(reg))

    hosts, pats = gen_tiny(ctx)
    pairs = []
    for h in hosts:
        for p in pats:
            p2 = nx.relabel_nodes(p, {v: v + 10 for v in p.nodes})
            pairs.append((h, p2, ["element"], ["order"], base_cfgs(), "tiny"))
    if ctx.quick and len(pairs) > 6000:
        pairs = ctx.rnd.sample(pairs, 6000)
    if not ctx.quick and len(pairs) > 40000:
        pairs = ctx.rnd.sample(pairs, 40000)
        ctx.extra["exhaustive"] = False
    else:
        ctx.extra["exhaustive"] = not ctx.quick or len(pairs) <= 6000
    ctx.extra["exhaustive_part"] = f"{len(hosts)} host classes x {len(pats)} pattern classes ({len(pairs)} pairs evaluated)"
    if not ctx.violations:
        evaluate(ctx, pairs, "tiny-exhaustive")

    nrand = 500 if ctx.quick else 6000
    if not ctx.violations:
        evaluate(ctx, with_cfgs(ctx, gen_random(ctx, nrand)), "random")
    if not ctx.violations:
        evaluate(ctx, with_cfgs(ctx, gen_component_order(ctx, 120 if ctx.quick else 1500), limited=1), "component-order")
    if not ctx.violations:
        evaluate(ctx, with_cfgs(ctx, gen_selection_history(ctx, 60 if ctx.quick else 600), limited=1), "selection-history")
    if not ctx.violations:
        evaluate(ctx, collision_pairs(), "collision-pairs")
    if not ctx.violations:
        evaluate(ctx, with_cfgs(ctx, gen_colliding_labels(ctx, 300 if ctx.quick else 3000), limited=1), "colliding-labels")
    if not ctx.violations:
        evaluate(ctx, with_cfgs(ctx, gen_call_forms(ctx, 150 if ctx.quick else 2000), forms=3), "call-forms")
    if not ctx.violations:
        evaluate(ctx, gen_threshold_boundary(ctx, 4 if ctx.quick else 12), "threshold-boundary", each=True)
    ctx.obligation("correspondence: find_subgraph_mappings impl == model (mapping sets; limited runs: subset + length; inputs unmodified)",
                   not ctx.violations)


def replay(ctx, case):
    c = case["case"] if "case" in case else case
    evaluate(ctx, [case_of_json(c)], "replay")

"""C05 — rule application depends on the chemistry only, not on how inputs are written.

Implementation-level gates (all on *sets* of `Standardize.fit`-normalised reactions returned by the
real `SynReactor`):

  G1  the result set is the same under k random atom-map permutations of the template x k
      random rewritings of the substrate SMILES (atom order, ring-closure digits, fragment order);
  G2  repeating the identical call returns the same set;
  G3  results(comp) is a subset of results(all);
  G4  results(bt) = results(comp) whenever that is non-empty, results(bt) = results(all) whenever
      the component-aware *search* found nothing, and results(bt) is a subset of results(all);
  G5  symmetry pruning is invisible: gluing EVERY raw match through the reactor's own internals
      gives the same set as the pruned run.

History stream (hidden state between calls).  The streams above hand every (template, substrate) call to a pool worker of its
own, so two writings of one template seldom meet inside one interpreter, and their renumberings permute ALL labels of the reaction
(for a centre template the label set of the centre then changes as well).  A *history* is a sequence of rule applications run in
ONE fresh interpreter: one template under renumberings that keep its label set (a permutation inside the centre / inside the
context / inside each element class / a single transposition / any permutation), under fresh labels, as written, and in another
atom order; rewritten substrate SMILES; other templates in between (the same template on another substrate, a template of the
same family, any other); exact repetitions of earlier steps; `automorphism` True and False; the template handed over as a fresh
ITS graph, a graph object shared with an earlier step, a SynRule object kept from an earlier step, or a string; strategies in
shuffled order.  Populations: generated rule-like templates with symmetry ('one of n equivalent ligands reacts' for several
centre atoms / ligands / reagents, and text-book classes with two equal ends or two equal components) on generated substrates
(every open valence of a context atom saturated by hydrogen or a randomly drawn substituent, so that positions the template's
symmetry exchanges usually differ chemically; sometimes a spectator molecule), the hand-written symmetric pairs, corpus
reactions.  The specification side does not look at the history: every step must reproduce the result of its chemistry's call as
written, applied alone in an interpreter of its own (G1/G2), its own un-pruned gluing (G5), and G3/G4 on the step itself.  A
failing history is cut down to the failing step alone, else one earlier step + the failing step, else the prefix.

Explicit re-match stream (`xh`).  A template whose pattern keeps an X-H bond (the hydrogen has no heavy neighbour on one side of the
rule: H+ or H2 released / consumed; or any explicit-H template applied with `implicit_temp=True, explicit_h=False`) is glued through
`SynReactor._get_explicit_map`: hydrogens of the matched atoms expanded, the pattern with its hydrogens matched again, every re-match
glued.  Corpus templates almost never get there, so the stream writes its own population (`xh_templates`: deprotonation of one of
two equal alpha positions / X-H ends, dehydrogenations, hydrogenations, H-X additions and eliminations, shifts; most with a left-hand
symmetry that the right-hand side breaks, and unbroken controls) on generated unsymmetrical substrates and a few hand-written ones, in
BOTH hydrogen modes, full ITS or centre, both directions, gates G1-G5 as they are, plus histories over the same chemistries.

Sets are compared as sets of strings; when they differ, they are compared once more with bond orders
forgotten (`reactor_inv_common.kekule_blind`: same skeleton, hydrogens, charges).  Equality there means the
two runs differ only in which Kekule form RDKit wrote for a ring it was handed as aromatic but does not
re-perceive as aromatic (a choice that depends on the atom order inside RDKit, e.g. the para-bridged arene of
regress/C05/n2_*); that is counted (`comparisons_equal_only_up_to_kekule_form`) and not gated.

What the implementation's pruning kept is judged by the Lean specification `pruneSpecB` (kept is a sub-list of
the raw matches and every raw match is kept or related to a kept one by automorphisms of the rule; theorem
`pruneSpec_preserves_results`), not by equality with the model `pruneByAut`: how much is pruned and which
representative survives are incidental and only recorded.

Engine-level part (Lean, SynKitProofs/Props/C05.lean): match sets correspond bijectively under
injective relabelling of host or pattern, hence un-pruned results are invariant for any
equivariant glue step; comp/bt/all relations at the level of result sets; pruning by a group of
rule automorphisms loses no result.  A graph-level stream ties these theorems to the code: the
substrate *graph* and the template *graph* are relabelled by explicit random injections f, pi and
the raw match set of the implementation must be exactly {f . m . pi^-1}, and must equal the Lean
enumerator `allMonos` on the same graphs.

End-to-end stream (`e2e`).  `C05.statement_concrete` is a theorem about ONE composed term, `concrete max_group (compSearch strict thr)`
(lean/SynKitModel/ReactorConcrete.lean: pattern preparation, inversion, search, repaired pruning, glue).  Its pieces are tied to /repo by
their own streams (C03 glue per mapping, C06 search, the PruneSpec gate above); this stream ties the COMPOSITION: the real `SynReactor` in
implicit mode (`implicit_temp=True, explicit_h=False`, templates without explicit hydrogen) on small (template, substrate) pairs — corpus
pairs with <= 25 substrate atoms, the hand-written symmetric pairs, the generated symmetric rules — in the pair's own and in the opposite
direction, strategies all / comp / bt, against the driver command `reactor.results` run on the graphs the reactor really used (its substrate
graph `reactor.graph.raw`, the template ITS graph it was handed, the direction): (a) the raw match set recorded at `SubgraphSearchEngine`
== the model's `raw`, as sets; (b) the set of isomorphism classes of `its_list` == that of the model's `its`, on (typesGH without the
neighbour lists, order pairs), decided by exact equality of the normalised graphs first and by the driver's `match.iso` otherwise; how MANY
matches the pruning keeps is not compared — what the implementation kept is judged by `pruneSpecB` as in the graph stream.  A mismatch is a
correspondence break (no failing input) unless one of G1-G5 / PruneSpec fails on the same (template, substrate, direction).

Entry points, options, partial mode, wildcard templates (`forms`, `opts`, `partial`, `wild`; added from the anchor coverage of this check,
coverage/C05.json).  `forms`: the same chemistry handed to the reactor in every documented form (substrate as SMILES / `SynGraph` /
networkx graph with other node ids and insertion order, template as ITS graph / renumbered graph / `SynRule` in both directions / string,
`SynReactor(...)` / `SynReactor.from_smiles`, strategy as string / upper case / `Strategy` member, canonicaliser given, `automorphism=True`)
must return ONE result set (gate F1), also when the inputs are rewritten as well.  `opts`: `embed_threshold` / `embed_pre_filter` at values
around the number of embeddings and hosts too small for a pattern component: the recorded searches must equal the Lean model `c06.search`
under the same configuration, kept matches satisfy `pruneSpecB` (also for direct calls of `_prune_by_rule_automorphisms` with `max_group`
below / at the group size), G1 / G5 per option.  `partial`: `partial=True` on substrates that lack a component of the pattern: G1-G5 and
G5p (result set == gluing every match of a brute-force enumeration of the partial-match specification).  `wild`: templates with `[*:n]`
atoms through the ordinary gates G1-G5.
"""
import json
import time

from ..core import ROOT, build_and_audit
from .. import reactor_inv_common as C
from .. import reactor_common as RC   # graph encoding with every attribute (typesGH, order pairs)

THEOREMS = [
    "SynKit.ReactorInv.allMonos_relabel_host",
    "SynKit.ReactorInv.allMonos_relabel_pattern",
    "SynKit.ReactorInv.relabel_match_injective",
    "SynKit.ReactorInv.allMonos_relabel_length",
    "SynKit.ReactorInv.results_invariant_unpruned",
    "SynKit.ReactorInv.comp_subset_all",
    "SynKit.ReactorInv.bt_def",
    "SynKit.ReactorInv.bt_subset_all",
    "SynKit.ReactorInv.prune_sound_of_aut",
    "SynKit.ReactorInv.prune_preserves_results",
    "SynKit.ReactorInv.pruneSound_of_aut",
    "SynKit.ReactorInv.pruneSpecB_iff",
    "SynKit.ReactorInv.pruneSpec_preserves_results",
    "SynKit.ReactorInv.pruneByAut_spec",
    "SynKit.ReactorInv.C05.statement_partial",
    "SynKit.ReactorLink.glue_relabel",
    "SynKit.ReactorLink.glue_wf",
    "SynKit.ReactorLink.glue_iso_of_labels",
    "SynKit.ReactorLink.glue_aut_iso",
    "SynKit.SubgraphSearch.findComp_relabel",
    "SynKit.SubgraphSearch.findComp_searchEquivariant",
    "SynKit.ReactorInv.C05.glue_relabel_concrete",
    "SynKit.ReactorInv.C05.patternEquivariant_concrete",
    "SynKit.ReactorInv.C05.glueEquivariant_concrete",
    "SynKit.ReactorInv.C05.results_list_invariant_concrete",
    "SynKit.ReactorInv.C05.results_invariant_concrete",
    "SynKit.ReactorInv.C05.results_invariant_concrete_all",
    "SynKit.ReactorInv.prune_preserves_results_on",
    "SynKit.ReactorInv.C05.glueAutInvariant_concrete",
    "SynKit.ReactorInv.C05.prune_preserves_results_concrete",
    "SynKit.ReactorInv.C05.prune_preserves_implicitResults",
    "SynKit.ReactorInv.C05.statement_of_searchPrune_partial",
    "SynKit.ReactorInv.C05.statement_concrete_partial",
    "SynKit.ReactorInv.C05.statement_concrete_exhaustive",
    "SynKit.ReactorInv.compSearch_sub",
    "SynKit.ReactorInv.compSearch_equivariant",
    "SynKit.ReactorInv.C05.statement_concrete",
    "SynKit.ReactorInv.C05.statement_theReactor",
]

EXTRA = "c05_extra.txt"  # hand-written symmetric (template, substrate) pairs: name \t template \t substrate \t invert


# ----------------------------------------------------------------------------- population
def eligible(info):
    return info["ok"] and info["mode"] != "mixed"


def rc_key_of(rsmi):
    """Cheap chemistry key of the centre, from the input alone: multiset of (elements, order before, after)
    of the changed bonds.  Used only to draw foreign substrates that have a chance to match."""
    rs, ps = rsmi.split(">>")
    ra, rb, _, _ = C._side_table(rs)
    pa, pb, _, _ = C._side_table(ps)
    key = []
    for e in set(rb) | set(pb):
        if rb.get(e, 0) != pb.get(e, 0):
            els = sorted((ra[e[0]][0], ra[e[1]][0]))
            key.append((els[0], els[1], rb.get(e, 0), pb.get(e, 0)))
    return json.dumps(sorted(key))


def build_cases(ctx, corpus, infos, n_rxn, k, max_atoms):
    """Seeded population of (template, substrate) cases."""
    rnd = ctx.rnd
    pool = [(rid, rs) for rid, rs in corpus if eligible(infos[rid]) and infos[rid]["n_atoms"] <= max_atoms]
    by_key = {}
    sides = {}
    for rid, rs in pool:
        by_key.setdefault(rc_key_of(rs), []).append(rid)
        sides[rid] = [C.unmapped_side(x) for x in rs.split(">>")]
        if None in sides[rid]:
            sides[rid] = None
    pool = [(rid, rs) for rid, rs in pool if sides[rid]]
    chosen = pool if n_rxn >= len(pool) else rnd.sample(pool, n_rxn)
    cases = []
    rs_of = dict(pool)
    for rid, rs in chosen:
        info = infos[rid]
        for core in (True, False):
            for invert in (False, True):
                subs = [("own", rid)]
                if core:
                    same = [x for x in by_key[rc_key_of(rs)] if x != rid and sides.get(x)]
                    other = rnd.choice(same) if (same and rnd.random() < 0.6) else rnd.choice(pool)[0]
                    if other != rid:
                        subs.append(("foreign", other))
                for kind, sid in subs:
                    cases.append({
                        "name": f"{rid}/{'centre' if core else 'its'}/{'bw' if invert else 'fw'}/{kind}:{sid}",
                        "template": rs, "core": core, "invert": invert, "mode": info["mode"],
                        "substrate": sides[sid][1 if invert else 0],
                        "tseeds": [rnd.randrange(1, 2**30) for _ in range(k)],
                        "sseeds": [rnd.randrange(1, 2**30) for _ in range(k)],
                    })
    return cases


def extra_cases(ctx, k):
    f = C.CORPUS / EXTRA
    out = []
    if not f.exists():
        return out
    for line in f.read_text().splitlines():
        if not line.strip() or line.startswith("#"):
            continue
        name, tpl, sub, inv = line.split("\t")[:4]
        info = C.analyze_reaction(tpl)
        if not info["ok"] or info["mode"] == "mixed":
            continue
        out.append({"name": "extra:" + name, "template": tpl, "core": True, "invert": inv.strip() == "bw",
                    "mode": info["mode"], "substrate": sub,
                    "tseeds": [ctx.rnd.randrange(1, 2**30) for _ in range(k)],
                    "sseeds": [ctx.rnd.randrange(1, 2**30) for _ in range(k)]})
    return out


def symrule_cases(ctx, k, n):
    """Generated symmetric-skeleton rules in which exactly ONE attribute of the rule (charge / hydrogen count / bond order, left or
    right side) breaks the symmetry, and their unbroken controls, on substrates grown from the matched side (generator of
    harness/props/c11.py, `sym_rule_bases`): rules of a shape that does not occur in the corpora, where G5 (pruning invisible) and
    G1 (renumbering the template moves the breaker to another map number) depend on the rule comparison reading every attribute."""
    from . import c11 as C11     # imported here: c11 imports this module

    return [dict(b, tseeds=[ctx.rnd.randrange(1, 2**30) for _ in range(k)], sseeds=[ctx.rnd.randrange(1, 2**30) for _ in range(k)])
            for b in C11.sym_rule_bases(ctx, n, "symrule")]


def tasks_of(case, idx, timeout):
    """base variant (repeat 2, raw matches glued) + tseeds x sseeds variants."""
    common = {"core": case["core"], "invert": case["invert"], "mode": case["mode"],
              "strategies": list(C.STRATEGIES), "timeout": timeout}
    tasks = [dict(common, key=f"{idx}:base", substrate=case["substrate"], template=case["template"],
                  repeat=2, want_raw=True)]
    for i, ts in enumerate(case["tseeds"]):
        try:
            tpl = C.renumber_reaction(case["template"], ts)
        except C.RewriteFailed:
            continue  # the harness's own self-check of the rewriting failed: variant not used
        for j, ss in enumerate(case["sseeds"]):
            sub = C.rewrite_smiles(case["substrate"], ss)
            tasks.append(dict(common, key=f"{idx}:{i}:{j}", substrate=sub, template=tpl, repeat=1, want_raw=False))
    return tasks


# ----------------------------------------------------------------------------- gates
class _Cmp:
    """Set comparisons on standardised reactions.  A difference that disappears once bond orders are forgotten
    (same skeleton, same hydrogens, same charges: `reactor_inv_common.kekule_blind`) is a difference in the Kekule
    form RDKit picked while sanitising an output, which depends on the atom order inside RDKit; it is counted
    (`kekule_only`), not gated."""

    def __init__(self):
        self.kekule_only = 0

    @staticmethod
    def _blind(xs):
        return {C.kekule_blind(x) for x in xs}

    def equal(self, a, b):
        if set(a) == set(b):
            return True
        if self._blind(a) == self._blind(b):
            self.kekule_only += 1
            return True
        return False

    def subset(self, a, b):
        if set(a) <= set(b):
            return True
        if self._blind(a) <= self._blind(b):
            self.kekule_only += 1
            return True
        return False


def judge(case, tasks, results, cmp=None):
    """-> list of (what, detail) — every entry is a violation of C05 on this case."""
    cmp = cmp or _Cmp()
    bad = []
    ok = [(t, r) for t, r in zip(tasks, results) if r["status"] == "ok"]
    err = [(t, r) for t, r in zip(tasks, results) if r["status"].startswith("error")]
    if ok and err:
        # an exception is an outcome too: raising for one way of writing the inputs and answering for another
        # is a dependence on the representation (time-outs are never used here)
        t, r = err[0]
        bad.append(("G1 rule application raises for one writing of the inputs and answers for another",
                    {"raises": {"template": t["template"], "substrate": t["substrate"], "error": r["status"][6:], "message": r.get("error")},
                     "answers": {"template": ok[0][0]["template"], "substrate": ok[0][0]["substrate"]}}))
    if not ok:
        return bad
    ref_t, ref = ok[0]
    for strat in C.STRATEGIES:
        base = ref["runs"][strat][0]["results"]
        for t, r in ok[1:]:
            got = r["runs"][strat][0]["results"]
            if not cmp.equal(got, base):
                bad.append(("G1 result set depends on how template / substrate are written",
                            {"strategy": strat, "reference": {"template": ref_t["template"], "substrate": ref_t["substrate"], "n": len(base)},
                             "variant": {"template": t["template"], "substrate": t["substrate"], "n": len(got)},
                             "only_reference": sorted(set(base) - set(got))[:6], "only_variant": sorted(set(got) - set(base))[:6]}))
                break
    for t, r in ok:
        runs = r["runs"]
        for strat in C.STRATEGIES:
            rr = runs[strat]
            if len(rr) > 1 and rr[0]["results"] != rr[1]["results"]:
                bad.append(("G2 repeating the call changes the result set", {"strategy": strat, "template": t["template"], "substrate": t["substrate"]}))
            if "results_raw" in rr[0] and not cmp.equal(rr[0]["results_raw"], rr[0]["results"]):
                bad.append(("G5 symmetry pruning changes the set of distinct reactions",
                            {"strategy": strat, "template": t["template"], "substrate": t["substrate"],
                             "raw_matches": rr[0]["n_raw"], "kept_matches": rr[0]["n_map"],
                             "with_pruning": len(rr[0]["results"]), "every_raw_match": len(rr[0]["results_raw"]),
                             "lost": sorted(set(rr[0]["results_raw"]) - set(rr[0]["results"]))[:6],
                             "gained": sorted(set(rr[0]["results"]) - set(rr[0]["results_raw"]))[:6]}))
        a, c, b = (set(runs[s][0]["results"]) for s in ("all", "comp", "bt"))
        where = {"template": t["template"], "substrate": t["substrate"]}
        if not cmp.subset(c, a):
            bad.append(("G3 component-aware results are not a subset of the exhaustive results", dict(where, extra=sorted(c - a)[:6])))
        if c and not cmp.equal(b, c):
            bad.append(("G4 fallback strategy differs from the non-empty component-aware result", dict(where, comp=len(c), bt=len(b))))
        if runs["comp"][0]["n_raw"] == 0 and not cmp.equal(b, a):
            bad.append(("G4 fallback strategy differs from the exhaustive result although the component-aware search found nothing",
                        dict(where, all=len(a), bt=len(b))))
        if not cmp.subset(b, a):
            bad.append(("G4 fallback results are not a subset of the exhaustive results", dict(where, extra=sorted(b - a)[:6])))
    return bad


def case_public(case):
    return {k: case[k] for k in ("template", "core", "invert", "mode", "substrate", "tseeds", "sseeds")}


def run_cases(ctx, pool, cases, timeout, tag, shrink=True):
    alltasks, spans = [], []
    for idx, case in enumerate(cases):
        ts = tasks_of(case, f"{tag}{idx}", timeout)
        spans.append((len(alltasks), len(alltasks) + len(ts)))
        alltasks.extend(ts)
    results = pool.run(alltasks)
    for case, (a, b) in zip(cases, spans):
        ts, rs = alltasks[a:b], results[a:b]
        n_ok = sum(1 for r in rs if r["status"] == "ok")
        for r in rs:
            ctx.count("run_status:" + r["status"].split(":")[0])
            if r["status"].startswith("error"):
                ctx.count("impl_exception:" + r["status"][6:])
        if n_ok == 0:
            ctx.count("cases_skipped_all_variants_timed_out_or_failed")
            continue
        first = next(r for r in rs if r["status"] == "ok")
        n_all = len(first["runs"]["all"][0]["results"])
        n_raw = first["runs"]["all"][0]["n_raw"] or 0
        ctx.count("results_all:" + ("0" if n_all == 0 else "1" if n_all == 1 else "2-4" if n_all <= 4 else "5+"))
        ctx.count("raw_matches_all:" + ("0" if n_raw == 0 else "1" if n_raw == 1 else "2-9" if n_raw <= 9 else "10+"))
        if first["runs"]["all"][0]["n_map"] < n_raw:
            ctx.count("cases_where_pruning_removed_matches")
        ctx.count("template:" + ("centre" if case["core"] else "full_its"))
        ctx.count("direction:" + ("backward" if case["invert"] else "forward"))
        ctx.count("mode:" + case["mode"])
        ctx.count("variants_evaluated", n_ok)
        ctx.case(case_public(case), nontrivial=n_all >= 1,
                 sample={"stream": tag, "name": case.get("name"), "substrate": case["substrate"], "results_all": n_all, "raw_matches": n_raw})
        cmp = _Cmp()
        verdicts = judge(case, ts, rs, cmp)
        if cmp.kekule_only:
            ctx.count("comparisons_equal_only_up_to_kekule_form(not gated)", cmp.kekule_only)
            ctx.count("cases_with_kekule_form_only_difference")
        seen = set()
        for what, detail in verdicts:
            if what in seen:
                continue
            seen.add(what)
            small = shrink_case(pool, case, what, timeout) if shrink else case
            ctx.violation(what, case_public(small), dict(detail, name=case.get("name"), stream=tag))


def shrink_case(pool, case, what, timeout):
    """Fewer variants while the same gate still fails (the chemistry is kept: the failing input is the
    (template, substrate, renumbering) triple)."""
    def fails(c):
        ts = tasks_of(c, "s", timeout)
        rs = pool.run(ts)
        return any(w == what for w, _ in judge(c, ts, rs))
    best = case
    if what.startswith(("G2", "G3", "G4", "G5")):
        cand = dict(case, tseeds=[], sseeds=[])
        if fails(cand):
            return cand
    for ts in case["tseeds"]:
        for ss in case["sseeds"]:
            cand = dict(case, tseeds=[ts], sseeds=[ss])
            if fails(cand):
                return cand
    return best


def _shutdown(pool):
    """End of a pool's life on the normal path: the idle workers are sent the pool's sentinel and leave through their exit handlers
    (where coverage.py writes a worker's data: `tools_cover.py` would otherwise lose, by a race with SIGTERM, whatever the workers of a
    short-lived pool executed), then `close()` terminates whatever is left."""
    try:
        pool.pool.close()
        pool.pool.join()
    except Exception:  # noqa: BLE001 - shutting down only
        pass
    pool.close()


def load_regress():
    d = ROOT / "regress" / "C05"
    out = []
    if d.exists():
        for f in sorted(d.glob("*.json")):
            c = json.loads(f.read_text())
            c = c.get("case", c)
            c.setdefault("name", "regress:" + f.stem)
            out.append(c)
    return out


def run(ctx):
    ctx.trusted = [
        "Lean 4.33 kernel; axioms of the property theorems as listed in obligation_list",
        "RDKit: SMILES parsing/sanitisation, canonical SMILES (Standardize.fit) invariant under atom order, random SMILES writer",
        "NetworkX VF2 enumerates the maps satisfying SynKit's closures (C06's correspondence)",
        "the glue step is an abstract equivariant function in the Lean statements (hypothesis GlueEquivariant, discharged by C03's model); "
        "at implementation level it is the real SynReactor",
        "harness/reactor_inv_common.py (tables read from RDKit, rewriting, process pool, BaseException time-out)",
        "e2e stream: Driver/Reactor.lean `reactor.results` runs the composed term of SynKitModel/ReactorConcrete.lean (the object of "
        "C05.statement_concrete) on the graphs recorded from the real SynReactor (harness/reactor_common.enc_graph: every attribute the "
        "protocol can carry); iso-classes of ITS graphs by exact equality of normalised graphs, else by the driver's match.iso (Match.isoDecide); "
        "a VF2 count (<= 300 embeddings) only decides whether a case is small enough to be evaluated",
        "history stream: the template renumbering is self-checked (same molecules; same atoms, charges, hydrogen counts and bonds when read "
        "back through the renaming); a fork of the harness process (which never imports synkit) is the library's initial state",
        "opts stream: Driver/SubgraphSearch.lean `c06.search` (the C06 model of find_subgraph_mappings: strategy, strict_cc_count=True, threshold, "
        "pre_filter) on the host / pattern graphs recorded at the reactor's search call; `rinv.prune_spec` on the recorded matches",
        "partial stream: the harness's own back-tracking enumeration of the partial-match specification (`_bf_partial_spec`: unions of "
        "label-preserving monomorphisms of a non-empty subset of the pattern's components with disjoint images; labels element, charge, "
        "hcount >=, order; neither VF2 nor SynKit code)",
    ]
    ctx.assumptions = [
        "streams other than forms / opts / partial / wild: substrates are SMILES strings; templates are ITS graphs built by rsmi_to_its from mapped "
        "reactions (centre or full); no wildcards, partial=False, every option at its default",
        "forms stream: 'the same input in another form' = a SynGraph / networkx graph built by smiles_to_graph as SynReactor._wrap_input does "
        "(optionally with other node ids and insertion order), a SynRule built as SynReactor._wrap_template does for the hydrogen mode, the "
        "template string itself (full ITS only), Strategy members / upper-case codes; calls the documentation says must fail (explicit_h with "
        "implicit_temp, unsupported substrate type, strategy 'partial' / unknown) are only required to fail for every writing alike",
        "opts stream: under embed_threshold the strategy relations G3 / G4 are not gated (the documented cap empties a search that exceeds it, so "
        "the exhaustive search can be empty where the component-aware one is not); invariance (G1), pruning (G5, PruneSpec) and the model "
        "comparison of the raw matches are; max_results is never set by SynReactor and is not varied (C06 does)",
        "partial stream: PartialMatcher's answer is not gated against the specification match for match (counted); the RESULT SET must equal "
        "the one obtained by gluing every specification match (G5p); specifications beyond 3000 matches are not evaluated (counted)",
        "SynReactor._prune_by_rule_automorphisms' branch 'more than max_group automorphisms: nothing pruned' is driven by direct calls with a small "
        "max_group: through the public API it needs a rule with more than 5040 automorphisms, whose embeddings then exceed the default cap of 5000",
        "reactor mode from the template reaction: centre hydrogens explicit -> defaults, none explicit -> implicit_temp=True, explicit_h=False (DESIGN 5a); mixed skipped",
        "embed_threshold left at its default (5000 embeddings): a search that exceeds it returns nothing for every numbering alike",
        "e2e stream: implicit path only (pattern without explicit hydrogen, no wildcard); (template, substrate) pairs with more than 300 "
        "embeddings of the pattern are skipped and counted (the model's exhaustive strategy has no threshold)",
        "xh stream: explicit-H rule-like templates applied in BOTH reactor modes (defaults, and implicit_temp=True / explicit_h=False, which is "
        "the only way an X-H bond whose hydrogen has heavy neighbours on both sides stays in the pattern); only the invariances of C05 are "
        "gated there, nothing about which reactions are right (that is C03's reading of the modes, DESIGN 5a)",
    ]
    quick = ctx.quick
    k = 2
    timeout = 8.0 if quick else 60.0
    ctx.gen_rule = (
        "regress/C05 first; hand-written symmetric pairs (corpus/c05_extra.txt); "
        f"{60 if quick else 400} generated symmetric-skeleton rules whose symmetry one rule attribute (charge / hcount / bond order, either side) "
        "breaks, with unbroken controls, on generated substrates (c11.sym_rule_bases); then a seeded sample of corpus reactions "
        f"({'30 with <=40 atoms' if quick else 'all of them'}; ecoli/USPTO/hydro vendored in corpus/c04_reactions.txt, parsable, fully mapped, hydrogens not mixed) "
        "x template in {centre, full ITS} x {forward, backward} x substrate in {own side; for centre templates also a foreign corpus side, "
        "60% drawn among reactions with the same changed-bond multiset}; each case = base call (twice, plus every raw match glued) "
        f"+ {k}x{k} (template renumbering x substrate rewriting) variants, strategies all/comp/bt; per-run time-out {timeout}s (skipped, counted).  "
        f"History stream: {90 if quick else 600} histories of 5-12 calls, each history in a fresh interpreter (main chemistry by strata: 6/14 generated "
        "'one of n equivalent ligands reacts' templates, 4/14 other rule-like symmetric templates, 2/14 hand-written pairs, 2/14 corpus; "
        "a quarter of the histories a 'ladder' of one kind of renumbering), reference call per chemistry in an interpreter of its own.  "
        f"End-to-end stream: regress e2e cases, every hand-written pair, {40 if quick else 400} generated symmetric rules, a seeded sample of "
        f"{40 if quick else 1500} corpus cases, each restricted to implicit-mode templates without explicit hydrogen and substrates of <= 25 atoms, "
        "x {own direction, opposite direction} x {all, comp, bt}: real SynReactor vs driver command reactor.results on the recorded graphs.  "
        f"Explicit re-match stream (xh): {len(xh_templates())} rule-like templates with explicit hydrogen (H+ released / consumed, H2 released / consumed, "
        "H-X additions / eliminations / shifts; most with a left-hand symmetry the right-hand side breaks, some unbroken controls) x {forward, backward} x "
        f"{{hand-written substrates, {1 if quick else 4} generated substrate(s)}} x {{defaults, implicit_temp=True/explicit_h=False}}, full ITS (3/4) or centre, "
        f"each case as above (base call twice + every raw match glued + {str(k) if quick else f'{k}x{k}'} variants), the cases whose pattern keeps no X-H (controls) "
        f"thinned to a third; {6 if quick else 80} histories over the same chemistries.  "
        f"Wildcard templates (wild): {len(WILD_TEMPLATES)} hand-written templates with [*:n] atoms x {{forward, backward}} x 1-3 hand-written substrates (every "
        f"fourth as centre template = control) + {10 if quick else 120} rule-like chemistries of the history population with one or two context atoms "
        f"replaced by *, each case as above.  Entry points (forms): {24 if quick else 240} chemistries drawn in turn from the families star / rule / extra / "
        "corpus / wild / xh (hand-written explicit-H templates), substrates <= 30 atoms, each: reference call + 13 other forms (12 for centre templates) "
        "+ 2 calls with rewritten inputs in a random form, explicit-H templates also with explicit_h=False (as written and rewritten), every third "
        "case also 4 failing calls x 2 writings; all / comp / bt.  Options (opts): "
        f"{24 if quick else 240} chemistries (same strata, <= 22 atoms) + {8 if quick else 80} hosts with the substrate's component count but one / every "
        f"component a single atom; per case defaults + embed_pre_filter + {'3 of' if quick else 'all of'} {{threshold n, n-1, nc-1, 0, n+1, n with "
        "pre_filter} (n / nc = embeddings of the exhaustive / component-aware search), each as written and rewritten; every fourth case also the "
        "empty template (networkx graph without nodes) on the substrate as written and rewritten; direct pruning calls with "
        f"max_group in {{0, 1, |G|-1, |G|}}.  Partial mode (partial): {16 if quick else 160} chemistries with a multi-component pattern and substrate "
        "(<= 12 atoms), two of three with one substrate fragment left out, reference + 2 rewritten writings, partial=True.")
    ctx.nontrivial_rule = "distinct (template, direction, substrate, seeds) with >=1 reaction produced under strategy all"
    build_and_audit(ctx, ["SynKitProofs.Props.C05"], "SynKitProofs/Audit/C05.lean", THEOREMS)

    corpus = C.load_corpus()
    infos = {rid: C.analyze_reaction(rs) for rid, rs in corpus}
    for rid, _ in corpus:
        i = infos[rid]
        ctx.count("corpus:" + ("ill-formed" if not i["ok"] else "mixed-H (skipped)" if i["mode"] == "mixed" else "eligible"))
    import time
    pool = C.Pool()
    stamps = {"build+audit": round(time.time() - ctx.t0, 1)}
    try:
        t = time.time()
        reg = load_regress()
        run_cases(ctx, pool, [c for c in reg if c.get("stream") not in ("history", "e2e", "forms", "opts", "partial")], max(timeout, 30.0),
                  "regress", shrink=False)
        for s in ("forms", "opts", "partial"):
            creg = [c for c in reg if c.get("stream") == s]
            if creg:
                cov_stream(ctx, pool, creg, max(timeout, 30.0), s)
        ctx.count("regress_cases", len(reg))
        extra = extra_cases(ctx, k)
        run_cases(ctx, pool, extra, timeout, "extra")
        stamps["regress+extra"] = round(time.time() - t, 1); t = time.time()
        cases = build_cases(ctx, corpus, infos, 30 if quick else 10**6, k, 40 if quick else 10**6)
        run_cases(ctx, pool, cases, timeout, "corpus")
        stamps["corpus"] = round(time.time() - t, 1); t = time.time()
        graph_stream(ctx, pool, corpus, infos, 40 if quick else 200)
        stamps["graph"] = round(time.time() - t, 1); t = time.time()
        _shutdown(pool)
    finally:
        pool.close()
    fpool = FreshPool()
    try:
        hreg = [history_from_case(c) for c in reg if c.get("stream") == "history"]
        run_histories(ctx, fpool, hreg, max(timeout, 30.0), "regress-history", shrink=0)
        chems = build_chems(ctx, corpus, infos, 2 if quick else 4, 40 if quick else 200, 40 if quick else 50)
        for c in chems:
            ctx.count("history_chemistries:" + c["family"])
        run_histories(ctx, fpool, build_histories(ctx, chems, 90 if quick else 600), timeout, "history")
        stamps["history"] = round(time.time() - t, 1); t = time.time()
        ctx.extra["stage_wall_s"] = stamps
    finally:
        fpool.close()
    # last, so that the draws of the streams above are what they were before this stream existed
    pool = C.Pool()
    try:
        sym = symrule_cases(ctx, k, 60 if quick else 400)
        run_cases(ctx, pool, sym, timeout, "symrule")
        stamps["symrule"] = round(time.time() - t, 1); t = time.time()
        gates_ok = not ctx.violations
        # end-to-end: the real SynReactor against the composed Lean reactor (after everything else: its draws change no other stream)
        e2e_stream(ctx, pool, e2e_select(ctx, [c for c in reg if c.get("stream") == "e2e"], extra, sym, cases,
                                         40 if quick else 1500, 40 if quick else 400), timeout)
        stamps["e2e"] = round(time.time() - t, 1); t = time.time()
        # explicit re-match population (after everything else: its draws change no other stream)
        xh_hists = xh_stream(ctx, pool, k, 1 if quick else 4, 6 if quick else 80, timeout, full=not quick)
        _shutdown(pool)
    finally:
        pool.close()
    xh_history_stream(ctx, xh_hists, timeout)
    stamps["xh"] = round(time.time() - t, 1)
    ctx.obligation("correspondence: result sets invariant under template renumbering / substrate rewriting / repetition, also inside "
                   "one interpreter after other calls (histories); comp within all; bt = comp or all; pruning invisible", gates_ok)
    # entry points / options / partial mode / wildcard templates (after everything else: their draws change no other stream)
    cov_streams(ctx, chems, timeout)


# ----------------------------------------------------------------------------- graph-level stream
def graph_stream(ctx, pool, corpus, infos, n):
    """Graph-level relabelling (ties the Lean theorems to the code): substrate graph relabelled by a random
    injection f (insertion order shuffled, edge directions flipped), template ITS relabelled by pi."""
    elig = [(rid, rs) for rid, rs in corpus if eligible(infos[rid]) and infos[rid]["n_atoms"] <= 40]
    picked = elig if len(elig) <= n else ctx.rnd.sample(elig, n)
    tasks = []
    for ex in extra_cases(ctx, 0):  # symmetric rules: here the pruning has work to do
        tasks.append({"key": f"g{len(tasks)}", "template": ex["template"], "core": True, "invert": ex["invert"], "mode": ex["mode"],
                      "host": ex["substrate"], "relabel": True, "fseed": ctx.rnd.randrange(1, 2**30), "piseed": ctx.rnd.randrange(1, 2**30),
                      "timeout": 20.0})
    for rid, rs in picked:
        core = ctx.rnd.random() < 0.75
        invert = ctx.rnd.random() < 0.5
        host = "own"
        if core and ctx.rnd.random() < 0.5:
            other = ctx.rnd.choice(elig)[1]
            side = C.unmapped_side(other.split(">>")[1 if invert else 0])
            if side:
                host = side
        tasks.append({"key": f"g{len(tasks)}", "template": rs, "core": core, "invert": invert, "mode": infos[rid]["mode"],
                      "host": host, "relabel": True, "fseed": ctx.rnd.randrange(1, 2**30), "piseed": ctx.rnd.randrange(1, 2**30),
                      "timeout": 20.0})
    graph_judge(ctx, pool, tasks)


def graph_judge(ctx, pool, tasks):
    results = pool.run(tasks, C.graph_task)
    sel = {"node_keys": C.MATCH_NODE_KEYS, "edge_keys": C.MATCH_EDGE_KEYS}
    reqs, owners = [], []
    for t, r in zip(tasks, results):
        ctx.count("graph_stream_status:" + r["status"].split(":")[0])
        if r["status"] != "ok":
            continue
        if r["A"]["pattern_nodes"] > 45 or len(r["A"]["raw"]) > 400:
            ctx.count("graph_stream_skipped_large")
            continue
        reqs.append(dict(cmd="rinv.monos_relabel", host=r["A"]["host"], pattern=r["A"]["pattern"], f=r["f"], pi=r["pi"], **sel))
        owners.append((t, r))
    answers = ctx.lean().ok(reqs, shards=8)
    bad = 0
    # what the implementation's pruning kept is judged by the Lean SPECIFICATION `pruneSpecB` (sub-list of the raw matches;
    # every raw match kept or related to a kept one by rule automorphisms) — theorem pruneSpec_preserves_results; how much
    # is pruned / which representative is kept is not gated.  Equality with the model `pruneByAut` is recorded only.
    preqs, powners = [], []
    for t, r in owners:
        for side in ("A", "B"):
            pr = r[side].get("prune")
            if pr is None or len(pr["group"]) > 60:
                ctx.count("prune_spec_not_evaluated(no rule-automorphism pruning in this tree, or too large)")
                continue
            preqs.append(dict(cmd="rinv.prune_spec", keep=pr["keep"], group=pr["group"], matches=pr["raw_ordered"], kept=pr["kept_ordered"]))
            preqs.append(dict(cmd="rinv.prune", keep=pr["keep"], group=pr["group"], matches=pr["raw_ordered"], max_group=5040))
            powners.append((t, pr))
    pans = ctx.lean().ok(preqs, shards=8)
    for i, (t, pr) in enumerate(powners):
        spec_ok, model_kept = pans[2 * i], pans[2 * i + 1]
        ctx.count("prune_spec_evaluated")
        if len(pr["kept_ordered"]) < len(pr["raw_ordered"]):
            ctx.count("prune_spec_evaluated_where_something_was_pruned")
        ctx.count("pruning_impl_equals_model_pruneByAut:" + ("yes" if model_kept == pr["kept_ordered"] else "no (not gated)"))
        if not spec_ok:
            bad += 1
            ctx.violation("symmetry pruning dropped a match that is not related to any kept match by an automorphism of the rule (PruneSpec violated)",
                          {"template": t["template"], "core": t["core"], "invert": t["invert"], "mode": t["mode"], "host": t["host"],
                           "fseed": t["fseed"], "piseed": t["piseed"], "stream": "graph"},
                          {"raw": len(pr["raw_ordered"]), "impl_kept": len(pr["kept_ordered"]), "model_kept": len(model_kept), "group": len(pr["group"])})
    for (t, r), ans in zip(owners, answers):
        A, B = r["A"], r["B"]
        case = {"template": t["template"], "core": t["core"], "invert": t["invert"], "mode": t["mode"], "host": t["host"],
                "fseed": t["fseed"], "piseed": t["piseed"], "stream": "graph"}
        ctx.count("graph_stream_cases")
        ctx.count("graph_stream_raw_matches:" + ("0" if not A["raw"] else "1" if len(A["raw"]) == 1 else "2+"))
        ctx.case(case, nontrivial=len(A["raw"]) >= 1)
        if A["results"] != B["results"] and _Cmp().equal(A["results"], B["results"]):
            ctx.count("comparisons_equal_only_up_to_kekule_form(not gated)")
        elif A["results"] != B["results"]:
            bad += 1
            ctx.violation("G1 (graph level) result set changes when substrate and template graphs are renumbered", case,
                          {"base": len(A["results"]), "relabelled": len(B["results"]),
                           "only_base": sorted(set(A["results"]) - set(B["results"]))[:5],
                           "only_relabelled": sorted(set(B["results"]) - set(A["results"]))[:5]})
        pi = dict(map(tuple, r["pi"]))
        expectP = {"nodes": sorted([pi[n], a] for n, a in A["pattern"]["nodes"]),
                   "edges": sorted([min(pi[u], pi[v]), max(pi[u], pi[v]), a] for u, v, a in A["pattern"]["edges"])}
        gotP = {"nodes": sorted(B["pattern"]["nodes"]), "edges": sorted([min(u, v), max(u, v), a] for u, v, a in B["pattern"]["edges"])}
        if json.dumps(expectP, sort_keys=True) != json.dumps(gotP, sort_keys=True):
            bad += 1
            ctx.violation("pattern preparation does not commute with renumbering the template (hypothesis PatternEquivariant)", case,
                          {"expected": expectP, "got": gotP}, no_input=A["results"] == B["results"])
        if ans["base"] != A["raw"] or ans["relabelled"] != B["raw"]:
            bad += 1
            ctx.violation("raw match sets of the implementation differ from the proven enumerator allMonos (base / relabelled pair)", case,
                          {"base_equal": ans["base"] == A["raw"], "relabelled_equal": ans["relabelled"] == B["raw"]},
                          no_input=A["results"] == B["results"])
        if ans["image"] != ans["relabelled"]:
            bad += 1
            ctx.violation("Lean: allMonos of the relabelled pair is not the relabelled allMonos (theorem allMonos_relabel_* instance)", case, None, no_input=True)
    ctx.obligation("graph-level relabelling: impl raw matches == allMonos, relabelled == image (allMonos_relabel_host/pattern), "
                   "pattern preparation equivariant, result sets equal; kept matches satisfy PruneSpec", bad == 0)



# ============================================================================= end-to-end: SynReactor vs the composed Lean reactor
E2E_MAX_ATOMS = 25      # substrate atoms
E2E_MAX_EMBED = 300     # embeddings of the prepared pattern (VF2 count, a size guard only)
E2E_MAX_ISO = 240       # match.iso questions per (pair, direction, strategy)


def _heavy_atoms(smi):
    from rdkit import Chem

    C._quiet()
    m = Chem.MolFromSmiles(smi)
    return None if m is None else m.GetNumAtoms()


def e2e_eligible(case, cache):
    """Implicit path by construction of the inputs: hydrogen mode 'implicit', no explicit hydrogen atom in the template, small substrate."""
    if case.get("mode") != "implicit":
        return False
    key = case["template"]
    if key not in cache:
        info = C.analyze_reaction(case["template"])
        cache[key] = bool(info.get("ok")) and info.get("mode") == "implicit" and not info.get("has_explicit_h")
    if not cache[key]:
        return False
    n = _heavy_atoms(case["substrate"])
    return n is not None and n <= E2E_MAX_ATOMS


def e2e_select(ctx, regress, extra, sym, corpus_cases, n_corpus, n_sym):
    """The stream's population, drawn from the populations of the other streams (the same case dicts): regress cases of this stream, every
    hand-written pair, the first `n_sym` eligible generated symmetric rules, a seeded sample of `n_corpus` eligible corpus cases."""
    cache = {}
    out = [dict(c, origin="regress") for c in regress]
    out += [dict(c, origin="extra") for c in extra if e2e_eligible(c, cache)]
    out += [dict(c, origin="symrule") for c in sym if e2e_eligible(c, cache)][:n_sym]
    pool = [c for c in corpus_cases if e2e_eligible(c, cache)]
    ctx.count("e2e:corpus_cases_eligible", len(pool))
    out += [dict(c, origin="corpus") for c in (pool if len(pool) <= n_corpus else ctx.rnd.sample(pool, n_corpus))]
    return out


def _e2e_variant(sr, nx, rsmi_to_its, task, label, template):
    """One writing of the template: a real SynReactor per strategy (implicit mode).  -> {label, template, status, tpl, host, runs}"""
    import copy

    v = {"label": label, "template": template, "status": "ok", "runs": {}}
    tpl = rsmi_to_its(template, core=task["core"])
    v["tpl"] = RC.enc_graph(tpl)
    for strat in task["strategies"]:
        calls = []
        orig = sr.SubgraphSearchEngine

        class Recorder(orig):  # records what the search returned before pruning
            @staticmethod
            def find_subgraph_mappings(*a, **k):
                r = orig.find_subgraph_mappings(*a, **k)
                calls.append((r, k.get("host"), k.get("pattern")))
                return r

        reactor = sr.SynReactor(task["substrate"], copy.deepcopy(tpl), invert=task["invert"], strategy=strat,
                                implicit_temp=True, explicit_h=False)
        sr.SubgraphSearchEngine = Recorder
        try:
            kept = reactor.mappings
        finally:
            sr.SubgraphSearchEngine = orig
        if not calls:
            v["status"] = "skip:search-not-observed"
            break
        raw, h, p = calls[0]
        if reactor._flag_pattern_has_explicit_H or any(d.get("element") == "*" for _, d in p.nodes(data=True)):
            v["status"] = "skip:explicit-H-or-wildcard-pattern"
            break
        if "host" not in v:
            host = reactor.graph.raw
            v["host"] = RC.enc_graph(host)
            v["host_nodes"], v["pattern_nodes"] = host.number_of_nodes(), p.number_of_nodes()
            # size guard: number of embeddings of the prepared pattern, counted up to the bound
            gm = nx.algorithms.isomorphism.GraphMatcher(
                h, p, node_match=lambda a, b: all(a.get(k) == b.get(k) for k in C.MATCH_NODE_KEYS) and a.get("hcount", 0) >= b.get("hcount", 0),
                edge_match=lambda a, b: all(a.get(k) == b.get(k) for k in C.MATCH_EDGE_KEYS))
            n = 0
            for _ in gm.subgraph_monomorphisms_iter():
                n += 1
                if n > E2E_MAX_EMBED:
                    break
            if n > E2E_MAX_EMBED:
                v["status"] = "skip:large"
                break
        run = {"raw": sorted(sorted([int(a), int(b)] for a, b in m.items()) for m in raw),
               "n_kept": len(kept), "its": [RC.enc_graph(g) for g in reactor.its_list], "prune": None}
        # inputs of the PruneSpec gate (as reactor_inv_common._graph_run): the automorphisms of the rule, enumerated afresh with VF2
        rcg = reactor.rule.rc.raw
        keep = list(p.nodes())
        keepset = set(keep)
        gm = nx.algorithms.isomorphism.GraphMatcher(
            rcg, rcg, node_match=lambda a, b: a.get("typesGH") == b.get("typesGH"), edge_match=lambda a, b: a.get("order") == b.get("order"))
        group = []
        for sigma in gm.isomorphisms_iter():
            group.append(sorted([int(x), int(y)] for x, y in sigma.items() if x in keepset))
            if len(group) > 60:
                group = None
                break
        if group is not None:
            run["prune"] = {"keep": [int(x) for x in keep], "group": group,
                            "raw_ordered": [sorted([int(a), int(b)] for a, b in m.items()) for m in raw],
                            "kept_ordered": [sorted([int(a), int(b)] for a, b in m.items()) for m in kept]}
        v["runs"][strat] = run
    return v


def e2e_task(task):
    """Worker entry.  task: {key, templates: [[label, mapped rsmi], ...], core, invert, substrate, strategies, timeout}.  The writings of
    the template are applied one after the other in THIS interpreter (as written first, then renumbered: a memo keyed on something coarser
    than the numbering would serve the second call with the first call's data).  Everything the comparison needs comes from the reactor
    itself: its substrate graph, the template ITS it was handed, the raw matches recorded at SubgraphSearchEngine, the matches it kept,
    its_list, and (for the PruneSpec gate) the rule automorphisms on the pattern."""
    t0 = time.time()
    C._ALARM["fired"] = False
    out = {"key": task["key"], "status": "ok", "variants": []}
    try:
        C.signal.setitimer(C.signal.ITIMER_REAL, float(task.get("timeout", 30)))
        import networkx as nx
        import synkit.Synthesis.Reactor.syn_reactor as sr
        from synkit.IO.chem_converter import rsmi_to_its

        for label, template in task["templates"]:
            out["variants"].append(_e2e_variant(sr, nx, rsmi_to_its, task, label, template))
    except C.CaseTimeout:
        out["status"] = "timeout"
    except Exception as e:  # noqa: BLE001 - an exception of the implementation is a result, not a crash
        out["status"] = "error:" + type(e).__name__
        out["error"] = str(e)[:300]
    finally:
        C.signal.setitimer(C.signal.ITIMER_REAL, 0)
    if C._ALARM["fired"]:
        out["status"] = "timeout"
    out["wall"] = round(time.time() - t0, 3)
    return out


def _its_view(g):
    """An ITS graph as the comparison sees it: `typesGH` without the neighbour lists on the atoms, `order` on the bonds; nodes sorted,
    bond ends ordered."""
    def tg(v):
        try:
            return {"t": [{"t": side["t"][:4]} for side in v["t"]]}
        except (TypeError, KeyError):
            return v
    return RC.norm_graph({"nodes": [[n, {"typesGH": tg(a.get("typesGH"))}] for n, a in g["nodes"]],
                          "edges": [[u, v, {"order": a.get("order")}] for u, v, a in g["edges"]]})


def _its_invariant(view):
    lab = {n: json.dumps(a, sort_keys=True) for n, a in view["nodes"]}
    return json.dumps([sorted(lab.values()),
                       sorted([json.dumps(a, sort_keys=True)] + sorted([lab.get(u, "?"), lab.get(v, "?")]) for u, v, a in view["edges"])])


def _classes(graphs):
    """exact key -> view of a list of encoded ITS graphs."""
    out = {}
    for g in graphs:
        v = _its_view(g)
        out.setdefault(json.dumps(v), v)
    return out


ISO_SEL = {"node_keys": ["typesGH"], "edge_keys": ["order"], "hcount": False}


E2E_CHUNK = 300        # (template, substrate) pairs per pool / driver round (bounds memory: every record holds all ITS graphs)


def e2e_stream(ctx, pool, cases, timeout, tag="e2e"):
    """Real SynReactor vs `reactor.results` (the composed reactor of SynKitModel/ReactorConcrete.lean), see the module docstring."""
    import gc

    bad = 0
    was = gc.isenabled()
    gc.disable()    # millions of small acyclic JSON objects are alive here: generational collections only cost time
    try:
        for a in range(0, len(cases), E2E_CHUNK):
            bad += _e2e_chunk(ctx, pool, cases[a:a + E2E_CHUNK], a, timeout, tag)
    finally:
        if was:
            gc.enable()
    ctx.obligation("end-to-end: real SynReactor (implicit path; all / comp / bt; both directions; template as written and renumbered) == composed "
                   "Lean reactor `concrete 5040 (compSearch true 5000)` of C05.statement_concrete on the recorded graphs: raw match sets equal, "
                   "ITS iso-class sets equal, kept matches satisfy PruneSpec", bad == 0)


def _e2e_chunk(ctx, pool, cases, offset, timeout, tag):
    tasks, meta = [], []
    for i, case in enumerate(cases):
        for opposite in (False, True):
            inv = bool(case["invert"]) != opposite
            templates = [["as-written", case["template"]]]
            if not opposite and case.get("tseeds"):
                # the same rule under another numbering that keeps the label set of the pattern, applied next in the same interpreter
                try:
                    templates.append(["renumbered", permute_maps(case["template"], "centre" if case["core"] else "element", case["tseeds"][0])])
                except Exception:  # noqa: BLE001 - RewriteFailed / RDKit: the harness could not rewrite the template, variant not used
                    ctx.count(f"{tag}:renumbered_variant_not_available")
            tasks.append({"key": f"{tag}{offset + i}:{int(opposite)}", "templates": templates, "core": case["core"], "invert": inv,
                          "substrate": case["substrate"], "strategies": list(C.STRATEGIES), "timeout": timeout})
            meta.append((case, inv, opposite))
    results = pool.run(tasks, e2e_task)
    reqs, owners = [], []
    for (case, inv, opposite), res in zip(meta, results):
        if res["status"] != "ok":
            ctx.count(f"{tag}:status:" + res["status"].split(":")[0])
            if res["status"].startswith("error"):
                ctx.count("impl_exception:" + res["status"][6:])
        for r in res["variants"]:
            ctx.count(f"{tag}:status:" + r["status"])
            if r["status"] != "ok" or len(r["runs"]) != len(C.STRATEGIES):
                continue
            _e2e_requests(reqs, owners, case, inv, opposite, r)
    return _e2e_judge(ctx, pool, reqs, owners, timeout, tag)


def _e2e_requests(reqs, owners, case, inv, opposite, r):
    """Per strategy: the composed Lean reactor on the recorded graphs, and the PruneSpec verdict on what the implementation kept."""
    for strat in C.STRATEGIES:
        reqs.append({"cmd": "reactor.results", "host": r["host"], "template": r["tpl"], "invert": inv, "strategy": strat, "strict": True})
        pr = r["runs"][strat]["prune"]
        if pr is not None:
            reqs.append(dict(cmd="rinv.prune_spec", keep=pr["keep"], group=pr["group"], matches=pr["raw_ordered"], kept=pr["kept_ordered"]))
    owners.append((case, inv, opposite, r))


def _e2e_judge(ctx, pool, reqs, owners, timeout, tag):
    answers = iter(ctx.lean().ok(reqs, shards=8))
    # second round: the isomorphism questions left open by exact comparison
    iso_reqs, evals = [], []
    for case, inv, opposite, r in owners:
        per = {}
        for strat in C.STRATEGIES:
            run, mod = r["runs"][strat], next(answers)
            spec_ok = next(answers) if run["prune"] is not None else None
            ci, cm = _classes(run["its"]), _classes(mod["its"])
            open_q = []   # (side, key, [candidate keys on the other side])
            for side, mine, other in (("impl", ci, cm), ("model", cm, ci)):
                for k, view in mine.items():
                    if k not in other:   # no equal graph on the other side: candidates are the graphs there with the same label statistics
                        inv_k = _its_invariant(view)
                        open_q.append((side, k, [k2 for k2, v2 in other.items() if _its_invariant(v2) == inv_k]))
            n_iso = sum(len(c) for _, _, c in open_q)
            capped = n_iso > E2E_MAX_ISO
            slots = []
            if not capped:
                for side, k, cands in open_q:
                    mine, other = (ci, cm) if side == "impl" else (cm, ci)
                    idx = []
                    for k2 in cands:
                        idx.append(len(iso_reqs))
                        iso_reqs.append(dict(cmd="match.iso", host=other[k2], pattern=mine[k], **ISO_SEL))
                    slots.append((side, k, idx))
            per[strat] = {"run": run, "mod": mod, "spec_ok": spec_ok, "ci": ci, "cm": cm, "slots": slots, "capped": capped}
        evals.append((case, inv, opposite, r, per))
    iso_ans = ctx.lean().ok(iso_reqs, shards=8)
    ctx.count(f"{tag}:match.iso_questions", len(iso_reqs))
    bad = 0
    for case, inv, opposite, r, per in evals:
        pub = dict(case_public(dict(case, invert=inv)), stream="e2e")
        if r["label"] != "as-written":
            pub["template_applied"] = r["template"]   # the second call of the task: the same rule, renumbered
        ctx.count(f"{tag}:template_written:" + r["label"])
        n_raw_all = len(per["all"]["run"]["raw"])
        n_its_all = len(per["all"]["run"]["its"])
        ctx.count(f"{tag}:pairs_evaluated")
        ctx.count(f"{tag}:origin:{case.get('origin', '?')}")
        ctx.count(f"{tag}:direction:" + ("opposite" if opposite else "own") + (":backward" if inv else ":forward"))
        ctx.count(f"{tag}:template:" + ("centre" if case["core"] else "full_its"))
        ctx.count(f"{tag}:raw_matches_all:" + ("0" if n_raw_all == 0 else "1" if n_raw_all == 1 else "2-9" if n_raw_all <= 9 else "10+"))
        ctx.case(pub, nontrivial=n_raw_all >= 1 and n_its_all >= 1,
                 sample={"stream": tag, "name": case.get("name"), "substrate": case["substrate"], "invert": inv,
                         "raw_matches": n_raw_all, "its": n_its_all} if n_its_all >= 2 else None)
        findings = []   # (what, detail)
        spec_failed = False
        for strat in C.STRATEGIES:
            e = per[strat]
            run, mod = e["run"], e["mod"]
            ctx.count(f"{tag}:runs_compared")
            if not (mod["wf_host"] and mod["wf_tpl"]):
                ctx.count(f"{tag}:model_guard_false(wf_host={mod['wf_host']},wf_tpl={mod['wf_tpl']})")
            where = {"strategy": strat, "name": case.get("name"), "origin": case.get("origin"), "direction": "opposite" if opposite else "own",
                     "template_written": r["label"], "template_applied": r["template"],
                     "host_nodes": r["host_nodes"], "pattern_nodes": r["pattern_nodes"], "wf_host": mod["wf_host"], "wf_tpl": mod["wf_tpl"]}
            if e["spec_ok"] is not None:
                ctx.count(f"{tag}:prune_spec_evaluated")
                if run["n_kept"] < len(run["raw"]):
                    ctx.count(f"{tag}:prune_spec_evaluated_where_something_was_pruned")
                if not e["spec_ok"]:
                    spec_failed = True
                    bad += 1
                    ctx.violation("symmetry pruning dropped a match that is not related to any kept match by an automorphism of the rule (PruneSpec violated)",
                                  dict(pub, strategy=strat), dict(where, raw=len(run["raw"]), impl_kept=run["n_kept"], model_kept=len(mod["kept"])))
            ctx.count(f"{tag}:kept_matches_impl_vs_model:" + ("equal" if run["n_kept"] == len(mod["kept"]) else "differ (not gated)"))
            if run["raw"] != mod["raw"]:
                findings.append(("(a) raw match set of the real SynReactor differs from the composed Lean reactor's",
                                 dict(where, impl=len(run["raw"]), model=len(mod["raw"]),
                                      only_impl=[m for m in run["raw"] if m not in mod["raw"]][:3],
                                      only_model=[m for m in mod["raw"] if m not in run["raw"]][:3])))
            if e["capped"]:
                ctx.count(f"{tag}:its_comparison_skipped(too many isomorphism questions)")
                continue
            lonely = {"impl": 0, "model": 0}
            for side, k, idx in e["slots"]:
                if not any(iso_ans[i] for i in idx):
                    lonely[side] += 1
            ctx.count(f"{tag}:its_classes_settled_by:" + ("exact equality" if not e["slots"] else "match.iso"))
            if lonely["impl"] or lonely["model"]:
                findings.append(("(b) ITS graphs of the real SynReactor and of the composed Lean reactor are not the same set of isomorphism classes",
                                 dict(where, impl_its=len(run["its"]), model_its=len(mod["its"]), impl_distinct=len(e["ci"]), model_distinct=len(e["cm"]),
                                      impl_without_partner=lonely["impl"], model_without_partner=lonely["model"],
                                      impl_kept=run["n_kept"], model_kept=len(mod["kept"]), raw=len(run["raw"]))))
        if not findings:
            continue
        # a mismatch with a failing gate on the same (template, substrate, direction) has a failing input; otherwise the correspondence broke
        gate_case = dict(case, invert=inv)
        gts, grs = None, None
        try:
            gts = tasks_of(gate_case, "e2egate", max(timeout, 30.0))
            grs = pool.run(gts)
            gates = sorted({w.split(" ")[0] for w, _ in judge(gate_case, gts, grs)})
        except Exception as exc:  # noqa: BLE001 - the gates could not be evaluated: treated as not failing
            gates = []
            ctx.count(f"{tag}:gates_not_evaluable:" + type(exc).__name__)
        if spec_failed:
            gates.append("PruneSpec")
        seen = set()
        for what, detail in findings:
            if what in seen:
                continue
            seen.add(what)
            bad += 1
            ctx.count(f"{tag}:mismatch:" + what[:3] + (":with_failing_gate" if gates else ":correspondence"))
            ctx.violation(what + (" [gates failing on the same case: " + ", ".join(gates) + "]" if gates else ""),
                          pub, dict(detail, failing_gates=gates), no_input=not gates)
    return bad


# ============================================================================= in-process histories
# Hidden state between calls.  Every other stream of this check hands one (template, substrate) call to a
# pool worker, so two writings of the same template rarely meet in one interpreter, and the renumberings used
# there permute ALL labels of the reaction (for a centre template the set of labels inside the centre then
# changes).  A history is a sequence of rule applications executed in ONE fresh interpreter: the same template
# under several renumberings that keep its label set (permutation inside the centre, inside the context, inside
# each element class, one transposition), under fresh labels and in another atom order, with rewritten substrate
# SMILES, interleaved with other templates (same template / other substrate, same kind of centre, unrelated),
# with exact repetitions, automorphism True and False, template objects reused or rebuilt, strategies in shuffled
# order.  The specification side never looks at the history: every step is compared with the result of the
# chemistry's call AS WRITTEN in an interpreter of its own (G1/G2), with its own un-pruned gluing (G5), and G3/G4
# are evaluated on the step alone.

PERM_KINDS = ("full", "centre", "context", "element", "swap", "fresh", "identity")
# drawn with these weights: renumberings that keep the label set AND the element of every label collide with every cheap key
# (label set, label -> element, canonical form of the rule), so they are the ones a numbering-dependent memo is most exposed to
PERM_DRAW = ("full", "centre", "context", "element", "element", "element", "swap", "swap", "fresh", "identity")

# Rule-like templates (context atoms written without hydrogens, as rule collections write them) of text-book
# reaction classes whose left-hand side, right-hand side or centre has symmetry: equivalent ligands of which one
# reacts, two equal ends, two equal components.  Substrates are generated by decorating a side (see `decorate`).
RULE_TEMPLATES = [
    ("silyl_chloride_hydrolysis", "[C:1][Si:2]([C:3])([C:4])[Cl:5].[OH2:6]>>[C:1][Si:2]([C:3])([C:4])[OH:6].[ClH:5]"),
    ("hydroamination_expl", "[C:1][N:2]([H:6])[C:3].[C:4]=[C:5]>>[C:1][N:2]([C:3])[C:4][C:5][H:6]"),
    ("hydroamination_impl", "[C:1][NH:2][C:3].[C:4]=[C:5]>>[C:1][N:2]([C:3])[C:4][CH:5]"),
    ("enolisation", "[C:1][C:2](=[O:3])[CH:4]>>[C:1][C:2]([OH:3])=[C:4]"),
    ("diol_monoacylation", "[OH:1][C:2][C:3][OH:4].[C:5](=[O:6])[Cl:7]>>[OH:1][C:2][C:3][O:4][C:5]=[O:6].[ClH:7]"),
    ("diene_12_addition", "[C:1]=[C:2][C:3]=[C:4].[BrH:5]>>[CH:1][C:2]([Br:5])[C:3]=[C:4]"),
    ("diene_14_addition", "[C:1]=[C:2][C:3]=[C:4].[BrH:5]>>[CH:1][C:2]=[C:3][C:4][Br:5]"),
    ("diels_alder", "[C:1]=[C:2][C:3]=[C:4].[C:5]=[C:6]>>[C:1]1[C:2]=[C:3][C:4][C:5][C:6]1"),
    ("metathesis", "[C:1]=[C:2].[C:3]=[C:4]>>[C:1]=[C:3].[C:2]=[C:4]"),
    ("cycloaddition_2_2", "[C:1]=[C:2].[C:3]=[C:4]>>[C:1]1[C:2][C:4][C:3]1"),
    ("epoxide_hydrolysis", "[C:1]1[O:2][C:3]1.[OH2:4]>>[OH:2][C:1][C:3][OH:4]"),
    ("aldol", "[C:1][C:2](=[O:3])[CH:4].[C:5]=[O:6]>>[C:1][C:2](=[O:3])[C:4][C:5][OH:6]"),
    ("transesterification", "[C:1][O:2][C:3]=[O:4].[C:5][OH:6]>>[C:5][O:6][C:3]=[O:4].[C:1][OH:2]"),
    ("amination_expl", "[C:1][Cl:2].[N:3][H:4]>>[C:1][N:3].[Cl:2][H:4]"),
    ("diester_monohydrolysis", "[C:1][O:2][C:3](=[O:4])[C:5][C:6](=[O:7])[O:8][C:9].[OH2:10]>>[C:1][O:2][C:3](=[O:4])[C:5][C:6](=[O:7])[OH:8].[C:9][OH:10]"),
    ("cope", "[C:1]=[C:2][C:3][C:4][C:5]=[C:6]>>[C:2]([C:1][C:6][C:5]=[C:4])=[C:3]"),
    ("ether_cleavage", "[C:1][O:2][C:3].[IH:4]>>[C:1][OH:2].[C:3][I:4]"),
    ("disulfide_exchange", "[C:1][S:2][S:3][C:4].[C:5][SH:6]>>[C:1][S:2][S:6][C:5].[C:4][SH:3]"),
    ("anhydride_aminolysis", "[C:1][C:2](=[O:3])[O:4][C:5](=[O:6])[C:7].[NH3:8]>>[C:1][C:2](=[O:3])[NH2:8].[OH:4][C:5](=[O:6])[C:7]"),
]


def star_templates():
    """'One of n equivalent ligands reacts': centre atom X with n ligands L and a reagent H-Nu; one X-L bond is broken and
    either X takes the hydrogen and L the nucleophile ('XH': dealkylation type) or X takes the nucleophile and L leaves with
    the hydrogen ('XNu': hydrolysis / ligand exchange type).  The left-hand side has the full symmetry of the n ligands, the
    rule only that of the n-1 that stay; with L = Nu (ligand exchange) the same holds backwards."""
    hs = {"O": 2, "S": 2, "N": 3}

    def h(el, k):
        return f"{el}H{k}" if k > 1 else (f"{el}H" if k == 1 else el)

    out = []
    for X, n, L, Nu, variant in (("N", 3, "C", "O", "XH"), ("N", 3, "C", "S", "XH"), ("P", 3, "C", "O", "XH"),
                                 ("B", 3, "C", "O", "XNu"), ("B", 3, "O", "O", "XNu"), ("B", 3, "O", "N", "XNu"), ("B", 3, "N", "O", "XNu"),
                                 ("P", 3, "O", "O", "XNu"), ("P", 3, "Cl", "O", "XNu"), ("Si", 4, "O", "O", "XNu"), ("Si", 4, "C", "O", "XNu"),
                                 ("C", 4, "Cl", "O", "XNu"), ("C", 4, "O", "O", "XNu"), ("C", 4, "S", "O", "XNu"), ("C", 4, "C", "N", "XNu")):
        stay = "".join(f"([{L}:{i}])" for i in range(3, n + 1))
        last, nu = n + 1, n + 2
        lhs = f"[{L}:2][{X}:1]{stay}[{L}:{last}].[{h(Nu, hs[Nu])}:{nu}]"
        if variant == "XH":
            rhs = f"[{L}:2][{X}H:1]{stay}.[{L}:{last}][{h(Nu, hs[Nu] - 1)}:{nu}]"
        else:
            rhs = f"[{L}:2][{X}:1]{stay}[{h(Nu, hs[Nu] - 1)}:{nu}].[{L}H:{last}]"
        out.append((f"star_{X}{L}{n}_{Nu}_{variant}", lhs + ">>" + rhs))
    return out


RULE_TEMPLATES = star_templates() + RULE_TEMPLATES
_GROUPS = ["C", "CC", "C(C)C", "F", "Cl", "OC", "CCC", "C(C)(C)C", "N(C)C", "C#N"]
_C_GROUPS = ["C", "CC", "C(C)C", "CCC", "C(C)(C)C", "CCCC", "CC(C)C", "CCF"]  # what is attached to a hetero atom
_SPECTATORS = ["O", "CCO", "N", "CC(C)=O", "ClCCl", "c1ccccc1"]


def label_tables(rsmi):
    """-> (labels sorted, element of each label, labels inside the centre) from the input alone (RDKit tables)."""
    rs, ps = rsmi.split(">>")
    ra, rb, _, _ = C._side_table(rs)
    pa, pb, _, _ = C._side_table(ps)
    labels = sorted(set(ra) | set(pa))
    el = {m: (ra.get(m) or pa.get(m))[0] for m in labels}
    centre = {x for e in set(rb) | set(pb) if rb.get(e, 0) != pb.get(e, 0) for x in e}
    centre |= {m for m in labels if m in ra and m in pa and (ra[m][1] != pa[m][1] or ra[m][2] != pa[m][2])}
    return labels, el, centre


def _shuffled_within(classes, rnd):
    d = {}
    for cls in classes:
        cls = sorted(cls)
        img = cls[:]
        rnd.shuffle(img)
        d.update(zip(cls, img))
    return d


def permute_maps(rsmi, kind, seed, rewrite=False):
    """Another writing of the same mapped reaction: the atom-map numbers renamed by an injection chosen by `kind`
    (full: any permutation of the label set; centre / context: permutation of the labels inside / outside the centre;
    element: permutation inside every element class; swap: one transposition, of two labels of one element when there
    are such; fresh: an injection into unused numbers; identity), optionally also written in another atom order.
    Self-checked: both sides denote the same molecules and, read back through the renaming, the same atoms, charges,
    hydrogen counts and bonds (else RewriteFailed: the variant is not used)."""
    import random as _random
    from rdkit import Chem

    C._quiet()
    rnd = _random.Random(seed)
    labels, el, centre = label_tables(rsmi)
    ident = {m: m for m in labels}
    if kind == "full":
        d = _shuffled_within([labels], rnd)
    elif kind == "centre":
        d = {**ident, **_shuffled_within([[m for m in labels if m in centre]], rnd)}
    elif kind == "context":
        rest = [m for m in labels if m not in centre]
        d = {**ident, **_shuffled_within([rest if len(rest) > 1 else labels], rnd)}
    elif kind == "element":
        by = {}
        for m in labels:
            by.setdefault(el[m], []).append(m)
        d = _shuffled_within(by.values(), rnd)
    elif kind == "swap":
        by = {}
        for m in labels:
            by.setdefault(el[m], []).append(m)
        pairs = [c for c in by.values() if len(c) > 1]
        a, b = rnd.sample(rnd.choice(pairs), 2) if pairs and rnd.random() < 0.8 else (rnd.sample(labels, 2) if len(labels) > 1 else (labels[0], labels[0]))
        d = dict(ident)
        d[a], d[b] = b, a
    elif kind == "fresh":
        if rnd.random() < 0.5:
            off = rnd.randrange(1, 60)
            d = {m: m + off for m in labels}
        else:
            d = dict(zip(labels, rnd.sample(range(1, 4 * len(labels) + 40), len(labels))))
    elif kind == "identity":
        d = ident
    else:
        raise ValueError(kind)
    rs, ps = rsmi.split(">>")
    mr, mp = C._mol_keep_h(rs), C._mol_keep_h(ps)
    for m in (mr, mp):
        for a in m.GetAtoms():
            if a.GetAtomMapNum():
                a.SetAtomMapNum(d[a.GetAtomMapNum()])
    out = Chem.MolToSmiles(mr) + ">>" + Chem.MolToSmiles(mp)
    if rewrite:
        out = C.rewrite_reaction(out, seed % (2**30) + 3)
    # self-check
    if [C.canon_unmapped(x) for x in out.split(">>")] != [C.canon_unmapped(x) for x in rsmi.split(">>")]:
        raise C.RewriteFailed("renumbering changed the molecules: " + rsmi)
    inv = {v: k for k, v in d.items()}
    for old, new in zip(rsmi.split(">>"), out.split(">>")):
        a0, b0, u0, _ = C._side_table(old)
        a1, b1, u1, _ = C._side_table(new)
        try:
            a1 = {inv[m]: v for m, v in a1.items()}
            b1 = {(min(inv[u], inv[v]), max(inv[u], inv[v])): o for (u, v), o in b1.items()}
        except KeyError:
            raise C.RewriteFailed("renumbering lost a label: " + rsmi)
        if a0 != a1 or b0 != b1 or u0 != u1:
            raise C.RewriteFailed("renumbering changed the mapped reaction: " + rsmi)
    return out


def decorate(side, rnd, p_group=0.4, p_spectator=0.2, max_heavy=18):
    """A substrate containing one side of a rule-like template: every open valence of a context atom (written
    without hydrogens, so RDKit reads it as a radical) is saturated with hydrogen or, with probability p_group, a
    small substituent drawn per position — positions that the template's symmetry exchanges usually become
    chemically different; sometimes a spectator molecule is added.  -> SMILES without atom maps, or None."""
    from rdkit import Chem

    C._quiet()
    try:
        rw = Chem.RWMol(C._mol_keep_h(side))
        todo = []
        for a in rw.GetAtoms():
            a.SetAtomMapNum(0)
            k = a.GetNumRadicalElectrons()
            if a.GetSymbol() == "H" or not k:
                continue
            todo.append((a.GetIdx(), k, a.GetTotalNumHs()))
        for idx, k, h in todo:
            for _ in range(k):
                carbon = rw.GetAtomWithIdx(idx).GetSymbol() == "C"
                if rnd.random() < (p_group if carbon else 0.75):
                    grp = Chem.MolFromSmiles(rnd.choice(_GROUPS if carbon else _C_GROUPS))
                    off = rw.GetNumAtoms()
                    rw = Chem.RWMol(Chem.CombineMols(rw, grp))
                    rw.AddBond(idx, off, Chem.BondType.SINGLE)
                else:
                    h += 1
            a = rw.GetAtomWithIdx(idx)
            a.SetNumRadicalElectrons(0)
            a.SetNoImplicit(True)
            a.SetNumExplicitHs(h)
        Chem.SanitizeMol(rw)
        smi = Chem.MolToSmiles(rw)
    except Exception:  # noqa: BLE001 - the generator failed to build a molecule: no substrate
        return None
    out = C.unmapped_side(smi)
    if out is None:
        return None
    if rnd.random() < p_spectator:
        out = out + "." + rnd.choice(_SPECTATORS)
    mol = Chem.MolFromSmiles(out)
    if mol is None or mol.GetNumHeavyAtoms() > max_heavy:
        return None
    return out


def _chem(name, tpl, core, invert, mode, substrate, family):
    return {"name": name, "template": tpl, "core": core, "invert": invert, "mode": mode, "substrate": substrate, "family": family}


def chem_key(c):
    return json.dumps([c["template"], c["core"], c["invert"], c["mode"], c["substrate"]])


def build_chems(ctx, corpus, infos, n_rule_sub, n_corpus, max_atoms):
    """The (template, direction, substrate) triples histories are made of: rule-like symmetric templates x
    {centre, full ITS} x {forward, backward} x generated substrates; the hand-written symmetric pairs; corpus
    reactions (own side, or the side of a reaction with the same changed-bond multiset)."""
    rnd = ctx.rnd
    chems = []
    for name, tpl in RULE_TEMPLATES:
        info = C.analyze_reaction(tpl)
        if not info["ok"] or info["mode"] == "mixed":
            ctx.count("history_rule_template_unusable")
            continue
        for invert in (False, True):
            side = tpl.split(">>")[1 if invert else 0]
            subs = []
            for _ in range(4 * n_rule_sub):
                s = decorate(side, rnd)
                if s and s not in subs:
                    subs.append(s)
                if len(subs) >= n_rule_sub:
                    break
            for s in subs:
                for core in (False, True):
                    chems.append(_chem(f"rule:{name}/{'centre' if core else 'its'}/{'bw' if invert else 'fw'}", tpl, core, invert,
                                       info["mode"], s, "star" if name.startswith("star_") else "rule"))
    for ex in extra_cases(ctx, 0):
        chems.append(_chem(ex["name"], ex["template"], True, ex["invert"], ex["mode"], ex["substrate"], "extra"))
    pool = [(rid, rs) for rid, rs in corpus if eligible(infos[rid]) and infos[rid]["n_atoms"] <= max_atoms]
    by_key, sides = {}, {}
    for rid, rs in pool:
        sd = [C.unmapped_side(x) for x in rs.split(">>")]
        if None in sd:
            continue
        sides[rid] = sd
        by_key.setdefault(rc_key_of(rs), []).append(rid)
    pool = [(rid, rs) for rid, rs in pool if rid in sides]
    for rid, rs in (pool if n_corpus >= len(pool) else rnd.sample(pool, n_corpus)):
        core = rnd.random() < 0.7
        invert = rnd.random() < 0.5
        sid = rid
        if core and rnd.random() < 0.5:
            same = [x for x in by_key[rc_key_of(rs)] if x != rid]
            if same:
                sid = rnd.choice(same)
        chems.append(_chem(f"corpus:{rid}/{'centre' if core else 'its'}/{'bw' if invert else 'fw'}/{'own' if sid == rid else 'foreign:' + sid}",
                           rs, core, invert, infos[rid]["mode"], sides[sid][1 if invert else 0], "corpus"))
    return chems


def _step(ctx_rnd, chem, kind, base=False):
    """One call of a history: the chemistry written another way (or as written when `base`)."""
    rnd = ctx_rnd
    strategies = list(C.STRATEGIES)
    rnd.shuffle(strategies)
    st = {"chem": chem_key(chem), "core": chem["core"], "invert": chem["invert"], "mode": chem["mode"],
          "strategies": strategies, "automorphism": rnd.random() < 0.5, "repeat": 2 if rnd.random() < 0.25 else 1,
          "tform": rnd.choice(["its", "its", "shared", "rule"] + ([] if chem["core"] else ["str"])),
          "kind": "as-written" if base else kind}
    tseed, sseed, rew = rnd.randrange(1, 2**30), rnd.randrange(1, 2**30), rnd.random() < 0.3
    if base:
        st["template"], st["substrate"] = chem["template"], chem["substrate"]
        return st
    try:
        st["template"] = permute_maps(chem["template"], kind, tseed, rewrite=rew)
    except C.RewriteFailed:
        st["template"] = chem["template"]
        st["kind"] = "as-written(rewrite failed)"
    st["substrate"] = C.rewrite_smiles(chem["substrate"], sseed) if rnd.random() < 0.7 else chem["substrate"]
    return st


def build_histories(ctx, chems, n, ladder_every=4):
    """Seeded histories.  Each has a main chemistry A and up to two others (the same template on another substrate,
    a chemistry of the same family, any chemistry).  Shapes: 'mixed' — A as written or renumbered first, then a
    random interleaving of renumberings of A, calls of the others and exact repetitions of earlier steps;
    'ladder' — A under one kind of renumbering many times (all within the same label set), the others in between."""
    rnd = ctx.rnd
    by_tpl, by_fam = {}, {}
    for c in chems:
        by_tpl.setdefault((c["template"], c["invert"]), []).append(c)
        by_fam.setdefault(c["family"], []).append(c)
    # the main chemistry is drawn stratum by stratum (family, template form, direction), so that every run holds a fixed share of
    # each: full rule-like templates applied forwards (context atoms inside the pattern: the left-hand side can be more symmetric
    # than the rule) most often
    strata = [("star", False, False)] * 3 + [("star", False, True), ("star", True, False), ("star", True, True)] \
        + [("rule", False, False)] * 2 + [("rule", False, True), ("rule", True, None)] + [("extra", None, None)] * 2 + [("corpus", None, None)] * 2
    hists = []
    for h in range(n):
        fam, core, invert = strata[h % len(strata)]
        cand = [c for c in by_fam.get(fam, []) if core in (None, c["core"]) and invert in (None, c["invert"])] or chems
        A = rnd.choice(cand)
        others = []
        sib = [c for c in by_tpl[(A["template"], A["invert"])] if c is not A]
        if sib and rnd.random() < 0.5:
            others.append(rnd.choice(sib))
        if rnd.random() < 0.7:
            others.append(rnd.choice(by_fam[A["family"]]))
        if rnd.random() < 0.4 or not others:
            others.append(rnd.choice(chems))
        steps = []
        if rnd.random() < 1.0 / ladder_every:
            shape = "ladder"
            kind = rnd.choice(["element", "element", "swap", "centre", "full", "context"])
            first_written = rnd.random() < 0.5
            if first_written:
                steps.append(_step(rnd, A, kind, base=True))
            for i in range(rnd.randint(4, 6)):
                steps.append(_step(rnd, A, kind))
                if rnd.random() < 0.35:
                    steps.append(_step(rnd, rnd.choice(others), rnd.choice(PERM_DRAW), base=rnd.random() < 0.5))
            if not first_written:
                steps.append(_step(rnd, A, kind, base=True))
        else:
            shape = "mixed"
            steps.append(_step(rnd, A, rnd.choice(PERM_DRAW), base=rnd.random() < 0.5))
            for i in range(rnd.randint(4, 7)):
                r = rnd.random()
                if r < 0.55:
                    steps.append(_step(rnd, A, rnd.choice(PERM_DRAW), base=rnd.random() < 0.15))
                elif r < 0.85:
                    steps.append(_step(rnd, rnd.choice(others), rnd.choice(PERM_DRAW), base=rnd.random() < 0.4))
                else:
                    again = dict(rnd.choice(steps))
                    again["kind"] = "repeat-of-earlier-step"
                    again["automorphism"] = rnd.random() < 0.5
                    steps.append(again)
        used = {chem_key(A): A}
        for o in others:
            used[chem_key(o)] = o
        used = {k: v for k, v in used.items() if any(s["chem"] == k for s in steps)}
        hists.append({"name": f"h{h}:{shape}:{A['name']}", "shape": shape, "steps": steps, "chems": used})
    return hists


# ----------------------------------------------------------------------------- worker side (fresh interpreter per history)
def _apply_step(sr, std, tpl_obj, st, strategy, want_raw):
    """One SynReactor run of a history step (as `reactor_inv_common._apply_once`, plus the `automorphism` option, a
    template that may be a string / shared graph / SynRule, and the result list read twice from one reactor)."""
    calls = []
    orig = sr.SubgraphSearchEngine

    class Recorder(orig):  # records what the search returned before pruning
        @staticmethod
        def find_subgraph_mappings(*a, **k):
            r = orig.find_subgraph_mappings(*a, **k)
            calls.append(r)
            return r

    kw = dict(C._mode_kwargs(st["mode"]))
    if st.get("automorphism"):
        kw["automorphism"] = True
    reactor = sr.SynReactor(st["substrate"], tpl_obj, invert=st["invert"], strategy=strategy, **kw)
    sr.SubgraphSearchEngine = Recorder
    try:
        maps = reactor.mappings
    finally:
        sr.SubgraphSearchEngine = orig
    raw = [dict(m) for m in calls[0]] if calls else None

    def fit_all(smarts):
        res = set()
        for s in smarts:
            try:
                f = std.fit(s)
            except Exception:  # noqa: BLE001
                f = None
            if f is not None:
                res.add(f)
        return sorted(res)

    first = fit_all(list(reactor.smarts_list))
    out = {"results": first, "n_map": len(maps), "n_raw": None if raw is None else len(raw),
           "reread_equal": fit_all(list(reactor.smarts_list)) == first}
    if want_raw and raw is not None:
        reactor._mappings = raw  # glue EVERY raw match through the reactor's own internals (no pruning)
        reactor._its = None
        reactor._smarts = None
        out["results_raw"] = fit_all(reactor.smarts_list)
    return out


def history_task(task):
    """Worker entry: all steps of one history, in order, in this (fresh) interpreter.
    task: {key, steps, timeout (per step)} -> {key, steps: [{status, runs: {strategy: [run, ...]}}]}"""
    import signal
    import time

    t0 = time.time()
    out = {"key": task["key"], "steps": []}
    import synkit.Synthesis.Reactor.syn_reactor as sr
    from synkit.Chem.Reaction.standardize import Standardize
    from synkit.Graph.canon_graph import GraphCanonicaliser
    from synkit.IO.chem_converter import rsmi_to_its
    from synkit.Rule import SynRule

    std = Standardize()
    shared = {}
    for st in task["steps"]:
        C._ALARM["fired"] = False
        res = {"status": "ok", "runs": {}}
        try:
            signal.setitimer(signal.ITIMER_REAL, float(task.get("timeout", 30)))
            tform = st.get("tform", "its")
            tkey = (st["template"], st["core"], st["mode"], tform)
            if tform == "str":
                tpl = st["template"]
            elif tform in ("shared", "rule") and tkey in shared:
                tpl = shared[tkey]
            else:
                tpl = rsmi_to_its(st["template"], core=st["core"])
                if tform == "rule" and not st["invert"]:
                    # the SynRule the reactor would build itself (SynReactor._wrap_template, forward), kept and reused
                    tpl = (SynRule(tpl, canonicaliser=GraphCanonicaliser(), implicit_h=False) if st["mode"] != "explicit"
                           else SynRule(tpl, canonicaliser=GraphCanonicaliser()))
                if tform in ("shared", "rule"):
                    shared[tkey] = tpl
            for strat in st["strategies"]:
                for rep in range(st.get("repeat", 1)):
                    res["runs"].setdefault(strat, []).append(
                        _apply_step(sr, std, tpl, st, strat, rep == 0 and strat in ("all", st["strategies"][0])))
        except C.CaseTimeout:
            res["status"] = "timeout"
        except Exception as e:  # noqa: BLE001 - an exception of the implementation is a result, not a crash
            res["status"] = "error:" + type(e).__name__
            res["error"] = str(e)[:300]
        finally:
            signal.setitimer(signal.ITIMER_REAL, 0)
        if C._ALARM["fired"]:
            res["status"] = "timeout"
        out["steps"].append(res)
        if res["status"] == "timeout":
            break  # what follows would run in a state the time-out left behind: not evaluated
    out["wall"] = round(time.time() - t0, 3)
    return out


class FreshPool:
    """Every task runs in an interpreter of its own (forked from the harness, which never imports synkit), so that a
    history starts from the library's initial state and a replay reproduces it."""

    def __init__(self, workers=None):
        import multiprocessing as mp
        import os

        self.pool = mp.get_context("fork").Pool(workers or min(16, os.cpu_count() or 4), initializer=C._worker_init, maxtasksperchild=1)

    def run(self, tasks):
        res = {}
        for r in self.pool.imap_unordered(history_task, tasks, 1):
            res[r["key"]] = r
        return [res[t["key"]] for t in tasks]

    def close(self):
        self.pool.terminate()
        self.pool.join()


def reference_step(chem):
    """The chemistry's call as written, alone: what every step of that chemistry has to reproduce."""
    return {"chem": chem_key(chem), "template": chem["template"], "substrate": chem["substrate"], "core": chem["core"],
            "invert": chem["invert"], "mode": chem["mode"], "strategies": list(C.STRATEGIES), "automorphism": False,
            "repeat": 1, "tform": "its", "kind": "reference"}


def step_public(st):
    return {k: st[k] for k in ("template", "substrate", "core", "invert", "mode", "strategies", "automorphism", "repeat", "tform", "chem", "kind")}


def judge_history(hist, result, refs, cmp):
    """-> list of (what, step index, detail).  `refs`: chem key -> step result of the reference call (own interpreter)."""
    bad = []
    for i, (st, r) in enumerate(zip(hist["steps"], result["steps"])):
        ref = refs.get(st["chem"])
        where = {"step": i, "of": len(hist["steps"]), "template": st["template"], "substrate": st["substrate"],
                 "automorphism": st["automorphism"], "template_given_as": st["tform"], "renumbering": st["kind"]}
        if r["status"] == "timeout" or ref is None or ref["status"] == "timeout":
            continue
        if r["status"].startswith("error") or ref["status"].startswith("error"):
            if r["status"] != ref["status"] and (r["status"] == "ok" or ref["status"] == "ok"):
                bad.append(("G1 rule application raises for one writing of the inputs / one history and answers for another", i,
                            dict(where, status=r["status"], message=r.get("error"), reference_status=ref["status"])))
            continue
        runs = r["runs"]
        for strat in C.STRATEGIES:
            rr = runs[strat]
            base = ref["runs"][strat][0]["results"]
            got = rr[0]["results"]
            if not cmp.equal(got, base):
                bad.append(("G1 result set differs from the result of the same chemistry as written, applied in an interpreter of its own "
                            "(depends on the numbering / writing or on what was applied before)", i,
                            dict(where, strategy=strat, reference=len(base), here=len(got),
                                 lost=sorted(set(base) - set(got))[:6], gained=sorted(set(got) - set(base))[:6])))
                break
        for strat in C.STRATEGIES:
            rr = runs[strat]
            if (len(rr) > 1 and rr[0]["results"] != rr[1]["results"]) or not rr[0]["reread_equal"]:
                bad.append(("G2 repeating the call changes the result set", i, dict(where, strategy=strat)))
            if "results_raw" in rr[0] and not cmp.equal(rr[0]["results_raw"], rr[0]["results"]):
                bad.append(("G5 symmetry pruning changes the set of distinct reactions", i,
                            dict(where, strategy=strat, raw_matches=rr[0]["n_raw"], kept_matches=rr[0]["n_map"],
                                 with_pruning=len(rr[0]["results"]), every_raw_match=len(rr[0]["results_raw"]),
                                 lost=sorted(set(rr[0]["results_raw"]) - set(rr[0]["results"]))[:6],
                                 gained=sorted(set(rr[0]["results"]) - set(rr[0]["results_raw"]))[:6])))
        a, c, b = (set(runs[s][0]["results"]) for s in ("all", "comp", "bt"))
        if not cmp.subset(c, a):
            bad.append(("G3 component-aware results are not a subset of the exhaustive results", i, dict(where, extra=sorted(c - a)[:6])))
        if c and not cmp.equal(b, c):
            bad.append(("G4 fallback strategy differs from the non-empty component-aware result", i, dict(where, comp=len(c), bt=len(b))))
        if runs["comp"][0]["n_raw"] == 0 and not cmp.equal(b, a):
            bad.append(("G4 fallback strategy differs from the exhaustive result although the component-aware search found nothing", i,
                        dict(where, all=len(a), bt=len(b))))
        if not cmp.subset(b, a):
            bad.append(("G4 fallback results are not a subset of the exhaustive results", i, dict(where, extra=sorted(b - a)[:6])))
    return bad


def history_public(hist, steps=None):
    steps = hist["steps"] if steps is None else steps
    keys = {s["chem"] for s in steps}
    return {"stream": "history", "steps": [step_public(s) for s in steps],
            "chems": {k: {x: v[x] for x in ("template", "core", "invert", "mode", "substrate")} for k, v in hist["chems"].items() if k in keys}}


def _eval_histories(fpool, hists, timeout, refs=None):
    """Run histories + the reference calls they need (each in an interpreter of its own). -> (results, refs)"""
    refs = {} if refs is None else refs
    need = {}
    for h in hists:
        for k, c in h["chems"].items():
            if k not in refs:
                need[k] = c
    tasks = [{"key": f"H{i}", "steps": h["steps"], "timeout": timeout} for i, h in enumerate(hists)]
    rkeys = sorted(need)
    tasks += [{"key": f"R{j}", "steps": [reference_step({**need[k], "name": ""})], "timeout": timeout} for j, k in enumerate(rkeys)]
    out = fpool.run(tasks)
    for j, k in enumerate(rkeys):
        refs[k] = out[len(hists) + j]["steps"][0]
    return out[:len(hists)], refs


def shrink_history(fpool, hist, what, idx, timeout, refs):
    """The failing step alone; else one earlier step + the failing step; else the prefix up to the failing step."""
    steps = hist["steps"]

    def cand(ss):
        return {"name": hist["name"], "steps": ss, "chems": hist["chems"]}

    cands = [[steps[idx]]] + [[steps[j], steps[idx]] for j in range(idx)]
    results, _ = _eval_histories(fpool, [cand(ss) for ss in cands], timeout, refs)
    for ss, r in zip(cands, results):
        if len(r["steps"]) == len(ss) and any(w == what and i == len(ss) - 1 for w, i, _ in judge_history(cand(ss), r, refs, _Cmp())):
            return ss
    return steps[:idx + 1]


def run_histories(ctx, fpool, hists, timeout, tag, shrink=3):
    results, refs = _eval_histories(fpool, hists, timeout)
    for k, r in refs.items():
        ctx.count("history_reference_status:" + r["status"].split(":")[0])
    n_shrunk = 0
    for hist, res in zip(hists, results):
        ctx.count("histories")
        ctx.count("history_shape:" + hist.get("shape", "given"))
        for i, (st, r) in enumerate(zip(hist["steps"], res["steps"])):
            ctx.count("history_step_status:" + r["status"].split(":")[0])
            ctx.count("history_step_renumbering:" + st["kind"])
            ctx.count("history_step_template_given_as:" + st["tform"])
            ctx.count("history_step_automorphism:" + str(st["automorphism"]))
            n_all = n_raw = 0
            pruned = False
            if r["status"] == "ok":
                first = r["runs"]["all"][0]
                n_all, n_raw = len(first["results"]), first["n_raw"] or 0
                pruned = first["n_map"] < n_raw
            ctx.count("history_step_results_all:" + ("0" if n_all == 0 else "1" if n_all == 1 else "2-4" if n_all <= 4 else "5+"))
            ctx.count("history_step_raw_matches_all:" + ("0" if n_raw == 0 else "1" if n_raw == 1 else "2-9" if n_raw <= 9 else "10+"))
            if pruned:
                ctx.count("history_steps_where_pruning_removed_matches")
            ctx.case({"stream": "history", "position": i, "before": [step_public(s) for s in hist["steps"][:i]], "step": step_public(st)},
                     nontrivial=n_all >= 1,
                     sample={"stream": tag, "name": hist["name"], "step": i, "template": st["template"], "substrate": st["substrate"],
                             "results_all": n_all, "raw_matches": n_raw})
        if len(res["steps"]) < len(hist["steps"]):
            ctx.count("history_steps_not_evaluated_after_timeout", len(hist["steps"]) - len(res["steps"]))
        cmp = _Cmp()
        verdicts = judge_history(hist, res, refs, cmp)
        if cmp.kekule_only:
            ctx.count("comparisons_equal_only_up_to_kekule_form(not gated)", cmp.kekule_only)
        seen = set()
        for what, idx, detail in verdicts:
            if what in seen:
                continue  # the first failing step of each kind per history
            seen.add(what)
            if shrink and n_shrunk < shrink:
                n_shrunk += 1
                steps = shrink_history(fpool, hist, what, idx, timeout, refs)
            else:
                steps = hist["steps"][:idx + 1]
            ctx.violation(what, history_public(hist, steps), dict(detail, name=hist["name"], stream=tag, steps_in_replay=len(steps)))


def history_from_case(c):
    return {"name": c.get("name", "replay"), "shape": "given", "steps": c["steps"], "chems": c["chems"]}


# ============================================================================= explicit re-match stream ("xh")
# Templates whose pattern keeps an X-H bond when the reactor searches: the hydrogen cannot be folded into a count because it has
# no heavy neighbour on one side of the rule (H+ / H2 released or consumed), or the template is applied with `implicit_temp=True,
# explicit_h=False` (SynRule then strips nothing).  For these `SynReactor._glue_graph` goes through `_get_explicit_map`: the
# hydrogens of the matched host atoms are expanded and the pattern WITH its hydrogens is matched once more, every re-match is
# glued.  Corpus reactions almost never get there (their hydrogens are folded), so the population is written for it: rule-like
# templates (context atoms without hydrogens) of reaction classes with explicit hydrogen, most of them with a left-hand symmetry
# that the right-hand side breaks (one of two equal alpha positions is deprotonated, one of two equal X-H ends, one end of a
# C=C takes the hydrogen, ...) plus unbroken controls; substrates are generated by `decorate` with substituents drawn per open
# position (so the positions the template's symmetry exchanges usually differ chemically, and several placements of the pattern
# cover the same heavy atoms with different products) and a few written by hand.  Every template is applied in BOTH hydrogen
# modes (defaults / implicit_temp=True, explicit_h=False: the invariance the property states does not depend on the mode, cf.
# C03 'explicit-H and implicit-H modes'), as full ITS (3 of 4) or centre template, forwards and backwards, under k x k (template
# renumbering x substrate rewriting), repetition, all strategies, every raw match glued: gates G1-G5 as they are.  Some of the
# chemistries are also run as histories (one interpreter, renumberings that keep the label set, automorphism option, template
# objects shared) against their reference call.

def xh_templates():
    """-> [(name, mapped template, kind)] with kind in {'H+', 'H2', 'HX'} (what keeps the hydrogen explicit: H+ released, H2
    released / consumed, or only the implicit-template mode)."""
    out = []
    # H+ released from one of two equal carbon positions next to a bridge: X(H)-B-X >> X(-)-B-X . H+
    for name, bridge in (("ketone", "[C:2](=[O:3])"), ("thioketone", "[C:2](=[S:3])"), ("imine", "[C:2](=[N:3])"),
                         ("sulfoxide", "[S:2](=[O:3])"), ("sulfone", "[S:2](=[O:3])(=[O:6])"), ("ether", "[O:2]"),
                         ("thioether", "[S:2]"), ("amine", "[N:2]([C:3])"), ("methylene", "[C:2]"), ("phosphine_oxide", "[P:2](=[O:3])([C:6])")):
        out.append((f"deprot_alpha_{name}", f"[C:1]([H:4]){bridge}[C:5]>>[C-:1]{bridge}[C:5].[H+:4]", "H+"))
    # H+ released from one of two equal X-H ends of a chain (the other end: X-H or X-C in the substrate)
    for X in ("O", "N", "S"):
        for cname, chain in (("c2", "[C:2][C:3]"), ("c3", "[C:2][C:6][C:3]"), ("c1", "[C:2]"), ("acyl", "[C:2](=[O:6])[C:3]")):
            out.append((f"deprot_{X}H_{cname}", f"[H:5][{X}:1]{chain}[{X}:4]>>[{X}-:1]{chain}[{X}:4].[H+:5]", "H+"))
    # H+ consumed (as written: no X-H on the left; read backwards the pattern is the protonated side)
    for X in ("N", "O"):
        out.append((f"prot_{X}_c2", f"[{X}:1][C:2][C:3][{X}:4].[H+:5]>>[H:5][{X}+:1][C:2][C:3][{X}:4]", "H+"))
    # the same with every hydrogen of the exchanged positions written out: the left-hand side WITH its hydrogens is symmetric
    out += [
        ("deprot_OH_c2_allH", "[H:5][O:1][C:2][C:3][O:4][H:6]>>[O-:1][C:2][C:3][O:4][H:6].[H+:5]", "H+"),
        ("deprot_alpha_ketone_allH", "[H:4][C:1][C:2](=[O:3])[C:5][H:6]>>[C-:1][C:2](=[O:3])[C:5][H:6].[H+:4]", "H+"),
        ("dehydrogenation_ccc_allH", "[H:4][C:1][C:2]([H:5])[C:3][H:6]>>[C:1]=[C:2][C:3][H:6].[H:4][H:5]", "H2"),
        ("keto_enol_allH", "[H:6][C:1][C:2](=[O:3])[C:4][H:7]>>[C:1]=[C:2]([O:3][H:6])[C:4][H:7]", "HX"),
    ]
    out.append(("prot_alkene", "[C:1]=[C:2].[H+:3]>>[H:3][C:1][C+:2]", "H+"))
    out.append(("prot_enolate_C_or_O", "[C-:1][C:2]=[O:3].[H+:4]>>[H:4][C:1][C:2]=[O:3]", "H+"))
    # H2 released / consumed
    out += [
        ("dehydrogenation_ccc", "[C:1]([H:4])[C:2]([H:5])[C:3]>>[C:1]=[C:2][C:3].[H:4][H:5]", "H2"),
        ("dehydrogenation_cc_ctx", "[C:3][C:1]([H:5])[C:2]([H:6])[C:4]>>[C:3][C:1]=[C:2][C:4].[H:5][H:6]", "H2"),
        ("alcohol_oxidation", "[C:1]([H:3])[O:2][H:4]>>[C:1]=[O:2].[H:3][H:4]", "H2"),
        ("diol_mono_oxidation", "[H:5][O:1][C:2]([H:6])[C:3][O:4]>>[O:1]=[C:2][C:3][O:4].[H:5][H:6]", "H2"),
        ("amine_to_imine", "[C:3][N:1]([H:4])[C:2][H:5]>>[C:3][N:1]=[C:2].[H:4][H:5]", "H2"),
        ("diene_12_hydrogenation", "[C:1]=[C:2][C:3]=[C:4].[H:5][H:6]>>[C:1]([H:5])[C:2]([H:6])[C:3]=[C:4]", "H2"),
        ("diene_14_hydrogenation", "[C:1]=[C:2][C:3]=[C:4].[H:5][H:6]>>[H:5][C:1][C:2]=[C:3][C:4][H:6]", "H2"),
        ("alkyne_semi_hydrogenation", "[C:1]#[C:2].[H:3][H:4]>>[H:3][C:1]=[C:2][H:4]", "H2"),
        ("carbonyl_hydrogenation", "[C:1][C:2](=[O:3])[C:4].[H:5][H:6]>>[C:1][C:2]([H:5])([O:3][H:6])[C:4]", "H2"),
        ("dehydro_coupling_XH", "[C:1][O:2][H:3].[H:4][Si:5]>>[C:1][O:2][Si:5].[H:3][H:4]", "H2"),
        ("thiol_to_disulfide", "[C:1][S:2][H:3].[H:4][S:5][C:6]>>[C:1][S:2][S:5][C:6].[H:3][H:4]", "H2"),
    ]
    # hydrogen with a heavy neighbour on both sides: explicit re-match only with implicit_temp=True (ordinary path by default)
    for X in ("Br", "Cl", "I"):
        out.append((f"H{X}_addition", f"[C:1]=[C:2].[H:3][{X}:4]>>[H:3][C:1][C:2][{X}:4]", "HX"))
        out.append((f"H{X}_elimination", f"[C:1]([H:5])[C:2]([{X}:4])[C:3]>>[C:1]=[C:2][C:3].[H:5][{X}:4]", "HX"))
    out += [
        ("hydration", "[C:1]=[C:2].[H:3][O:4]>>[H:3][C:1][C:2][O:4]", "HX"),
        ("hydrothiolation", "[C:1]=[C:2].[H:3][S:4][C:5]>>[H:3][C:1][C:2][S:4][C:5]", "HX"),
        ("hydroamination", "[C:1][N:2]([H:6])[C:3].[C:4]=[C:5]>>[C:1][N:2]([C:3])[C:4][C:5][H:6]", "HX"),
        ("alkyne_HBr", "[C:1]#[C:2].[H:3][Br:4]>>[H:3][C:1]=[C:2][Br:4]", "HX"),
        ("diene_HBr_12", "[C:1]=[C:2][C:3]=[C:4].[H:5][Br:6]>>[H:5][C:1][C:2]([Br:6])[C:3]=[C:4]", "HX"),
        ("diene_HBr_14", "[C:1]=[C:2][C:3]=[C:4].[H:5][Br:6]>>[H:5][C:1][C:2]=[C:3][C:4][Br:6]", "HX"),
        ("keto_enol", "[H:6][C:1][C:2](=[O:3])[C:4]>>[C:1]=[C:2]([O:3][H:6])[C:4]", "HX"),
        ("allyl_shift", "[H:4][C:1][C:2]=[C:3]>>[C:1]=[C:2][C:3][H:4]", "HX"),
        ("amination", "[C:1][Cl:2].[N:3][H:4]>>[C:1][N:3].[Cl:2][H:4]", "HX"),
        ("diamine_mono_alkylation", "[H:7][N:1][C:2][C:3][N:4].[C:5][Br:6]>>[C:5][N:1][C:2][C:3][N:4].[H:7][Br:6]", "HX"),
        ("aldol", "[C:1][C:2](=[O:3])[C:4][H:7].[C:5]=[O:6]>>[C:1][C:2](=[O:3])[C:4][C:5][O:6][H:7]", "HX"),
        ("epoxide_opening_HX", "[C:1]1[O:2][C:3]1.[H:4][Cl:5]>>[H:4][O:2][C:1][C:3][Cl:5]", "HX"),
        ("ester_hydrolysis", "[C:1][C:2](=[O:3])[O:4][C:5].[H:6][O:7]>>[C:1][C:2](=[O:3])[O:7].[C:5][O:4][H:6]", "HX"),
    ]
    return out


# substrates written by hand (unsymmetrical where the template's left-hand side is symmetric): name -> {direction: [SMILES]}
XH_HAND = {
    "deprot_alpha_ketone": {"fw": ["CCC(C)=O", "CC(C)C(=O)CC"], "bw": ["[CH2-]C(=O)CC.[H+]"]},
    "deprot_alpha_ether": {"fw": ["CCOC", "COC(C)C.O"]},
    "deprot_alpha_sulfoxide": {"fw": ["CCS(C)=O"]},
    "deprot_OH_c2": {"fw": ["CC(O)CO", "OCC(C)(C)O"]},
    "deprot_NH_c2": {"fw": ["CC(N)CN", "CNCCN"]},
    "dehydrogenation_ccc": {"fw": ["CCC(C)C", "CCCC"]},
    "diol_mono_oxidation": {"fw": ["CC(O)CO", "OCC(O)c1ccccc1"]},
    "alcohol_oxidation": {"fw": ["CC(O)CCO"]},
    "diene_12_hydrogenation": {"fw": ["C=CC(C)=C.[H][H]"], "bw": ["CC(C)C=C", "CCC(C)=C"]},
    "diene_14_hydrogenation": {"fw": ["C=CC(C)=C.[H][H]"], "bw": ["CC=C(C)C"]},
    "HBr_addition": {"fw": ["CC=C.Br", "CC(C)=CC.Br"], "bw": ["CC(Br)CC"]},
    "HCl_addition": {"fw": ["C=C(C)C.Cl"]},
    "HBr_elimination": {"fw": ["CCC(C)Br", "CC(C)C(Br)CC"]},
    "hydration": {"fw": ["CC=C.O", "C=C(C)C.CO"]},
    "keto_enol": {"fw": ["CCC(C)=O"], "bw": ["CC=C(C)O"]},
    "diene_HBr_12": {"fw": ["C=CC(C)=C.Br"]},
    "diamine_mono_alkylation": {"fw": ["CC(N)CN.CBr"]},
    "epoxide_opening_HX": {"fw": ["CC1CO1.Cl"]},
    "prot_N_c2": {"fw": ["CC(N)CN.[H+]"], "bw": ["CC([NH3+])CN", "CC(N)C[NH3+]"]},
    "prot_alkene": {"fw": ["CC=C.[H+]"], "bw": ["C[CH+]C"]},
}


def xh_pattern_keeps_xh(tpl, core, invert, mode):
    """Decided from the inputs alone, for the input-distribution counters only: does the pattern the reactor searches with keep
    a heavy-atom-hydrogen bond (so that `_glue_graph` takes the explicit re-match)?  With `implicit_temp=True` SynRule strips
    nothing; by default it folds a hydrogen into its neighbour's count exactly when the hydrogen has a heavy neighbour on both
    sides of the rule (`reactor_inv_common.pattern_atom_mixed_h` reads the same rule)."""
    rs, ps = tpl.split(">>")
    ra, rb, _, _ = C._side_table(rs)
    _, pb, _, _ = C._side_table(ps)
    if core:
        changed = {e for e in set(rb) | set(pb) if rb.get(e, 0) != pb.get(e, 0)}
        rb = {e: o for e, o in rb.items() if e in changed}
        pb = {e: o for e, o in pb.items() if e in changed}
    left, right = (pb, rb) if invert else (rb, pb)
    el = {m: a[0] for m, a in ra.items()}

    def heavy_nbr(bonds, h):
        return any(el[v if u == h else u] != "H" for (u, v) in bonds if h in (u, v))

    for h in el:
        if el[h] == "H" and heavy_nbr(left, h) and (mode != "explicit" or not heavy_nbr(right, h)):
            return True
    return False


def xh_bases(ctx, n_sub):
    """(template, direction, hydrogen mode, centre / full ITS, substrate) quintuples of the stream; generated substrates: `n_sub`
    per (template, direction), decorated with substituents at 60% (then 35%, 15%) of the open carbon positions, at most max(10, side + 2) heavy atoms (8
    for the H2 templates; the re-match is run once per placement over the whole expanded substrate: cost grows with placements x
    hydrogens)."""
    from rdkit import Chem

    rnd = ctx.rnd
    bases = []
    for name, tpl, kind in xh_templates():
        info = C.analyze_reaction(tpl)
        if not info["ok"] or info["mode"] != "explicit":
            ctx.count("xh:template_unusable")   # a slip in the hand-written list: counted, never silently used in another mode
            continue
        for invert in (False, True):
            side = tpl.split(">>")[1 if invert else 0]
            subs = list(XH_HAND.get(name, {}).get("bw" if invert else "fw", []))
            n_hand = len(subs)
            n_side = sum(1 for a in C._side_table(side)[0].values() if a[0] != "H")
            cap = max(8 if kind == "H2" else 10, n_side + 2)
            for attempt in range(9 * n_sub):
                if len(subs) >= n_hand + n_sub:
                    break
                # fewer substituents when the first draws came out too large for the cap
                s = decorate(side, rnd, p_group=(0.6, 0.35, 0.15)[attempt // (3 * n_sub)], p_spectator=0.15, max_heavy=cap)
                if s and s not in subs:
                    subs.append(s)
            if len(subs) == n_hand:
                ctx.count("xh:template_direction_without_generated_substrate")
            for j, s in enumerate(subs):
                if Chem.MolFromSmiles(s) is None:
                    ctx.count("xh:substrate_unusable")
                    continue
                core = rnd.random() < 0.25
                for mode in ("explicit", "implicit"):
                    bases.append({"name": f"xh:{name}/{'centre' if core else 'its'}/{'bw' if invert else 'fw'}/{mode}/{'hand' if j < n_hand else 'gen'}{j}",
                                  "template": tpl, "core": core, "invert": invert, "mode": mode, "substrate": s, "family": "xh", "xh_kind": kind})
    return bases


def xh_stream(ctx, pool, k, n_sub, n_hist, timeout, full=True, p_control=0.34):
    """The case stream of the explicit re-match population (pool workers, gates G1-G5 through `run_cases`); every case whose pattern
    keeps an X-H bond and a seeded third of the others (controls: the ordinary path).  -> the histories drawn over the same
    chemistries, for `xh_history_stream`."""
    ctx.xh_before = len(ctx.violations)
    bases = []
    for b in xh_bases(ctx, n_sub):
        keeps = xh_pattern_keeps_xh(b["template"], b["core"], b["invert"], b["mode"])
        if not keeps and ctx.rnd.random() >= p_control:
            continue
        bases.append(b)
        ctx.count(f"xh:cases:{b['xh_kind']}:{b['mode']}")
        ctx.count("xh:cases_whose_pattern_keeps_X-H(explicit re-match):" + ("yes" if keeps else "no (control)"))
    # quick tier: k variants per case instead of k x k (one renumbering x k rewritings and k renumberings x one rewriting in turn)
    cases = [dict(b, tseeds=[ctx.rnd.randrange(1, 2**30) for _ in range(k if (full or i % 2) else 1)],
                  sseeds=[ctx.rnd.randrange(1, 2**30) for _ in range(k if (full or not i % 2) else 1)]) for i, b in enumerate(bases)]
    hists = build_histories(ctx, bases, n_hist) if n_hist else []
    run_cases(ctx, pool, cases, timeout, "xh")
    return hists


def xh_history_stream(ctx, hists, timeout):
    """Histories over the explicit re-match chemistries (fresh interpreter each, reference call per chemistry in its own)."""
    if hists:
        fpool = FreshPool()
        try:
            run_histories(ctx, fpool, hists, timeout, "xh-history")
        finally:
            fpool.close()
    ctx.obligation("explicit re-match population (X-H kept in the pattern: H+ / H2 templates, explicit-H templates in implicit-template mode; both "
                   "hydrogen modes): result sets invariant under template renumbering / substrate rewriting / repetition / history; comp within "
                   "all; bt = comp or all; pruning invisible", len(ctx.violations) == ctx.xh_before)


# ============================================================================= entry points, options, partial mode, wildcard templates
# Anchor coverage (coverage/C05.json): the streams above call the reactor in ONE form — SMILES substrate (graph stream: a plain
# networkx graph), ITS-graph template (histories: also string / forward SynRule), `SynReactor(...)`, lower-case strategy strings,
# every option at its default.  What `SynReactor` documents besides is driven here, each with the gates of the property:
#
#   forms    the same chemistry handed over in other documented forms — substrate as `SynGraph` / networkx graph (also with other
#            node ids and another insertion order), `SynReactor.from_smiles`, template as `SynRule` (also backwards: the reactor then
#            inverts the graph the rule was built from), as a renumbered graph, as a string, strategy as `Strategy` member / in
#            upper case, an explicit canonicaliser, `automorphism=True`; two more calls write the inputs another way (template
#            renumbered, substrate SMILES rewritten) AND hand them over in another form.  Gate F1: every form returns the result
#            set of the reference form (plus G3-G5 per call).  Explicit-H templates are also applied with `explicit_h=False` alone (the
#            third combination of the hydrogen flags; a configuration of its own: as written and rewritten, one result set).  Calls
#            that must fail (contradictory hydrogen flags, a substrate of an
#            unsupported type, strategy "partial" / unknown) are run for two writings: only 'raises for one writing, answers for
#            another' is gated.
#   opts     `embed_threshold` and `embed_pre_filter`: thresholds at and just below the number of embeddings (of the exhaustive and
#            of the component-aware search), 0; the pre-filter alone and with a threshold; hosts with as many components as the
#            pattern of which one / all are too small for a pattern component.  Expected raw match sets come from the Lean model
#            (`c06.search` on the graphs the reactor really searched: strategy, strict, threshold, pre_filter as coded); what the
#            pruning kept is judged by `pruneSpecB`; G1 (the same option on another writing of the inputs), G5.  G3/G4 only where
#            no threshold is set (a cap can empty the exhaustive search and leave the component-aware one: the documented guard).
#            Every fourth case also applies the EMPTY template (a graph without nodes: one empty match, the substrate comes back
#            unchanged; the component-aware search has a branch of its own for a pattern without components).
#            `SynReactor._prune_by_rule_automorphisms` is also called directly with `max_group` below / at the size of the rule's
#            automorphism group (through the public API that branch needs a rule with more than 5040 automorphisms, whose matches
#            exceed the default embedding cap): kept matches judged by `pruneSpecB`.
#   partial  `partial=True` (`PartialMatcher`: any non-empty subset of the pattern's components, placed disjointly; wildcard
#            atoms stand for the rest): substrates that hold all / only some components of a multi-component pattern.  G1, G2-like
#            re-read, G3/G4, G5 on the matcher's own matches, and G5p: gluing every match of an independent brute-force
#            enumeration of the specification (own back-tracking over labels `element`, `charge`, `hcount >=`, `order`; no VF2)
#            through the reactor's internals gives the same result set.
#   wild     templates with wildcard atoms (`[*:n]`: removed from the pattern before the search, put back as wildcard nodes while
#            gluing, dropped again when the reaction is written): hand-written ones and rule-like templates of the history
#            population with one or two context atoms replaced by `*`; ordinary cases (gates G1-G5 through `run_cases`).

COV_FORMS = (
    # label, substrate form, template form, constructor, strategy form, extra
    ("sub:SynGraph", "syngraph", "its", "init", "str", {}),
    ("sub:nx.Graph(other ids, other order)", "nx-relabelled", "its", "init", "str", {}),
    ("sub:SynGraph(other ids, other order)", "syngraph-relabelled", "its", "init", "str", {}),
    ("ctor:from_smiles", "str", "its", "from_smiles", "str", {}),
    ("tpl:SynRule", "str", "synrule", "init", "str", {}),
    ("tpl:graph(other ids, other order)", "str", "its-relabelled", "init", "str", {}),
    ("tpl:SynRule(other ids)+sub:SynGraph(other ids)", "syngraph-relabelled", "synrule-relabelled", "init", "str", {}),
    ("tpl:str", "str", "str", "init", "str", {}),
    ("strategy:enum", "str", "its", "init", "enum", {}),
    ("strategy:upper", "str", "its", "init", "upper", {}),
    ("canonicaliser:given", "str", "its", "init", "str", {"canonicaliser": True}),
    ("automorphism:True", "str", "its", "init", "str", {"kw": {"automorphism": True}}),
    ("ctor:from_smiles+enum+SynRule", "str", "synrule", "from_smiles", "enum", {}),
)
COV_ERRORS = (
    ("error:explicit_h with implicit_temp", {"kw": {"implicit_temp": True, "explicit_h": True}}),
    ("error:substrate of unsupported type", {"sub_form": "bad-type"}),
    ("error:strategy partial", {"strategy": "partial"}),
    ("error:unknown strategy", {"strategy": "exhaustive"}),
)
COV_STRATEGY_MEMBER = {"all": "ALL", "comp": "COMPONENT", "bt": "BACKTRACK"}
COV_SPEC_CAP = 3000     # brute-force partial specification: not evaluated beyond this many matches


def _cov_substrate(form, smiles, seed):
    if form == "str":
        return smiles
    if form == "bad-type":
        return 12345
    from synkit.Graph.canon_graph import GraphCanonicaliser
    from synkit.Graph.syn_graph import SynGraph
    from synkit.IO.chem_converter import smiles_to_graph

    g = smiles_to_graph(smiles, use_index_as_atom_map=False, drop_non_aam=False)   # what SynReactor._wrap_input builds from a string
    if g is None:
        raise ValueError("substrate SMILES does not parse")
    if "relabelled" in form:
        g = C._relabelled_copy(g, C._random_injection(g.nodes(), seed), seed + 1)
    return SynGraph(g, GraphCanonicaliser()) if form.startswith("syngraph") else g


def _cov_template(form, rsmi, core, mode, seed):
    if form == "str":
        return rsmi
    if form == "empty":
        import networkx as nx

        return nx.Graph()   # the empty rule: one (empty) match, the substrate is returned unchanged
    from synkit.Graph.canon_graph import GraphCanonicaliser
    from synkit.IO.chem_converter import rsmi_to_its
    from synkit.Rule import SynRule

    tpl = rsmi_to_its(rsmi, core=core)
    if "relabelled" in form:
        tpl = C._relabelled_copy(tpl, C._random_injection(tpl.nodes(), seed + 7), seed + 8)
    if form.startswith("synrule"):
        # the SynRule the reactor would build itself from the graph (SynReactor._wrap_template, forward)
        tpl = (SynRule(tpl, canonicaliser=GraphCanonicaliser(), implicit_h=False) if mode != "explicit"
               else SynRule(tpl, canonicaliser=GraphCanonicaliser()))
    return tpl


def _bf_partial_spec(host, pattern, cap=COV_SPEC_CAP):
    """The specification of the partial matcher's answer, enumerated by plain back-tracking (no VF2, no SynKit): every union of
    label-preserving monomorphisms (node: `element`, `charge` equal, `hcount` of the host >= that of the pattern; edge: `order`
    equal; further host edges allowed) of a NON-EMPTY subset of the pattern's connected components into the host with pairwise
    disjoint images.  -> list of dicts pattern node -> host node, or None beyond `cap`."""
    import itertools
    import networkx as nx

    def node_ok(p, h):
        a, b = pattern.nodes[p], host.nodes[h]
        return a.get("element") == b.get("element") and a.get("charge") == b.get("charge") and b.get("hcount", 0) >= a.get("hcount", 0)

    per_comp = []
    for comp in nx.connected_components(pattern):
        start = min(comp, key=repr)
        order = list(nx.bfs_tree(pattern.subgraph(comp), start))   # every node after the first has an earlier neighbour
        found = []

        def extend(i, m, used):
            if len(found) > cap:
                return
            if i == len(order):
                found.append(dict(m))
                return
            p = order[i]
            for h in host.nodes:
                if h in used or not node_ok(p, h):
                    continue
                if all(host.has_edge(h, m[q]) and host[h][m[q]].get("order") == pattern[p][q].get("order") for q in pattern[p] if q in m):
                    m[p] = h
                    used.add(h)
                    extend(i + 1, m, used)
                    used.discard(h)
                    del m[p]

        extend(0, {}, set())
        if len(found) > cap:
            return None
        per_comp.append(found)
    out = []
    for k in range(len(per_comp), 0, -1):
        for combo in itertools.combinations(range(len(per_comp)), k):
            def place(j, acc, used):
                if len(out) > cap:
                    return
                if j == len(combo):
                    out.append(dict(acc))
                    return
                for emb in per_comp[combo[j]]:
                    img = set(emb.values())
                    if img & used:
                        continue
                    place(j + 1, {**acc, **emb}, used | img)
            place(0, {}, set())
            if len(out) > cap:
                return None
    return out


def _cov_fit_all(std, smarts):
    res = set()
    for s in smarts:
        try:
            f = std.fit(s)
        except Exception:  # noqa: BLE001 - an output the normal form cannot read is not a distinct reaction
            f = None
        if f is not None:
            res.add(f)
    return sorted(res)


def _cov_run(sr, std, task, call, strategy):
    """One SynReactor run of a call: the call's form of substrate / template / strategy / constructor and its options."""
    import networkx as nx
    from synkit.Graph.canon_graph import GraphCanonicaliser
    from synkit.Synthesis.Reactor.strategy import Strategy

    searches, partials = [], []
    orig, orig_pm = sr.SubgraphSearchEngine, sr.PartialMatcher

    class Recorder(orig):  # records what the search returned before pruning
        @staticmethod
        def find_subgraph_mappings(*a, **k):
            r = orig.find_subgraph_mappings(*a, **k)
            searches.append((r, k.get("host", a[0] if a else None), k.get("pattern", a[1] if len(a) > 1 else None)))
            return r

    class PartialRecorder(orig_pm):  # partial mode: the matcher's own answer
        def get_mappings(self):
            r = orig_pm.get_mappings(self)
            partials.append((r, self.hosts[0], self.pattern))
            return r

    seed = call.get("seed", 1)
    mode = task["mode"]
    sub = _cov_substrate(call.get("sub_form", "str"), call["substrate"], seed)
    tpl = _cov_template(call.get("tpl_form", "its"), call["template"], task["core"], mode, seed)
    kw = dict(C._mode_kwargs(mode))
    kw.update(call.get("kw") or {})
    if call.get("canonicaliser"):
        kw["canonicaliser"] = GraphCanonicaliser()
    sform = call.get("strat_form", "str")
    strat = call.get("strategy") or strategy
    strat = getattr(Strategy, COV_STRATEGY_MEMBER[strat]) if sform == "enum" else strat.upper() if sform == "upper" else strat
    if call.get("ctor") == "from_smiles":
        reactor = sr.SynReactor.from_smiles(sub, tpl, invert=task["invert"], strategy=strat, **kw)
    else:
        reactor = sr.SynReactor(sub, tpl, invert=task["invert"], strategy=strat, **kw)
    sr.SubgraphSearchEngine, sr.PartialMatcher = Recorder, PartialRecorder
    try:
        kept = reactor.mappings
    finally:
        sr.SubgraphSearchEngine, sr.PartialMatcher = orig, orig_pm
    partial = bool(kw.get("partial"))
    rec = partials if partial else searches
    raw, h, p = (rec[0] if rec else (None, None, None))
    raw = None if raw is None else [dict(m) for m in raw]
    first = _cov_fit_all(std, list(reactor.smarts_list))
    out = {"results": first, "n_map": len(kept), "n_raw": None if raw is None else len(raw),
           "reread_equal": _cov_fit_all(std, list(reactor.smarts_list)) == first}
    small = raw is not None and h is not None and p is not None and h.number_of_nodes() <= 60 and p.number_of_nodes() <= 45 and len(raw) <= 400
    ints = small and all(isinstance(n, int) for n in h.nodes) and all(isinstance(n, int) for n in p.nodes)
    if call.get("want_graphs") and ints and not partial:
        out["host"], out["pattern"] = C._enc_graph(h), C._enc_graph(p)
        out["raw"] = sorted(sorted([int(a), int(b)] for a, b in m.items()) for m in raw)
        # inputs of the PruneSpec gate (as reactor_inv_common._graph_run): the rule's automorphisms enumerated afresh
        rcg = reactor.rule.rc.raw
        keep = list(p.nodes())
        keepset = set(keep)
        gm = nx.algorithms.isomorphism.GraphMatcher(
            rcg, rcg, node_match=lambda a, b: a.get("typesGH") == b.get("typesGH"), edge_match=lambda a, b: a.get("order") == b.get("order"))
        group = []
        for sigma in gm.isomorphisms_iter():
            group.append(sorted([int(x), int(y)] for x, y in sigma.items() if x in keepset))
            if len(group) > 60:
                group = None
                break
        if group is not None and len(raw) <= 200:
            enc = lambda ms: [sorted([int(a), int(b)] for a, b in m.items()) for m in ms]   # noqa: E731
            out["prune"] = {"keep": [int(x) for x in keep], "group": group, "raw_ordered": enc(raw), "kept_ordered": enc(kept)}
            if call.get("prune_units") and len(raw) >= 2 and hasattr(sr.SynReactor, "_prune_by_rule_automorphisms"):
                units = []
                for g in sorted({0, 1, max(len(group) - 1, 0), len(group)}):
                    ku = sr.SynReactor._prune_by_rule_automorphisms([dict(m) for m in raw], rcg, list(keep), max_group=g)
                    units.append({"max_group": g, "kept_ordered": enc(ku)})
                out["prune"]["units"] = units
    if raw is not None and call.get("want_raw", True):
        # glue EVERY raw match through the reactor's own internals (no pruning)
        reactor._mappings = [dict(m) for m in raw]
        reactor._its = None
        reactor._smarts = None
        out["results_raw"] = _cov_fit_all(std, reactor.smarts_list)
    if partial and raw is not None and small:
        spec = _bf_partial_spec(h, p)
        if spec is None:
            out["spec"] = "too large"
        else:
            key = lambda m: json.dumps(sorted([repr(a), repr(b)] for a, b in m.items()))   # noqa: E731
            out["spec"] = {"n": len(spec), "equal": sorted(map(key, spec)) == sorted(map(key, raw)),
                           "n_full": sum(1 for m in spec if len(m) == p.number_of_nodes()),
                           "pattern_components": nx.number_connected_components(p)}
            reactor._mappings = spec
            reactor._its = None
            reactor._smarts = None
            out["results_spec"] = _cov_fit_all(std, reactor.smarts_list)
    return out


def _cov_resolve(v, ref):
    """Symbolic option values -> numbers, from the reference call of the case: 'n' / 'n-1' (embeddings found by the exhaustive
    search), 'nc-1' (by the component-aware search)."""
    if not isinstance(v, str):
        return v
    n = (ref or {}).get("all", {}).get("n_raw") or 0
    nc = (ref or {}).get("comp", {}).get("n_raw") or 0
    return {"n": n, "n-1": max(n - 1, 0), "nc-1": max(nc - 1, 0), "n+1": n + 1}[v]


def cov_task(task):
    """Worker entry.  task: {key, template, core, invert, mode, substrate, timeout, calls: [call...]}; the first call is the reference
    (string substrate, ITS graph, defaults).  call: {label, group, template, substrate, sub_form, tpl_form, strat_form, ctor, kw,
    canonicaliser, strategy, seed, want_graphs, prune_units, expect_error}.  Every call is run for all three strategies (one run
    when it names its own `strategy`); an exception is the call's outcome."""
    t0 = time.time()
    out = {"key": task["key"], "status": "ok", "calls": []}
    import synkit.Synthesis.Reactor.syn_reactor as sr
    from synkit.Chem.Reaction.standardize import Standardize

    std = Standardize()
    ref = None
    for call in task["calls"]:
        C._ALARM["fired"] = False
        res = {"status": "ok", "runs": {}}
        kw = {k: _cov_resolve(v, ref) for k, v in (call.get("kw") or {}).items()}
        call = dict(call, kw=kw)
        res["kw"] = kw
        try:
            C.signal.setitimer(C.signal.ITIMER_REAL, float(task.get("timeout", 30)))
            for strat in ([call["strategy"]] if call.get("strategy") else C.STRATEGIES):
                res["runs"][strat] = _cov_run(sr, std, task, call, strat)
        except C.CaseTimeout:
            res["status"] = "timeout"
        except Exception as e:  # noqa: BLE001 - an exception of the implementation is a result, not a crash
            res["status"] = "error:" + type(e).__name__
            res["error"] = str(e)[:300]
        finally:
            C.signal.setitimer(C.signal.ITIMER_REAL, 0)
        if C._ALARM["fired"]:
            res["status"] = "timeout"
        if ref is None and res["status"] == "ok":
            ref = res["runs"]
        out["calls"].append(res)
        if res["status"] == "timeout":
            out["status"] = "timeout"
            break  # what follows would run in a state the time-out left behind
    out["wall"] = round(time.time() - t0, 3)
    return out


# ----------------------------------------------------------------------------- populations of the cov streams
WILD_TEMPLATES = [
    # name, template, substrates forward, substrates backward
    ("ester_hydrolysis_R", "[*:1][C:2](=[O:3])[O:4][C:5].[OH2:6]>>[*:1][C:2](=[O:3])[OH:6].[C:5][OH:4]",
     ["CC(=O)OC.O", "CCOC(=O)CC(=O)OC.O", "COC(=O)c1ccccc1.O"], ["CC(=O)O.CO", "OC(=O)CC(=O)O.CO"]),
    ("ether_cleavage_R", "[C:1][O:2][*:3].[OH2:4]>>[C:1][OH:4].[OH:2][*:3]", ["CCOC.O", "COC(C)=O.O", "COCCOC.O"], ["CCO.CO", "OCCO.CO"]),
    ("amide_R_R", "[*:1][C:2](=[O:3])[Cl:4].[*:5][NH2:6]>>[*:1][C:2](=[O:3])[NH:6][*:5].[ClH:4]",
     ["CC(=O)Cl.CN", "ClC(=O)CC(=O)Cl.NCCN"], ["CC(=O)NC.Cl", "CNC(=O)CC(=O)NC.Cl"]),
    ("sn2_R", "[*:1][CH2:2][Br:3].[OH-:4]>>[*:1][CH2:2][OH:4].[Br-:3]", ["CCBr.[OH-]", "BrCCCBr.[OH-]"], ["CCO.[Br-]", "OCCCO.[Br-]"]),
    ("ketone_hydrogenation_R_R", "[*:1][C:2](=[O:3])[*:4].[H:5][H:6]>>[*:1][C:2]([H:5])([O:3][H:6])[*:4]", ["CC(=O)CC.[H][H]"], ["CC(O)CC"]),
    ("silyl_chloride_R3", "[*:1][Si:2]([*:3])([*:4])[Cl:5].[OH2:6]>>[*:1][Si:2]([*:3])([*:4])[OH:6].[ClH:5]",
     ["C[Si](C)(CC)Cl.O"], ["C[Si](C)(CC)O.Cl"]),
    ("aldol_R", "[*:1][C:2](=[O:3])[CH:4].[C:5]=[O:6]>>[*:1][C:2](=[O:3])[C:4][C:5][OH:6]", ["CCC(=O)CC.C=O", "CC(=O)C.CC=O"], ["CC(=O)CC(C)O"]),
    ("diol_monoacylation_R", "[OH:1][C:2][C:3][OH:4].[*:8][C:5](=[O:6])[Cl:7]>>[OH:1][C:2][C:3][O:4][C:5](=[O:6])[*:8].[ClH:7]",
     ["CC(O)CO.CC(=O)Cl"], ["CC(O)COC(C)=O.Cl"]),
]


def wildcardise(tpl, rnd):
    """A rule-like template with one or two of its context atoms (not in the centre, written without hydrogens / charge, one
    neighbour) replaced by the wildcard `*`, on both sides.  -> template or None"""
    import re

    labels, el, centre = label_tables(tpl)
    rs, ps = tpl.split(">>")
    _, rb, _, _ = C._side_table(rs)
    _, pb, _, _ = C._side_table(ps)
    deg = {m: max(sum(1 for e in b if m in e) for b in (rb, pb)) for m in labels}
    cand = [m for m in labels if m not in centre and deg[m] == 1 and el[m] != "H" and re.search(r"\[%s:%d\]" % (re.escape(el[m]), m), tpl)]
    if not cand:
        return None
    for m in rnd.sample(cand, min(len(cand), rnd.choice((1, 1, 2)))):
        tpl = re.sub(r"\[%s:%d\]" % (re.escape(el[m]), m), "[*:%d]" % m, tpl)
    info = C.analyze_reaction(tpl)
    return tpl if info["ok"] and info["mode"] != "mixed" else None


def wild_cases(ctx, chems, k, n_gen):
    """Wildcard-template cases: the hand-written ones (full ITS; every second also as centre template = control without wildcard)
    and `n_gen` rule-like chemistries of the history population (full ITS) with context atoms replaced by `*`."""
    rnd = ctx.rnd
    out = []

    def seeds():
        return [rnd.randrange(1, 2**30) for _ in range(k)]

    for i, (name, tpl, fw, bw) in enumerate(WILD_TEMPLATES):
        info = C.analyze_reaction(tpl)
        if not info["ok"] or info["mode"] == "mixed":
            ctx.count("wild:template_unusable")
            continue
        for invert, subs in ((False, fw), (True, bw)):
            for j, s in enumerate(subs):
                core = (i + j) % 4 == 3
                out.append({"name": f"wild:{name}/{'centre' if core else 'its'}/{'bw' if invert else 'fw'}/{j}", "template": tpl, "core": core,
                            "invert": invert, "mode": info["mode"], "substrate": s, "tseeds": seeds(), "sseeds": seeds(), "wild": "hand"})
    pool = [c for c in chems if c["family"] in ("star", "rule") and not c["core"]]
    rnd.shuffle(pool)
    n = 0
    for c in pool:
        if n >= n_gen:
            break
        w = wildcardise(c["template"], rnd)
        if w is None:
            continue
        n += 1
        out.append({"name": "wild:" + c["name"], "template": w, "core": False, "invert": c["invert"], "mode": C.analyze_reaction(w)["mode"],
                    "substrate": c["substrate"], "tseeds": seeds(), "sseeds": seeds(), "wild": "generated"})
    return out


def xh_hand_chems():
    """The explicit re-match templates on their hand-written substrates (explicit hydrogen mode, full ITS), as chemistries of family 'xh'."""
    tpls = {name: tpl for name, tpl, _ in xh_templates()}
    out = []
    for name in sorted(XH_HAND):
        info = C.analyze_reaction(tpls[name])
        if not info["ok"] or info["mode"] != "explicit":
            continue
        for d in sorted(XH_HAND[name]):
            for j, s in enumerate(XH_HAND[name][d]):
                out.append(_chem(f"xh:{name}/its/{d}/hand{j}", tpls[name], False, d == "bw", "explicit", s, "xh"))
    return out


def _cov_pick(ctx, chems, n, max_heavy, want=lambda c: True):
    """`n` chemistries, by strata of the history population (star / rule / extra / corpus in turn), substrates of <= max_heavy atoms."""
    rnd = ctx.rnd
    by = {}
    for c in chems:
        if want(c):
            by.setdefault(c["family"], []).append(c)
    for v in by.values():
        rnd.shuffle(v)
    out, fams, i = [], [f for f in ("star", "rule", "extra", "corpus", "wild", "xh") if by.get(f)], 0
    while fams and len(out) < n:
        f = fams[i % len(fams)]
        i += 1
        if not by[f]:
            fams.remove(f)
            i = 0
            continue
        c = by[f].pop()
        h = _heavy_atoms(c["substrate"])
        if h is not None and h <= max_heavy:
            out.append(c)
    return out


def _rewritten(ctx, chem):
    """Another writing of the chemistry: template renumbered (all labels), substrate SMILES rewritten."""
    try:
        tpl = C.renumber_reaction(chem["template"], ctx.rnd.randrange(1, 2**30))
    except C.RewriteFailed:
        tpl = chem["template"]
    return tpl, C.rewrite_smiles(chem["substrate"], ctx.rnd.randrange(1, 2**30))


def forms_cases(ctx, chems, n):
    rnd = ctx.rnd
    cases = []
    for i, c in enumerate(_cov_pick(ctx, chems, n, 30)):
        calls = [{"label": "reference", "group": "forms", "template": c["template"], "substrate": c["substrate"], "want_raw": True}]
        for label, sub_form, tpl_form, ctor, sform, extra in COV_FORMS:
            if tpl_form == "str" and c["core"]:
                continue   # a string is read as the full ITS
            calls.append(dict({"label": label, "group": "forms", "template": c["template"], "substrate": c["substrate"], "sub_form": sub_form,
                               "tpl_form": tpl_form, "ctor": ctor, "strat_form": sform, "seed": rnd.randrange(1, 2**30), "want_raw": False}, **extra))
        for _ in range(2):   # another writing AND another form
            tpl, sub = _rewritten(ctx, c)
            label, sub_form, tpl_form, ctor, sform, extra = rnd.choice([f for f in COV_FORMS if f[2] != "str"])
            if ctor == "from_smiles":
                sub_form = "str"
            calls.append(dict({"label": "rewritten+" + label, "group": "forms", "template": tpl, "substrate": sub, "sub_form": sub_form,
                               "tpl_form": tpl_form, "ctor": ctor, "strat_form": sform, "seed": rnd.randrange(1, 2**30), "want_raw": False}, **extra))
        if c["mode"] == "explicit":
            # the third combination of the hydrogen flags (template with explicit hydrogens, results not re-expanded): a configuration of
            # its own, so a group of its own — two writings, one result set
            tpl, sub = _rewritten(ctx, c)
            for t, s in ((c["template"], c["substrate"]), (tpl, sub)):
                calls.append({"label": "flags:explicit_h=False", "group": "flags:explicit_h=False", "template": t, "substrate": s,
                              "kw": {"explicit_h": False}, "want_raw": True})
        if i % 3 == 0:
            tpl, sub = _rewritten(ctx, c)
            for label, extra in COV_ERRORS:
                for t, s in ((c["template"], c["substrate"]), (tpl, sub)):
                    calls.append(dict({"label": label, "group": label, "template": t, "substrate": s, "expect_error": True, "want_raw": False,
                                       "strategy": extra.get("strategy", "all")}, **{k: v for k, v in extra.items() if k != "strategy"}))
        cases.append(dict(c, stream="forms", calls=calls))
    return cases


COV_OPTS = (
    ("pre_filter", {"embed_pre_filter": True}),
    ("threshold=n", {"embed_threshold": "n"}),
    ("threshold=n-1", {"embed_threshold": "n-1"}),
    ("threshold=nc-1", {"embed_threshold": "nc-1"}),
    ("threshold=0", {"embed_threshold": 0}),
    ("threshold=n,pre_filter", {"embed_threshold": "n", "embed_pre_filter": True}),
    ("threshold=n+1", {"embed_threshold": "n+1"}),
)


def undersized(chem, which):
    """The chemistry on a host with as many components as its substrate of which the largest (`which`='one') or every one ('all')
    is a single heavy atom: a pattern component then finds no host component of its size."""
    frags = chem["substrate"].split(".")
    if len(frags) < 2:
        return None
    tiny = ["C", "O", "N", "Cl", "S"]
    if which == "one":
        big = max(range(len(frags)), key=lambda i: (_heavy_atoms(frags[i]) or 0, -i))
        frags = [("C" if i == big else f) for i, f in enumerate(frags)]
    else:
        frags = [tiny[i % len(tiny)] for i in range(len(frags))]
    return dict(chem, substrate=".".join(frags), name=chem["name"] + "/undersized-" + which)


def opts_cases(ctx, chems, n, n_small):
    rnd = ctx.rnd
    picked = _cov_pick(ctx, chems, n, 22)
    multi = [c for c in chems if "." in c["substrate"]]
    rnd.shuffle(multi)
    small = [u for c in multi[:n_small] for u in (undersized(c, rnd.choice(("one", "all"))),) if u]
    cases = []
    for c in picked + small:
        tpl, sub = _rewritten(ctx, c)
        calls = [{"label": "reference", "group": "defaults", "template": c["template"], "substrate": c["substrate"], "want_graphs": True,
                  "prune_units": True, "want_raw": True},
                 {"label": "rewritten", "group": "defaults", "template": tpl, "substrate": sub, "want_raw": False}]
        opts = list(COV_OPTS) if ctx.quick is False else [COV_OPTS[0]] + rnd.sample(COV_OPTS[1:], 3)
        for label, kw in opts:
            calls.append({"label": label, "group": label, "template": c["template"], "substrate": c["substrate"], "kw": dict(kw),
                          "want_graphs": True, "want_raw": True})
            calls.append({"label": label + "/rewritten", "group": label, "template": tpl, "substrate": sub, "kw": dict(kw), "want_raw": False})
        if len(cases) % 4 == 0:   # the empty template (no atom at all: the component-aware search answers [{}] for a pattern without components)
            calls.append({"label": "empty template", "group": "empty template", "template": c["template"], "substrate": c["substrate"],
                          "tpl_form": "empty", "want_graphs": True, "want_raw": True})
            calls.append({"label": "empty template/rewritten", "group": "empty template", "template": tpl, "substrate": sub, "tpl_form": "empty",
                          "want_raw": False})
        cases.append(dict(c, stream="opts", calls=calls))
    return cases


def partial_cases(ctx, chems, n):
    """Multi-component patterns on substrates that hold every component / lack one of them, `partial=True`."""
    rnd = ctx.rnd

    def multi(c):
        return "." in c["template"].split(">>")[1 if c["invert"] else 0] and "." in c["substrate"]

    cases = []
    for i, c in enumerate(_cov_pick(ctx, chems, n, 12, multi)):
        if i % 3 != 2:   # two of three: one fragment of the substrate left out
            frags = c["substrate"].split(".")
            frags.pop(rnd.randrange(len(frags)))
            c = dict(c, substrate=".".join(frags), name=c["name"] + "/fragment-left-out")
        calls = [{"label": "reference", "group": "partial", "template": c["template"], "substrate": c["substrate"], "kw": {"partial": True}}]
        for _ in range(2):
            tpl, sub = _rewritten(ctx, c)
            calls.append({"label": "rewritten", "group": "partial", "template": tpl, "substrate": sub, "kw": {"partial": True}})
        cases.append(dict(c, stream="partial", calls=calls))
    return cases


# ----------------------------------------------------------------------------- judging the cov streams
def cov_public(case, calls=None):
    return {"stream": case["stream"], "template": case["template"], "core": case["core"], "invert": case["invert"], "mode": case["mode"],
            "substrate": case["substrate"], "calls": case["calls"] if calls is None else calls}


def _relations(runs, cmp, where):
    bad = []
    a, c, b = (set(runs[s]["results"]) for s in ("all", "comp", "bt"))
    if not cmp.subset(c, a):
        bad.append(("G3 component-aware results are not a subset of the exhaustive results", dict(where, extra=sorted(c - a)[:6])))
    if c and not cmp.equal(b, c):
        bad.append(("G4 fallback strategy differs from the non-empty component-aware result", dict(where, comp=len(c), bt=len(b))))
    if runs["comp"]["n_raw"] == 0 and not cmp.equal(b, a):
        bad.append(("G4 fallback strategy differs from the exhaustive result although the component-aware search found nothing",
                    dict(where, all=len(a), bt=len(b))))
    if not cmp.subset(b, a):
        bad.append(("G4 fallback results are not a subset of the exhaustive results", dict(where, extra=sorted(b - a)[:6])))
    return bad


def cov_judge_case(case, res, cmp):
    """-> [(what, detail, indices of the calls involved)] — the gates of the property on one case of a cov stream."""
    bad = []
    calls = case["calls"]
    groups = {}
    for i, (call, r) in enumerate(zip(calls, res["calls"])):
        groups.setdefault(call["group"], []).append(i)
    for g, idx in groups.items():
        ok = [i for i in idx if res["calls"][i]["status"] == "ok"]
        err = [i for i in idx if res["calls"][i]["status"].startswith("error")]
        if ok and err:
            i, j = err[0], ok[0]
            bad.append(("G1 rule application raises for one writing / form of the inputs and answers for another",
                        {"group": g, "raises": calls[i]["label"], "error": res["calls"][i]["status"][6:], "message": res["calls"][i].get("error"),
                         "answers": calls[j]["label"], "options": res["calls"][i].get("kw")}, [j, i]))
        if len({res["calls"][i]["status"] for i in err}) > 1:
            bad.append(("G1 rule application raises different exceptions for two writings of the same inputs",
                        {"group": g, "statuses": sorted({res["calls"][i]["status"] for i in err})}, err[:2]))
        if not ok:
            continue
        r0 = ok[0]
        for i in ok[1:]:
            for strat in res["calls"][r0]["runs"]:
                base, got = res["calls"][r0]["runs"][strat]["results"], res["calls"][i]["runs"][strat]["results"]
                if not cmp.equal(got, base):
                    what = ("F1 result set depends on the form in which substrate / template / strategy / options are handed over"
                            if case["stream"] == "forms" and calls[i]["template"] == calls[r0]["template"] and calls[i]["substrate"] == calls[r0]["substrate"]
                            else "G1 result set depends on how template / substrate are written")
                    bad.append((what, {"group": g, "strategy": strat, "reference": calls[r0]["label"], "variant": calls[i]["label"],
                                       "options": res["calls"][i].get("kw"), "n_reference": len(base), "n_variant": len(got),
                                       "only_reference": sorted(set(base) - set(got))[:6], "only_variant": sorted(set(got) - set(base))[:6]}, [r0, i]))
                    break
        for i in ok:
            runs, call = res["calls"][i]["runs"], calls[i]
            where = {"call": call["label"], "options": res["calls"][i].get("kw"), "template": call["template"], "substrate": call["substrate"]}
            for strat, rr in runs.items():
                if not rr["reread_equal"]:
                    bad.append(("G2 repeating the call changes the result set", dict(where, strategy=strat), [i]))
                if "results_raw" in rr and not cmp.equal(rr["results_raw"], rr["results"]):
                    bad.append(("G5 symmetry pruning changes the set of distinct reactions",
                                dict(where, strategy=strat, raw_matches=rr["n_raw"], kept_matches=rr["n_map"], with_pruning=len(rr["results"]),
                                     every_raw_match=len(rr["results_raw"]), lost=sorted(set(rr["results_raw"]) - set(rr["results"]))[:6],
                                     gained=sorted(set(rr["results"]) - set(rr["results_raw"]))[:6]), [i]))
                if "results_spec" in rr and not cmp.equal(rr["results_spec"], rr["results"]):
                    bad.append(("G5p partial mode: the result set differs from gluing every partial match of the specification (brute force)",
                                dict(where, strategy=strat, matcher_matches=rr["n_raw"], kept_matches=rr["n_map"], specification_matches=rr["spec"]["n"],
                                     with_matcher=len(rr["results"]), every_specification_match=len(rr["results_spec"]),
                                     lost=sorted(set(rr["results_spec"]) - set(rr["results"]))[:6],
                                     gained=sorted(set(rr["results"]) - set(rr["results_spec"]))[:6]), [i]))
            thr = (res["calls"][i].get("kw") or {}).get("embed_threshold")
            if len(runs) == len(C.STRATEGIES) and thr is None:
                bad += [(w, d, [i]) for w, d in _relations(runs, cmp, where)]
    return bad


def cov_stream(ctx, pool, cases, timeout, tag):
    """Run the cases of one cov stream, gate them, and (opts) compare the recorded searches with the Lean model."""
    tasks = [{"key": f"{tag}{i}", "template": c["template"], "core": c["core"], "invert": c["invert"], "mode": c["mode"],
              "substrate": c["substrate"], "calls": c["calls"], "timeout": timeout} for i, c in enumerate(cases)]
    results = pool.run(tasks, cov_task)
    before = len(ctx.violations)
    reqs, owners = [], []
    sel = {"node_keys": C.MATCH_NODE_KEYS, "edge_keys": C.MATCH_EDGE_KEYS}
    for case, res in zip(cases, results):
        ctx.count(f"{tag}:case_status:" + res["status"])
        ref = res["calls"][0] if res["calls"] else None
        if ref is None or ref["status"] != "ok":
            ctx.count(f"{tag}:cases_skipped(reference call " + (ref["status"].split(":")[0] if ref else "missing") + ")")
            continue
        n_all = len(ref["runs"]["all"]["results"])
        n_raw = ref["runs"]["all"]["n_raw"] or 0
        ctx.count(f"{tag}:cases")
        ctx.count(f"{tag}:family:" + case.get("family", "?"))
        if "/undersized-" in case.get("name", ""):
            ctx.count(f"{tag}:hosts_with_a_component_count_of_the_substrate_but_too_small_for_a_pattern_component")
        if "/fragment-left-out" in case.get("name", ""):
            ctx.count(f"{tag}:substrates_with_one_fragment_left_out")
        ctx.count(f"{tag}:template:" + ("centre" if case["core"] else "full_its"))
        ctx.count(f"{tag}:direction:" + ("backward" if case["invert"] else "forward"))
        ctx.count(f"{tag}:mode:" + case["mode"])
        ctx.count(f"{tag}:results_all:" + ("0" if n_all == 0 else "1" if n_all == 1 else "2-4" if n_all <= 4 else "5+"))
        ctx.count(f"{tag}:raw_matches_all:" + ("0" if n_raw == 0 else "1" if n_raw == 1 else "2-9" if n_raw <= 9 else "10+"))
        for call, r in zip(case["calls"], res["calls"]):
            st = r["status"].split(":")[0]
            ctx.count(f"{tag}:call:{call['label'].split('/')[0]}:{st}" + (":" + r["status"][6:] if st == "error" and call.get("expect_error") else ""))
            if st == "error" and not call.get("expect_error"):
                ctx.count("impl_exception:" + r["status"][6:])
            if st != "ok":
                continue
            kw = r.get("kw") or {}
            for strat, rr in r["runs"].items():
                if "embed_threshold" in kw or "embed_pre_filter" in kw:
                    n0 = ref["runs"].get(strat, {}).get("n_raw") or 0
                    ctx.count(f"{tag}:option_effect:" + ("search emptied by the guard" if n0 and not rr["n_raw"] else
                                                         "search unchanged" if n0 == (rr["n_raw"] or 0) else "search changed otherwise"))
                if isinstance(rr.get("spec"), dict):
                    ctx.count(f"{tag}:spec_matches:" + ("0" if not rr["spec"]["n"] else "1-9" if rr["spec"]["n"] <= 9 else "10+"))
                    ctx.count(f"{tag}:spec_matches_that_leave_out_a_component:" + ("some" if rr["spec"]["n_full"] < rr["spec"]["n"] else "none"))
                    ctx.count(f"{tag}:matcher_matches_equal_specification:" + ("yes" if rr["spec"]["equal"] else "no (not gated; G5p decides)"))
                    if rr["n_map"] < (rr["n_raw"] or 0):
                        ctx.count(f"{tag}:runs_where_pruning_removed_matches")
                elif rr.get("spec"):
                    ctx.count(f"{tag}:spec_not_evaluated(too large)")
                if "raw" in rr:
                    cfg = {"strategy": strat, "max_results": None, "strict": True, "threshold": kw.get("embed_threshold"),
                           "pre_filter": bool(kw.get("embed_pre_filter"))}
                    reqs.append(dict(cmd="c06.search", host=rr["host"], pattern=rr["pattern"], cfgs=[cfg], **sel))
                    owners.append(("search", case, call, r, strat, rr))
                    pr = rr.get("prune")
                    if pr is not None:
                        reqs.append(dict(cmd="rinv.prune_spec", keep=pr["keep"], group=pr["group"], matches=pr["raw_ordered"], kept=pr["kept_ordered"]))
                        owners.append(("prune", case, call, r, strat, rr))
                        for u in pr.get("units", []):
                            reqs.append(dict(cmd="rinv.prune_spec", keep=pr["keep"], group=pr["group"], matches=pr["raw_ordered"], kept=u["kept_ordered"]))
                            owners.append(("unit", case, call, r, strat, dict(rr, unit=u)))
                            reqs.append(dict(cmd="rinv.prune", keep=pr["keep"], group=pr["group"], matches=pr["raw_ordered"], max_group=u["max_group"]))
                            owners.append(("unit-model", case, call, r, strat, dict(rr, unit=u)))
        ctx.case(cov_public(case), nontrivial=n_all >= 1,
                 sample={"stream": tag, "name": case.get("name"), "substrate": case["substrate"], "results_all": n_all, "raw_matches": n_raw,
                         "calls": len(case["calls"])})
        cmp = _Cmp()
        seen = set()
        for what, detail, idx in cov_judge_case(case, res, cmp):
            if what in seen:
                continue
            seen.add(what)
            keep = sorted(set([0] + idx))
            # concrete option values in the replay case
            cc = [dict(case["calls"][i], kw=res["calls"][i].get("kw") or case["calls"][i].get("kw") or {}) for i in keep]
            ctx.violation(what, cov_public(case, cc), dict(detail, name=case.get("name"), stream=tag))
        if cmp.kekule_only:
            ctx.count("comparisons_equal_only_up_to_kekule_form(not gated)", cmp.kekule_only)
    gates_failed = {json.dumps(v["case"].get("template")) + json.dumps(v["case"].get("substrate")) for v in ctx.violations[before:]
                    if isinstance(v["case"], dict)}
    broken = 0
    reported = set()   # one report per (case, kind of comparison): the other strategies / option values of the case repeat it

    def first_report(case, kind):
        key = (id(case), kind)
        if key in reported:
            ctx.count(f"{tag}:further_mismatches_of_a_reported_case(not listed)")
            return False
        reported.add(key)
        return True

    for (kind, case, call, r, strat, rr), ans in zip(owners, ctx.lean().ok(reqs, shards=8)):
        pub = cov_public(case, [dict(case["calls"][0]), dict(call, kw=r.get("kw") or {}, strategy_judged=strat)])
        where = {"call": call["label"], "options": r.get("kw"), "strategy": strat, "name": case.get("name"), "stream": tag}
        has_gate = (json.dumps(case["template"]) + json.dumps(case["substrate"])) in gates_failed
        if kind == "search":
            ctx.count(f"{tag}:searches_compared_with_model")
            mod = ans["runs"][0]
            if mod["prefilter"] and (r.get("kw") or {}).get("embed_pre_filter"):
                ctx.count(f"{tag}:model_pre_filter_fires")
            if mod["result"] != rr["raw"]:
                broken += 1
                if first_report(case, kind):
                    ctx.violation("O1 raw match set of the real SynReactor under its options (embed_threshold / embed_pre_filter / defaults) differs "
                                  "from the Lean model of the search (c06.search: strategy, strict component count, threshold, pre-filter) on the "
                                  "graphs searched",
                                  pub, dict(where, impl=len(rr["raw"]), model=len(mod["result"]), hcc=ans["hcc"], pcc=ans["pcc"], total=ans["total"],
                                            only_impl=[m for m in rr["raw"] if m not in mod["result"]][:3],
                                            only_model=[m for m in mod["result"] if m not in rr["raw"]][:3]), no_input=not has_gate)
        elif kind in ("prune", "unit"):
            ctx.count(f"{tag}:prune_spec_evaluated" + (":direct call with max_group" if kind == "unit" else ""))
            kept = rr["unit"]["kept_ordered"] if kind == "unit" else rr["prune"]["kept_ordered"]
            if len(kept) < len(rr["prune"]["raw_ordered"]):
                ctx.count(f"{tag}:prune_spec_evaluated_where_something_was_pruned" + (":direct call with max_group" if kind == "unit" else ""))
            if not ans:
                broken += 1
                if first_report(case, kind):
                    ctx.violation("symmetry pruning dropped a match that is not related to any kept match by an automorphism of the rule (PruneSpec "
                                  "violated)" + (" [SynReactor._prune_by_rule_automorphisms called directly with a small max_group]" if kind == "unit" else ""),
                                  pub, dict(where, raw=len(rr["prune"]["raw_ordered"]), impl_kept=len(kept), group=len(rr["prune"]["group"]),
                                            max_group=rr["unit"]["max_group"] if kind == "unit" else 5040))
        else:
            ctx.count(f"{tag}:direct_prune_call_equals_model_pruneByAut:" + ("yes" if ans == rr["unit"]["kept_ordered"] else "no (not gated)"))
            ctx.count(f"{tag}:direct_prune_call:max_group " + ("below" if rr["unit"]["max_group"] < len(rr["prune"]["group"]) else "at") + " the group size")
    return len(ctx.violations) == before and not broken


def cov_streams(ctx, chems, timeout):
    """forms / opts / partial / wild, after every other stream (their draws change no other stream)."""
    quick = ctx.quick
    k = 2
    t = time.time()
    stamps = ctx.extra.setdefault("stage_wall_s", {})
    pool = C.Pool()
    try:
        before = len(ctx.violations)
        wild = wild_cases(ctx, chems, k, 10 if quick else 120)
        for c in wild:
            ctx.count("wild:cases:" + c["wild"])
        run_cases(ctx, pool, wild, timeout, "wild")
        ctx.obligation("wildcard templates ([*:n] context atoms, hand-written and generated): result sets invariant under template renumbering / "
                       "substrate rewriting / repetition; comp within all; bt = comp or all; pruning invisible", len(ctx.violations) == before)
        stamps["wild"] = round(time.time() - t, 1); t = time.time()
        wchems = [_chem(c["name"], c["template"], c["core"], c["invert"], c["mode"], c["substrate"], "wild") for c in wild] + xh_hand_chems()
        ok = cov_stream(ctx, pool, forms_cases(ctx, chems + wchems, 24 if quick else 240), timeout, "forms")
        ctx.obligation("entry points: substrate as SMILES / SynGraph / networkx graph (other node ids, other insertion order), template as ITS graph / "
                       "renumbered graph / SynRule (both directions) / string, SynReactor(...) / SynReactor.from_smiles, strategy as string / upper case / "
                       "Strategy member, canonicaliser given, automorphism=True: one result set (F1), also for rewritten inputs; G2-G5 per call", ok)
        stamps["forms"] = round(time.time() - t, 1); t = time.time()
        ok = cov_stream(ctx, pool, opts_cases(ctx, chems + wchems, 24 if quick else 240, 8 if quick else 80), timeout, "opts")
        ctx.obligation("options embed_threshold / embed_pre_filter (and hosts too small for a pattern component): recorded searches == Lean model "
                       "c06.search under the same configuration; kept matches (also of direct _prune_by_rule_automorphisms calls with max_group "
                       "below / at the group size) satisfy PruneSpec; result sets invariant under rewriting for every option; pruning invisible", ok)
        stamps["opts"] = round(time.time() - t, 1); t = time.time()
        ok = cov_stream(ctx, pool, partial_cases(ctx, chems + wchems, 16 if quick else 160), timeout, "partial")
        ctx.obligation("partial=True (PartialMatcher; substrates lacking a component of the pattern): result sets invariant under rewriting, "
                       "strategy relations, pruning invisible, == gluing every match of the brute-force specification (G5p)", ok)
        stamps["partial"] = round(time.time() - t, 1)
        _shutdown(pool)
    finally:
        pool.close()



def replay(ctx, case):
    c = case.get("case", case)
    if c.get("stream") == "history":
        fpool = FreshPool(4)
        try:
            run_histories(ctx, fpool, [history_from_case(c)], 120.0, "replay", shrink=0)
        finally:
            fpool.close()
        return
    if c.get("stream") in ("forms", "opts", "partial"):
        pool = C.Pool(2)
        try:
            c.setdefault("name", "replay")
            cov_stream(ctx, pool, [c], 120.0, c["stream"])
        finally:
            pool.close()
        return
    if c.get("stream") == "graph":
        pool = C.Pool(2)
        try:
            graph_judge(ctx, pool, [{"key": "g0", "template": c["template"], "core": c["core"], "invert": c["invert"], "mode": c["mode"],
                                     "host": c["host"], "relabel": True, "fseed": c["fseed"], "piseed": c["piseed"], "timeout": 300.0}])
        finally:
            pool.close()
        return
    pool = C.Pool(4)
    try:
        c.setdefault("name", "replay")
        run_cases(ctx, pool, [c], 120.0, "replay", shrink=False)
        if c.get("stream") == "e2e":
            e2e_stream(ctx, pool, [dict(c, origin="replay")], 120.0)
    finally:
        pool.close()

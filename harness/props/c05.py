"""C05 — rule application depends on the chemistry only, not on how inputs are written.

Implementation-level gates (all on *sets* of `Standardize.fit`-normalised reactions returned by the
real `SynReactor`):

  G1  the result set is the same under k random atom-map permutations of the template x k
      random rewritings of the substrate SMILES (atom order, ring-closure digits, fragment order);
  G2  repeating the identical call returns the same set;
  G3  results(comp) is a subset of results(all);
  G4  results(bt) = results(comp) whenever that is non-empty, results(bt) = results(all) whenever
      the component-aware *search* found nothing, and results(bt) is a subset of results(all);
  G5  symmetry pruning is invisible: gluing EVERY raw match through the reactor's own internals
      gives the same set as the pruned run.

Sets are compared as sets of strings; when they differ, they are compared once more with bond orders
forgotten (`reactor_inv_common.kekule_blind`: same skeleton, hydrogens, charges).  Equality there means the
two runs differ only in which Kekule form RDKit wrote for a ring it was handed as aromatic but does not
re-perceive as aromatic (a choice that depends on the atom order inside RDKit, e.g. the para-bridged arene of
regress/C05/n2_*); that is counted (`comparisons_equal_only_up_to_kekule_form`) and not gated.

What the implementation's pruning kept is judged by the Lean specification `pruneSpecB` (kept is a sub-list of
the raw matches and every raw match is kept or related to a kept one by automorphisms of the rule; theorem
`pruneSpec_preserves_results`), not by equality with the model `pruneByAut`: how much is pruned and which
representative survives are incidental and only recorded.

Engine-level part (Lean, SynKitProofs/Props/C05.lean): match sets correspond bijectively under
injective relabelling of host or pattern, hence un-pruned results are invariant for any
equivariant glue step; comp/bt/all relations at the level of result sets; pruning by a group of
rule automorphisms loses no result.  A graph-level stream ties these theorems to the code: the
substrate *graph* and the template *graph* are relabelled by explicit random injections f, pi and
the raw match set of the implementation must be exactly {f . m . pi^-1}, and must equal the Lean
enumerator `allMonos` on the same graphs.
"""
import json

from ..core import ROOT, build_and_audit
from .. import reactor_inv_common as C

THEOREMS = [
    "SynKit.ReactorInv.allMonos_relabel_host",
    "SynKit.ReactorInv.allMonos_relabel_pattern",
    "SynKit.ReactorInv.relabel_match_injective",
    "SynKit.ReactorInv.allMonos_relabel_length",
    "SynKit.ReactorInv.results_invariant_unpruned",
    "SynKit.ReactorInv.comp_subset_all",
    "SynKit.ReactorInv.bt_def",
    "SynKit.ReactorInv.bt_subset_all",
    "SynKit.ReactorInv.prune_sound_of_aut",
    "SynKit.ReactorInv.prune_preserves_results",
    "SynKit.ReactorInv.pruneSound_of_aut",
    "SynKit.ReactorInv.pruneSpecB_iff",
    "SynKit.ReactorInv.pruneSpec_preserves_results",
    "SynKit.ReactorInv.pruneByAut_spec",
    "SynKit.ReactorInv.C05.statement_partial",
    "SynKit.ReactorLink.glue_relabel",
    "SynKit.ReactorLink.glue_wf",
    "SynKit.ReactorLink.glue_iso_of_labels",
    "SynKit.ReactorLink.glue_aut_iso",
    "SynKit.SubgraphSearch.findComp_relabel",
    "SynKit.SubgraphSearch.findComp_searchEquivariant",
    "SynKit.ReactorInv.C05.glue_relabel_concrete",
    "SynKit.ReactorInv.C05.patternEquivariant_concrete",
    "SynKit.ReactorInv.C05.glueEquivariant_concrete",
    "SynKit.ReactorInv.C05.results_list_invariant_concrete",
    "SynKit.ReactorInv.C05.results_invariant_concrete",
    "SynKit.ReactorInv.C05.results_invariant_concrete_all",
    "SynKit.ReactorInv.prune_preserves_results_on",
    "SynKit.ReactorInv.C05.glueAutInvariant_concrete",
    "SynKit.ReactorInv.C05.prune_preserves_results_concrete",
    "SynKit.ReactorInv.C05.prune_preserves_implicitResults",
    "SynKit.ReactorInv.C05.statement_of_searchPrune_partial",
    "SynKit.ReactorInv.C05.statement_concrete_partial",
    "SynKit.ReactorInv.C05.statement_concrete_exhaustive",
    "SynKit.ReactorInv.compSearch_sub",
    "SynKit.ReactorInv.compSearch_equivariant",
    "SynKit.ReactorInv.C05.statement_concrete",
]

EXTRA = "c05_extra.txt"  # hand-written symmetric (template, substrate) pairs: name \t template \t substrate \t invert


# ----------------------------------------------------------------------------- population
def eligible(info):
    return info["ok"] and info["mode"] != "mixed"


def rc_key_of(rsmi):
    """Cheap chemistry key of the centre, from the input alone: multiset of (elements, order before, after)
    of the changed bonds.  Used only to draw foreign substrates that have a chance to match."""
    rs, ps = rsmi.split(">>")
    ra, rb, _, _ = C._side_table(rs)
    pa, pb, _, _ = C._side_table(ps)
    key = []
    for e in set(rb) | set(pb):
        if rb.get(e, 0) != pb.get(e, 0):
            els = sorted((ra[e[0]][0], ra[e[1]][0]))
            key.append((els[0], els[1], rb.get(e, 0), pb.get(e, 0)))
    return json.dumps(sorted(key))


def build_cases(ctx, corpus, infos, n_rxn, k, max_atoms):
    """Seeded population of (template, substrate) cases."""
    rnd = ctx.rnd
    pool = [(rid, rs) for rid, rs in corpus if eligible(infos[rid]) and infos[rid]["n_atoms"] <= max_atoms]
    by_key = {}
    sides = {}
    for rid, rs in pool:
        by_key.setdefault(rc_key_of(rs), []).append(rid)
        sides[rid] = [C.unmapped_side(x) for x in rs.split(">>")]
        if None in sides[rid]:
            sides[rid] = None
    pool = [(rid, rs) for rid, rs in pool if sides[rid]]
    chosen = pool if n_rxn >= len(pool) else rnd.sample(pool, n_rxn)
    cases = []
    rs_of = dict(pool)
    for rid, rs in chosen:
        info = infos[rid]
        for core in (True, False):
            for invert in (False, True):
                subs = [("own", rid)]
                if core:
                    same = [x for x in by_key[rc_key_of(rs)] if x != rid and sides.get(x)]
                    other = rnd.choice(same) if (same and rnd.random() < 0.6) else rnd.choice(pool)[0]
                    if other != rid:
                        subs.append(("foreign", other))
                for kind, sid in subs:
                    cases.append({
                        "name": f"{rid}/{'centre' if core else 'its'}/{'bw' if invert else 'fw'}/{kind}:{sid}",
                        "template": rs, "core": core, "invert": invert, "mode": info["mode"],
                        "substrate": sides[sid][1 if invert else 0],
                        "tseeds": [rnd.randrange(1, 2**30) for _ in range(k)],
                        "sseeds": [rnd.randrange(1, 2**30) for _ in range(k)],
                    })
    return cases


def extra_cases(ctx, k):
    f = C.CORPUS / EXTRA
    out = []
    if not f.exists():
        return out
    for line in f.read_text().splitlines():
        if not line.strip() or line.startswith("#"):
            continue
        name, tpl, sub, inv = line.split("\t")[:4]
        info = C.analyze_reaction(tpl)
        if not info["ok"] or info["mode"] == "mixed":
            continue
        out.append({"name": "extra:" + name, "template": tpl, "core": True, "invert": inv.strip() == "bw",
                    "mode": info["mode"], "substrate": sub,
                    "tseeds": [ctx.rnd.randrange(1, 2**30) for _ in range(k)],
                    "sseeds": [ctx.rnd.randrange(1, 2**30) for _ in range(k)]})
    return out


def tasks_of(case, idx, timeout):
    """base variant (repeat 2, raw matches glued) + tseeds x sseeds variants."""
    common = {"core": case["core"], "invert": case["invert"], "mode": case["mode"],
              "strategies": list(C.STRATEGIES), "timeout": timeout}
    tasks = [dict(common, key=f"{idx}:base", substrate=case["substrate"], template=case["template"],
                  repeat=2, want_raw=True)]
    for i, ts in enumerate(case["tseeds"]):
        try:
            tpl = C.renumber_reaction(case["template"], ts)
        except C.RewriteFailed:
            continue  # the harness's own self-check of the rewriting failed: variant not used
        for j, ss in enumerate(case["sseeds"]):
            sub = C.rewrite_smiles(case["substrate"], ss)
            tasks.append(dict(common, key=f"{idx}:{i}:{j}", substrate=sub, template=tpl, repeat=1, want_raw=False))
    return tasks


# ----------------------------------------------------------------------------- gates
class _Cmp:
    """Set comparisons on standardised reactions.  A difference that disappears once bond orders are forgotten
    (same skeleton, same hydrogens, same charges: `reactor_inv_common.kekule_blind`) is a difference in the Kekule
    form RDKit picked while sanitising an output, which depends on the atom order inside RDKit; it is counted
    (`kekule_only`), not gated."""

    def __init__(self):
        self.kekule_only = 0

    @staticmethod
    def _blind(xs):
        return {C.kekule_blind(x) for x in xs}

    def equal(self, a, b):
        if set(a) == set(b):
            return True
        if self._blind(a) == self._blind(b):
            self.kekule_only += 1
            return True
        return False

    def subset(self, a, b):
        if set(a) <= set(b):
            return True
        if self._blind(a) <= self._blind(b):
            self.kekule_only += 1
            return True
        return False


def judge(case, tasks, results, cmp=None):
    """-> list of (what, detail) — every entry is a violation of C05 on this case."""
    cmp = cmp or _Cmp()
    bad = []
    ok = [(t, r) for t, r in zip(tasks, results) if r["status"] == "ok"]
    err = [(t, r) for t, r in zip(tasks, results) if r["status"].startswith("error")]
    if ok and err:
        # an exception is an outcome too: raising for one way of writing the inputs and answering for another
        # is a dependence on the representation (time-outs are never used here)
        t, r = err[0]
        bad.append(("G1 rule application raises for one writing of the inputs and answers for another",
                    {"raises": {"template": t["template"], "substrate": t["substrate"], "error": r["status"][6:], "message": r.get("error")},
                     "answers": {"template": ok[0][0]["template"], "substrate": ok[0][0]["substrate"]}}))
    if not ok:
        return bad
    ref_t, ref = ok[0]
    for strat in C.STRATEGIES:
        base = ref["runs"][strat][0]["results"]
        for t, r in ok[1:]:
            got = r["runs"][strat][0]["results"]
            if not cmp.equal(got, base):
                bad.append(("G1 result set depends on how template / substrate are written",
                            {"strategy": strat, "reference": {"template": ref_t["template"], "substrate": ref_t["substrate"], "n": len(base)},
                             "variant": {"template": t["template"], "substrate": t["substrate"], "n": len(got)},
                             "only_reference": sorted(set(base) - set(got))[:6], "only_variant": sorted(set(got) - set(base))[:6]}))
                break
    for t, r in ok:
        runs = r["runs"]
        for strat in C.STRATEGIES:
            rr = runs[strat]
            if len(rr) > 1 and rr[0]["results"] != rr[1]["results"]:
                bad.append(("G2 repeating the call changes the result set", {"strategy": strat, "template": t["template"], "substrate": t["substrate"]}))
            if "results_raw" in rr[0] and not cmp.equal(rr[0]["results_raw"], rr[0]["results"]):
                bad.append(("G5 symmetry pruning changes the set of distinct reactions",
                            {"strategy": strat, "template": t["template"], "substrate": t["substrate"],
                             "raw_matches": rr[0]["n_raw"], "kept_matches": rr[0]["n_map"],
                             "with_pruning": len(rr[0]["results"]), "every_raw_match": len(rr[0]["results_raw"]),
                             "lost": sorted(set(rr[0]["results_raw"]) - set(rr[0]["results"]))[:6],
                             "gained": sorted(set(rr[0]["results"]) - set(rr[0]["results_raw"]))[:6]}))
        a, c, b = (set(runs[s][0]["results"]) for s in ("all", "comp", "bt"))
        where = {"template": t["template"], "substrate": t["substrate"]}
        if not cmp.subset(c, a):
            bad.append(("G3 component-aware results are not a subset of the exhaustive results", dict(where, extra=sorted(c - a)[:6])))
        if c and not cmp.equal(b, c):
            bad.append(("G4 fallback strategy differs from the non-empty component-aware result", dict(where, comp=len(c), bt=len(b))))
        if runs["comp"][0]["n_raw"] == 0 and not cmp.equal(b, a):
            bad.append(("G4 fallback strategy differs from the exhaustive result although the component-aware search found nothing",
                        dict(where, all=len(a), bt=len(b))))
        if not cmp.subset(b, a):
            bad.append(("G4 fallback results are not a subset of the exhaustive results", dict(where, extra=sorted(b - a)[:6])))
    return bad


def case_public(case):
    return {k: case[k] for k in ("template", "core", "invert", "mode", "substrate", "tseeds", "sseeds")}


def run_cases(ctx, pool, cases, timeout, tag, shrink=True):
    alltasks, spans = [], []
    for idx, case in enumerate(cases):
        ts = tasks_of(case, f"{tag}{idx}", timeout)
        spans.append((len(alltasks), len(alltasks) + len(ts)))
        alltasks.extend(ts)
    results = pool.run(alltasks)
    for case, (a, b) in zip(cases, spans):
        ts, rs = alltasks[a:b], results[a:b]
        n_ok = sum(1 for r in rs if r["status"] == "ok")
        for r in rs:
            ctx.count("run_status:" + r["status"].split(":")[0])
            if r["status"].startswith("error"):
                ctx.count("impl_exception:" + r["status"][6:])
        if n_ok == 0:
            ctx.count("cases_skipped_all_variants_timed_out_or_failed")
            continue
        first = next(r for r in rs if r["status"] == "ok")
        n_all = len(first["runs"]["all"][0]["results"])
        n_raw = first["runs"]["all"][0]["n_raw"] or 0
        ctx.count("results_all:" + ("0" if n_all == 0 else "1" if n_all == 1 else "2-4" if n_all <= 4 else "5+"))
        ctx.count("raw_matches_all:" + ("0" if n_raw == 0 else "1" if n_raw == 1 else "2-9" if n_raw <= 9 else "10+"))
        if first["runs"]["all"][0]["n_map"] < n_raw:
            ctx.count("cases_where_pruning_removed_matches")
        ctx.count("template:" + ("centre" if case["core"] else "full_its"))
        ctx.count("direction:" + ("backward" if case["invert"] else "forward"))
        ctx.count("mode:" + case["mode"])
        ctx.count("variants_evaluated", n_ok)
        ctx.case(case_public(case), nontrivial=n_all >= 1,
                 sample={"stream": tag, "name": case.get("name"), "substrate": case["substrate"], "results_all": n_all, "raw_matches": n_raw})
        cmp = _Cmp()
        verdicts = judge(case, ts, rs, cmp)
        if cmp.kekule_only:
            ctx.count("comparisons_equal_only_up_to_kekule_form(not gated)", cmp.kekule_only)
            ctx.count("cases_with_kekule_form_only_difference")
        seen = set()
        for what, detail in verdicts:
            if what in seen:
                continue
            seen.add(what)
            small = shrink_case(pool, case, what, timeout) if shrink else case
            ctx.violation(what, case_public(small), dict(detail, name=case.get("name"), stream=tag))


def shrink_case(pool, case, what, timeout):
    """Fewer variants while the same gate still fails (the chemistry is kept: the failing input is the
    (template, substrate, renumbering) triple)."""
    def fails(c):
        ts = tasks_of(c, "s", timeout)
        rs = pool.run(ts)
        return any(w == what for w, _ in judge(c, ts, rs))
    best = case
    if what.startswith(("G2", "G3", "G4", "G5")):
        cand = dict(case, tseeds=[], sseeds=[])
        if fails(cand):
            return cand
    for ts in case["tseeds"]:
        for ss in case["sseeds"]:
            cand = dict(case, tseeds=[ts], sseeds=[ss])
            if fails(cand):
                return cand
    return best


def load_regress():
    d = ROOT / "regress" / "C05"
    out = []
    if d.exists():
        for f in sorted(d.glob("*.json")):
            c = json.loads(f.read_text())
            c = c.get("case", c)
            c.setdefault("name", "regress:" + f.stem)
            out.append(c)
    return out


def run(ctx):
    ctx.trusted = [
        "Lean 4.33 kernel; axioms of the property theorems as listed in obligation_list",
        "RDKit: SMILES parsing/sanitisation, canonical SMILES (Standardize.fit) invariant under atom order, random SMILES writer",
        "NetworkX VF2 enumerates the maps satisfying SynKit's closures (C06's correspondence)",
        "the glue step is an abstract equivariant function in the Lean statements (hypothesis GlueEquivariant, discharged by C03's model); "
        "at implementation level it is the real SynReactor",
        "harness/reactor_inv_common.py (tables read from RDKit, rewriting, process pool, BaseException time-out)",
    ]
    ctx.assumptions = [
        "substrates are SMILES strings; templates are ITS graphs built by rsmi_to_its from mapped reactions (centre or full); no wildcards, partial=False",
        "reactor mode from the template reaction: centre hydrogens explicit -> defaults, none explicit -> implicit_temp=True, explicit_h=False (DESIGN 5a); mixed skipped",
        "embed_threshold left at its default (5000 embeddings): a search that exceeds it returns nothing for every numbering alike",
    ]
    quick = ctx.quick
    k = 2
    timeout = 8.0 if quick else 60.0
    ctx.gen_rule = (
        "regress/C05 first; hand-written symmetric pairs (corpus/c05_extra.txt); then a seeded sample of corpus reactions "
        f"({'30 with <=40 atoms' if quick else 'all of them'}; ecoli/USPTO/hydro vendored in corpus/c04_reactions.txt, parsable, fully mapped, hydrogens not mixed) "
        "x template in {centre, full ITS} x {forward, backward} x substrate in {own side; for centre templates also a foreign corpus side, "
        "60% drawn among reactions with the same changed-bond multiset}; each case = base call (twice, plus every raw match glued) "
        f"+ {k}x{k} (template renumbering x substrate rewriting) variants, strategies all/comp/bt; per-run time-out {timeout}s (skipped, counted).")
    ctx.nontrivial_rule = "distinct (template, direction, substrate, seeds) with >=1 reaction produced under strategy all"
    build_and_audit(ctx, ["SynKitProofs.Props.C05"], "SynKitProofs/Audit/C05.lean", THEOREMS)

    corpus = C.load_corpus()
    infos = {rid: C.analyze_reaction(rs) for rid, rs in corpus}
    for rid, _ in corpus:
        i = infos[rid]
        ctx.count("corpus:" + ("ill-formed" if not i["ok"] else "mixed-H (skipped)" if i["mode"] == "mixed" else "eligible"))
    import time
    pool = C.Pool()
    stamps = {"build+audit": round(time.time() - ctx.t0, 1)}
    try:
        t = time.time()
        reg = load_regress()
        run_cases(ctx, pool, reg, max(timeout, 30.0), "regress", shrink=False)
        ctx.count("regress_cases", len(reg))
        run_cases(ctx, pool, extra_cases(ctx, k), timeout, "extra")
        stamps["regress+extra"] = round(time.time() - t, 1); t = time.time()
        cases = build_cases(ctx, corpus, infos, 30 if quick else 10**6, k, 40 if quick else 10**6)
        run_cases(ctx, pool, cases, timeout, "corpus")
        stamps["corpus"] = round(time.time() - t, 1); t = time.time()
        graph_stream(ctx, pool, corpus, infos, 40 if quick else 200)
        stamps["graph"] = round(time.time() - t, 1)
        ctx.extra["stage_wall_s"] = stamps
    finally:
        pool.close()
    ctx.obligation("correspondence: result sets invariant under template renumbering / substrate rewriting / repetition; "
                   "comp within all; bt = comp or all; pruning invisible", not ctx.violations)


# ----------------------------------------------------------------------------- graph-level stream
def graph_stream(ctx, pool, corpus, infos, n):
    """Graph-level relabelling (ties the Lean theorems to the code): substrate graph relabelled by a random
    injection f (insertion order shuffled, edge directions flipped), template ITS relabelled by pi."""
    elig = [(rid, rs) for rid, rs in corpus if eligible(infos[rid]) and infos[rid]["n_atoms"] <= 40]
    picked = elig if len(elig) <= n else ctx.rnd.sample(elig, n)
    tasks = []
    for ex in extra_cases(ctx, 0):  # symmetric rules: here the pruning has work to do
        tasks.append({"key": f"g{len(tasks)}", "template": ex["template"], "core": True, "invert": ex["invert"], "mode": ex["mode"],
                      "host": ex["substrate"], "relabel": True, "fseed": ctx.rnd.randrange(1, 2**30), "piseed": ctx.rnd.randrange(1, 2**30),
                      "timeout": 20.0})
    for rid, rs in picked:
        core = ctx.rnd.random() < 0.75
        invert = ctx.rnd.random() < 0.5
        host = "own"
        if core and ctx.rnd.random() < 0.5:
            other = ctx.rnd.choice(elig)[1]
            side = C.unmapped_side(other.split(">>")[1 if invert else 0])
            if side:
                host = side
        tasks.append({"key": f"g{len(tasks)}", "template": rs, "core": core, "invert": invert, "mode": infos[rid]["mode"],
                      "host": host, "relabel": True, "fseed": ctx.rnd.randrange(1, 2**30), "piseed": ctx.rnd.randrange(1, 2**30),
                      "timeout": 20.0})
    graph_judge(ctx, pool, tasks)


def graph_judge(ctx, pool, tasks):
    results = pool.run(tasks, C.graph_task)
    sel = {"node_keys": C.MATCH_NODE_KEYS, "edge_keys": C.MATCH_EDGE_KEYS}
    reqs, owners = [], []
    for t, r in zip(tasks, results):
        ctx.count("graph_stream_status:" + r["status"].split(":")[0])
        if r["status"] != "ok":
            continue
        if r["A"]["pattern_nodes"] > 45 or len(r["A"]["raw"]) > 400:
            ctx.count("graph_stream_skipped_large")
            continue
        reqs.append(dict(cmd="rinv.monos_relabel", host=r["A"]["host"], pattern=r["A"]["pattern"], f=r["f"], pi=r["pi"], **sel))
        owners.append((t, r))
    answers = ctx.lean().ok(reqs, shards=8)
    bad = 0
    # what the implementation's pruning kept is judged by the Lean SPECIFICATION `pruneSpecB` (sub-list of the raw matches;
    # every raw match kept or related to a kept one by rule automorphisms) — theorem pruneSpec_preserves_results; how much
    # is pruned / which representative is kept is not gated.  Equality with the model `pruneByAut` is recorded only.
    preqs, powners = [], []
    for t, r in owners:
        for side in ("A", "B"):
            pr = r[side].get("prune")
            if pr is None or len(pr["group"]) > 60:
                ctx.count("prune_spec_not_evaluated(no rule-automorphism pruning in this tree, or too large)")
                continue
            preqs.append(dict(cmd="rinv.prune_spec", keep=pr["keep"], group=pr["group"], matches=pr["raw_ordered"], kept=pr["kept_ordered"]))
            preqs.append(dict(cmd="rinv.prune", keep=pr["keep"], group=pr["group"], matches=pr["raw_ordered"], max_group=5040))
            powners.append((t, pr))
    pans = ctx.lean().ok(preqs, shards=8)
    for i, (t, pr) in enumerate(powners):
        spec_ok, model_kept = pans[2 * i], pans[2 * i + 1]
        ctx.count("prune_spec_evaluated")
        if len(pr["kept_ordered"]) < len(pr["raw_ordered"]):
            ctx.count("prune_spec_evaluated_where_something_was_pruned")
        ctx.count("pruning_impl_equals_model_pruneByAut:" + ("yes" if model_kept == pr["kept_ordered"] else "no (not gated)"))
        if not spec_ok:
            bad += 1
            ctx.violation("symmetry pruning dropped a match that is not related to any kept match by an automorphism of the rule (PruneSpec violated)",
                          {"template": t["template"], "core": t["core"], "invert": t["invert"], "mode": t["mode"], "host": t["host"],
                           "fseed": t["fseed"], "piseed": t["piseed"], "stream": "graph"},
                          {"raw": len(pr["raw_ordered"]), "impl_kept": len(pr["kept_ordered"]), "model_kept": len(model_kept), "group": len(pr["group"])})
    for (t, r), ans in zip(owners, answers):
        A, B = r["A"], r["B"]
        case = {"template": t["template"], "core": t["core"], "invert": t["invert"], "mode": t["mode"], "host": t["host"],
                "fseed": t["fseed"], "piseed": t["piseed"], "stream": "graph"}
        ctx.count("graph_stream_cases")
        ctx.count("graph_stream_raw_matches:" + ("0" if not A["raw"] else "1" if len(A["raw"]) == 1 else "2+"))
        ctx.case(case, nontrivial=len(A["raw"]) >= 1)
        if A["results"] != B["results"] and _Cmp().equal(A["results"], B["results"]):
            ctx.count("comparisons_equal_only_up_to_kekule_form(not gated)")
        elif A["results"] != B["results"]:
            bad += 1
            ctx.violation("G1 (graph level) result set changes when substrate and template graphs are renumbered", case,
                          {"base": len(A["results"]), "relabelled": len(B["results"]),
                           "only_base": sorted(set(A["results"]) - set(B["results"]))[:5],
                           "only_relabelled": sorted(set(B["results"]) - set(A["results"]))[:5]})
        pi = dict(map(tuple, r["pi"]))
        expectP = {"nodes": sorted([pi[n], a] for n, a in A["pattern"]["nodes"]),
                   "edges": sorted([min(pi[u], pi[v]), max(pi[u], pi[v]), a] for u, v, a in A["pattern"]["edges"])}
        gotP = {"nodes": sorted(B["pattern"]["nodes"]), "edges": sorted([min(u, v), max(u, v), a] for u, v, a in B["pattern"]["edges"])}
        if json.dumps(expectP, sort_keys=True) != json.dumps(gotP, sort_keys=True):
            bad += 1
            ctx.violation("pattern preparation does not commute with renumbering the template (hypothesis PatternEquivariant)", case,
                          {"expected": expectP, "got": gotP}, no_input=A["results"] == B["results"])
        if ans["base"] != A["raw"] or ans["relabelled"] != B["raw"]:
            bad += 1
            ctx.violation("raw match sets of the implementation differ from the proven enumerator allMonos (base / relabelled pair)", case,
                          {"base_equal": ans["base"] == A["raw"], "relabelled_equal": ans["relabelled"] == B["raw"]},
                          no_input=A["results"] == B["results"])
        if ans["image"] != ans["relabelled"]:
            bad += 1
            ctx.violation("Lean: allMonos of the relabelled pair is not the relabelled allMonos (theorem allMonos_relabel_* instance)", case, None, no_input=True)
    ctx.obligation("graph-level relabelling: impl raw matches == allMonos, relabelled == image (allMonos_relabel_host/pattern), "
                   "pattern preparation equivariant, result sets equal; kept matches satisfy PruneSpec", bad == 0)



def replay(ctx, case):
    c = case.get("case", case)
    if c.get("stream") == "graph":
        pool = C.Pool(2)
        try:
            graph_judge(ctx, pool, [{"key": "g0", "template": c["template"], "core": c["core"], "invert": c["invert"], "mode": c["mode"],
                                     "host": c["host"], "relabel": True, "fseed": c["fseed"], "piseed": c["piseed"], "timeout": 300.0}])
        finally:
            pool.close()
        return
    pool = C.Pool(4)
    try:
        c.setdefault("name", "replay")
        run_cases(ctx, pool, [c], 120.0, "replay", shrink=False)
    finally:
        pool.close()

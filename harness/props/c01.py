"""C01 — the ITS encoding of a mapped reaction is lossless and invertible.

Lean (Props/C01.lean): over the model `SynKit.ITS.construct` / `decompose` the ITS has exactly the
union of atoms and bonds with the (before, after) pair and their difference, decomposition
inverts construction on (element, aromatic, hcount, charge, atom_map, bond order), construction
commutes with renumbering and reversal swaps the pairs.

Correspondence (every run, on /repo as it is):
 (i)   ITSConstruction.ITSGraph(G, H)            == model `its.construct`   (nodes, typesGH, carried labels, order, standard_order)
 (ii)  its_decompose(ITS)                        == model `its.decompose`   == the input pair (G, H)
 (iii) ITS(rsmi) ~ ITS(its_to_rsmi(ITS(rsmi)))   decided by the Lean `match.iso` (proven engine) on typesGH-derived labels + order pair
 (iv)  unmapped canonical sides of input and output equal (RDKit canonical SMILES, trusted)
 (v)   the glue of its_to_rsmi / graph_to_rsmi / graph_to_smi: the `preserve_atom_maps` list actually passed and the two
       graphs actually handed to GraphToMol.graph_to_mol (observed by wrapping graph_to_smi, implicit_hydrogen and
       GraphToMol inside this process; nothing is re-implemented) == model `its.rsmiGraphs` (SynKitModel/RsmiGraph.lean,
       the definitions the theorems its_to_rsmi_graph_part / _totalH / _skeleton are about)
(iii)/(iv) are the RDKit-dependent part of C01: they cannot be proved in Lean and rest on this run.

(iii)/(iv) by shape of the input (decided by the harness from the two input graphs, never by the code under test):
 * no explicit hydrogen outside the centre that is bonded to a heavy atom, or none inside it, or `explicit_hydrogen=True`:
   its_to_rsmi folds nothing, (iii) and (iv);
 * explicit hydrogens on both sides of that line, at least one outside bonded to a heavy atom: those are folded into hydrogen
   counts, the output has fewer atoms, (iv) only;
 * a hydrogen outside the centre without any bond (free H / H+ / H- spectator) next to a hydrogen in the centre is NOT folded
   and must stay an atom of the output (F29: `implicit_hydrogen` used to delete it; repaired by draft fix 0022, which the Lean
   model `SynKit.Repr.implicitHydrogen` follows): gated at full strength like the other shapes - (iii) and (iv) when nothing
   else is folded, (iv) when other spectator hydrogens are.
The `radical` stream feeds what the corpora lack: free hydrogen atoms, radicals, carbenes, bare atoms, ions (hand-written steps,
spectators, free-hydrogen forms of the corpus' H-X cleavages, opened valences), the non-default options of its_to_rsmi, and
the same queries repeated in another order.

Coverage-gap streams (the documented entry points and options the streams above never took):
 * `entry`  (graph level): ITSConstruction.construct (defaults node_attrs=None / edge_attrs=None / balance_its=True / store=True) and
   ITSGraph x every combination of ignore_aromaticity / balance_its / store == model `its.construct` with the same options;
   pairs with partly overlapping node sets of different sizes (which graph is the base, whose atoms are added); attributes_defaults
   (typesGH specification evaluated in the harness, the rest against the model); its_decompose(nodes_share=, edges_share=) on an
   ITS whose attributes are stored under other names == model `its.decompose`;
 * `route`  (reaction level, gates (i)-(iv)): reactant / product graphs from MolToGraph.mol_to_graph (light-weight, detailed),
   transform_store().graph, the full profile, rsmi_to_graph(drop_non_aam=False / node_attrs=None); the ITS from construct /
   ITSGraph with options / rsmi_to_its; the reaction SMILES from graph_to_rsmi(r, p) (no ITS handed over), graph_to_rsmi(r, p, its)
   and their options; stream (v) on graph_to_rsmi and on an ITS built with store=True;
 * `padding` (rare-but-legal inputs): genuine mapped atoms of balanced reactions whose labels coincide with a default / padding
   value of the code - wildcard atoms `*`, neutral, without hydrogens, without a bond on one side or on both (what ITSConstruction
   pads a missing atom with), bare neutral atoms - in the centre, as spectators, in corpus reactions; reaction level (all gates,
   options, routes, repeat), graph level (model with the option grid), stream (v);
 * `explicit-its`: rsmi_to_its(rsmi, explicit_hydrogen=True) must be the ITS of the same reaction with hydrogen counts written as
   hydrogen atoms (specification evaluated in the harness from the input graphs); runs last.

This module also holds the helpers shared with C02 (encoding, canonical forms, reaction variants,
synthetic generators).
"""
import itertools
import json
import logging
import re

import networkx as nx

from .. import graphio
from ..core import build_and_audit, ROOT
from ..corpus import load_reactions

THEOREMS = [
    "SynKit.ITS.construct_nodes",
    "SynKit.ITS.construct_ids_nodup",
    "SynKit.ITS.construct_typesGH",
    "SynKit.ITS.construct_edges",
    "SynKit.ITS.construct_order",
    "SynKit.ITS.construct_standard_order",
    "SynKit.ITS.construct_wf",
    "SynKit.ITS.decompose_construct",
    "SynKit.ITS.construct_decompose",
    "SynKit.ITS.construct_relabel",
    "SynKit.ITS.construct_swap_nodes",
    "SynKit.ITS.construct_swap_typesGH",
    "SynKit.ITS.construct_swap_edges",
    "SynKit.ITS.construct_swap_standard_order",
    "SynKit.ITS.construct_swap",
    "SynKit.ITS.C01.graphStatement_holds",
    "SynKit.ITS.implicitH_preserves_totalH",
    "SynKit.ITS.implicitH_preserves_totalH_of_strict",
    "SynKit.ITS.foldGuard_of_HValence",
    "SynKit.ITS.implicitH_preserves_totalH_of_HValence",
    "SynKit.ITS.implicitH_keeps",
    "SynKit.ITS.implicitH_keeps_preserved",
    "SynKit.ITS.implicitHydrogen_keeps_free_hydrogen",
    "SynKit.ITS.implicitH_removes_only_H",
    "SynKit.ITS.smiGraph_congr",
    "SynKit.ITS.its_to_rsmi_graph_part",
    "SynKit.ITS.its_to_rsmi_totalH",
    "SynKit.ITS.its_to_rsmi_skeleton",
]

ITS_NODE_KEYS = ["typesGH", "element", "aromatic", "hcount", "charge", "atom_map"]
ITS_EDGE_KEYS = ["order", "standard_order"]
MOL_KEYS = ["element", "aromatic", "hcount", "charge", "atom_map"]
MOL_IN_KEYS = ["element", "aromatic", "hcount", "charge", "neighbors", "atom_map"]
RC_KEYS = ["element", "charge", "typesGH", "atom_map"]


def quiet():
    import warnings
    warnings.filterwarnings("ignore")
    logging.disable(logging.CRITICAL)
    from rdkit import RDLogger
    RDLogger.DisableLog("rdApp.*")


# ------------------------------------------------------------------ encoding / canonical forms
def enc(G, nk=None, ek=None):
    return graphio.graph(G, nk, ek)


def canon(j, nk, ek):
    """Canonical form of an encoded graph restricted to the gated keys: nodes sorted by id,
    edges as (min, max) sorted; absent key == None (Python `.get`)."""
    nodes = sorted([n, [a.get(k) for k in nk]] for n, a in j["nodes"])
    edges = sorted([min(u, v), max(u, v), [a.get(k) for k in ek]] for u, v, a in j["edges"])
    return {"nodes": nodes, "edges": edges}


def first_diff(a, b):
    if a["nodes"] != b["nodes"]:
        da = [x for x in a["nodes"] if x not in b["nodes"]][:2]
        db = [x for x in b["nodes"] if x not in a["nodes"]][:2]
        return f"nodes: impl-only {json.dumps(da)[:300]} model-only {json.dumps(db)[:300]}"
    da = [x for x in a["edges"] if x not in b["edges"]][:2]
    db = [x for x in b["edges"] if x not in a["edges"]][:2]
    return f"edges: impl-only {json.dumps(da)[:300]} model-only {json.dumps(db)[:300]}"


def bfs_order(G):
    """Node order in which every node (after the first of its component) has an earlier neighbour;
    keeps the back-tracking of `match.iso` shallow.  Does not change the graph."""
    seen, order = set(), []
    for s in sorted(G.nodes, key=lambda n: (-G.degree(n), n)):
        if s in seen:
            continue
        seen.add(s)
        q = [s]
        while q:
            x = q.pop(0)
            order.append(x)
            for y in sorted(G.neighbors(x)):
                if y not in seen:
                    seen.add(y)
                    q.append(y)
    return order


def iso_form(its, with_neighbors=False, extra_node_keys=()):
    """ITS -> encoded graph for `match.iso`: node label `tg` = typesGH (neighbour lists dropped unless
    asked for), edge label `order` (+ `standard_order`); nodes in BFS order."""
    H = nx.Graph()
    for n in bfs_order(its):
        d = its.nodes[n]
        t = d.get("typesGH")
        if t is not None and not with_neighbors:
            t = tuple(tuple(h[:4]) for h in t)
        H.add_node(n, tg=t, **{k: d.get(k) for k in extra_node_keys})
    for u, v, d in its.edges(data=True):
        H.add_edge(u, v, order=d.get("order"), standard_order=d.get("standard_order"))
    return enc(H)


def iso_request(a, b, node_keys=("tg",), edge_keys=("order",)):
    return {"cmd": "match.iso", "host": a, "pattern": b, "node_keys": list(node_keys),
            "edge_keys": list(edge_keys), "hcount": False}


# ------------------------------------------------------------------ reactions and their variants
_MAP = re.compile(r"(?<=:)(\d+)(?=\])")


def renumber(rsmi, rnd, sparse=False):
    maps = sorted({int(m) for m in _MAP.findall(rsmi)})
    if sparse:
        new = rnd.sample(range(1, 3 * len(maps) + 5), len(maps))
    else:
        new = list(range(1, len(maps) + 1))
        rnd.shuffle(new)
    f = dict(zip(maps, new))
    return _MAP.sub(lambda m: str(f[int(m.group(1))]), rsmi), f


def reroot_side(smi, seed):
    from rdkit import Chem
    frs = []
    for fr in smi.split("."):
        mol = Chem.MolFromSmiles(fr, sanitize=False)
        if mol is None:
            return None
        try:
            Chem.SanitizeMol(mol)
        except Exception:
            return None
        frs.append(Chem.MolToRandomSmilesVect(mol, 1, randomSeed=seed)[0])
    return ".".join(frs)


def variant(rsmi, kind, rnd):
    """-> variant reaction SMILES or None.  Every random choice comes from `rnd`; RDKit's own
    randomisation is seeded with a number drawn from `rnd`."""
    if kind == "identity":
        return rsmi
    if kind == "renumber":
        return renumber(rsmi, rnd)[0]
    if kind == "renumber_sparse":
        return renumber(rsmi, rnd, sparse=True)[0]
    l, r = rsmi.split(">>")
    if kind == "reroot":
        seed = rnd.randrange(1, 2 ** 31 - 1)
        a, b = reroot_side(l, seed), reroot_side(r, seed + 1)
        return None if a is None or b is None else a + ">>" + b
    if kind == "shuffle":
        fl, fr = l.split("."), r.split(".")
        rnd.shuffle(fl)
        rnd.shuffle(fr)
        return ".".join(fl) + ">>" + ".".join(fr)
    if kind == "reverse":
        return r + ">>" + l
    if kind == "spectator":
        # add unchanged, fully mapped spectator molecules to both sides (fresh map numbers)
        import re
        top = max([int(x) for x in re.findall(r":(\d+)\]", rsmi)] or [0])
        pool = ["[H:{a}][H:{b}]", "[OH2:{a}]", "[Na+:{a}]", "[CH4:{a}]", "[H:{a}][H:{b}].[H:{c}][H:{d}]", "[Cl-:{a}]", "[H+:{a}]"]
        k = rnd.choice([1, 1, 2])
        extra = []
        for _ in range(k):
            t = rnd.choice(pool)
            extra.append(t.format(a=top + 1, b=top + 2, c=top + 3, d=top + 4))
            top += 4
        side = ".".join(extra)
        if rnd.random() < 0.5:
            return l + "." + side + ">>" + r + "." + side
        return side + "." + l + ">>" + side + "." + r
    if kind == "spectator_h":
        # unchanged spectators WITH explicit hydrogens on both sides: H2 (kept explicit through the reaction centre),
        # water / ammonia / a proton written with explicit hydrogen atoms (outside the centre)
        import re
        top = max([int(x) for x in re.findall(r":(\d+)\]", rsmi)] or [0])
        pool = ["[H:{a}][H:{b}]", "[H:{a}][H:{b}]", "[O:{a}]([H:{b}])[H:{c}]", "[N:{a}]([H:{b}])([H:{c}])[H:{d}]", "[H+:{a}]",
                "[H:{a}][H:{b}].[Cl:{c}][H:{d}]"]
        extra = []
        for _ in range(rnd.choice([1, 1, 2])):
            extra.append(rnd.choice(pool).format(a=top + 1, b=top + 2, c=top + 3, d=top + 4))
            top += 4
        side = ".".join(extra)
        if rnd.random() < 0.5:
            return l + "." + side + ">>" + r + "." + side
        return side + "." + l + ">>" + side + "." + r
    if kind == "free_species":
        # unchanged, fully mapped spectators that are NOT closed-shell molecules: free hydrogen atoms / protons / hydrides,
        # radicals, carbenes, bare atoms, ions, metals, hypervalent hydrides - atoms whose hydrogen count RDKit would
        # re-guess if the graph -> molecule step did not pin it
        import re
        top = max([int(x) for x in re.findall(r":(\d+)\]", rsmi)] or [0])
        extra = []
        for _ in range(rnd.choice([1, 1, 2])):
            pool = FREE_HYDROGEN if rnd.random() < 0.4 else FREE_SPECIES
            extra.append(rnd.choice(pool).format(a=top + 1, b=top + 2, c=top + 3, d=top + 4, e=top + 5, f=top + 6))
            top += 6
        side = ".".join(extra)
        if rnd.random() < 0.5:
            return l + "." + side + ">>" + r + "." + side
        return side + "." + l + ">>" + side + "." + r
    if kind == "free_h":
        return free_h_form(rsmi, rnd)
    if kind == "radical":
        return radicalize(rsmi, rnd)
    if kind == "wild_spectator":
        # unchanged, fully mapped spectators whose labels coincide with the code's own default / padding values: wildcard atoms
        # ('*', neutral / charged / with hydrogens / bonded / several), bare neutral atoms without hydrogens
        import re
        top = max([int(x) for x in re.findall(r":(\d+)\]", rsmi)] or [0])
        extra = []
        for _ in range(rnd.choice([1, 1, 2])):
            extra.append(rnd.choice(WILD_SPECIES).format(a=top + 1, b=top + 2, c=top + 3, d=top + 4))
            top += 4
        side = ".".join(extra)
        if rnd.random() < 0.5:
            return l + "." + side + ">>" + r + "." + side
        return side + "." + l + ">>" + side + "." + r
    if kind == "wildcardize":
        return wildcardize(rsmi, rnd)
    if kind == "cut":
        return cut_form(rsmi, rnd, wild=False)
    if kind == "cut_wild":
        return cut_form(rsmi, rnd, wild=True)
    raise ValueError(kind)


# ------------------------------------------------------------------ radicals, ions, free hydrogen atoms
# Hand-written elementary steps (balanced, fully mapped): radical chain steps, homolysis / recombination, heterolysis,
# proton / hydride transfer, electron transfer.  Many contain a FREE hydrogen atom (H, H+, H-: a hydrogen node with no bond
# on one side) or atoms with an open valence; none of the bundled corpora does.
RADICAL_IONIC_STEPS = [
    "[H:1].[Cl:2][Cl:3]>>[H:1][Cl:2].[Cl:3]",
    "[H:1][Br:2].[CH2:3]=[CH2:4]>>[H:1].[Br:2][CH2:3][CH2:4]",
    "[H:1].[H:2]>>[H:1][H:2]",
    "[H:1][H:2]>>[H:1].[H:2]",
    "[H:1][H:2]>>[H+:1].[H-:2]",
    "[H-:1].[H+:2]>>[H:1][H:2]",
    "[H:1][H:2].[H:3]>>[H:1].[H:2][H:3]",
    "[H:1].[H+:2]>>[H+:1].[H:2]",
    "[H:1][H:2].[CH2:3]=[CH2:4]>>[H:1][CH2:3][CH2:4][H:2]",
    "[H+:1].[OH-:2]>>[H:1][OH:2]",
    "[H+:1].[NH3:2]>>[H:1][NH3+:2]",
    "[CH3:1][H:4].[Cl:2]>>[CH3:1].[H:4][Cl:2]",
    "[H-:1].[CH3:2][Br:3]>>[H:1][CH3:2].[Br-:3]",
    "[H:1][Cl:2]>>[H+:1].[Cl-:2]",
    "[H:1][Cl:2]>>[H:1].[Cl:2]",
    "[H:1][C:2]#[N:3]>>[H+:1].[C-:2]#[N:3]",
    "[H:1].[CH2:2]=[CH2:3]>>[H:1][CH2:2][CH2:3]",
    "[H:1].[O:2]=[O:3]>>[H:1][O:2][O:3]",
    "[H:1].[H:2].[O:3]>>[H:1][O:3][H:2]",
    "[H:1][H:2].[O:3]>>[H:1][O:3][H:2]",
    "[C-:1]#[O+:2].[H:3]>>[H:3][C:1]=[O:2]",
    "[O:1]=[C:2]=[O:3].[H-:4]>>[O-:1][C:2](=[O:3])[H:4]",
    "[BH3:1].[H-:2]>>[BH3-:1][H:2]",
    "[F:1].[H:2][H:3]>>[F:1][H:2].[H:3]",
    "[OH:1].[H:2][CH3:3]>>[OH:1][H:2].[CH3:3]",
    "[CH3:1][O:2].[H:3][CH3:4]>>[CH3:1][O:2][H:3].[CH3:4]",
    "[Br:1].[H:2][CH2:3][CH3:4]>>[Br:1][H:2].[CH2:3][CH3:4]",
    "[H:1][S:2][CH3:3].[OH:4]>>[S:2][CH3:3].[H:1][OH:4]",
    "[Na+:1].[H-:2].[H:3][OH:4]>>[Na+:1].[OH-:4].[H:2][H:3]",
    "[Li:1][CH3:2].[H:3][OH:4]>>[Li+:1].[OH-:4].[H:3][CH3:2]",
    "[CH3:1][C:2](=[O:3])[O:4][H:5]>>[CH3:1][C:2](=[O:3])[O-:4].[H+:5]",
    "[CH2:1]=[CH:2][CH:3]=[CH2:4].[H:5]>>[CH2:1]=[CH:2][CH:3]([H:5])[CH2:4]",
    "[c:1]1([H:7])[cH:2][cH:3][cH:4][cH:5][cH:6]1.[OH:8]>>[c:1]1[cH:2][cH:3][cH:4][cH:5][cH:6]1.[H:7][OH:8]",
    "[N:1]#[N:2].[H:3][H:4]>>[H:3][N:1]=[N:2][H:4]",
    # explicit hydrogens that stay bonded outside the centre (no hydrogen in the centre: nothing is folded)
    "[H:1][O:2][O:3][H:4]>>[H:1][O:2].[O:3][H:4]",
    # explicit hydrogens outside the centre next to one inside (folded into hydrogen counts by its_to_rsmi)
    "[H:1][O:2][H:3]>>[H+:1].[O-:2][H:3]",
    "[C:1]([H:2])([H:3])([H:4])[H:5].[Cl:6]>>[C:1]([H:2])([H:3])[H:4].[H:5][Cl:6]",
    "[H:1][C:2]([H:3])=[O:4]>>[H:1].[C:2]([H:3])=[O:4]",
    "[CH3:1][C:2](=[O:3])[H:4].[H-:5]>>[CH3:1][C:2]([O-:3])([H:4])[H:5]",
    "[H:1][B-:2]([H:3])([H:4])[H:5].[CH2:6]=[O:7]>>[H:3][B:2]([H:4])[H:5].[H:1][CH2:6][O-:7]",
    # no explicit hydrogen: open valences, charges, hydrogen counts that change without a bond change
    "[CH3:1][CH3:2]>>[CH3:1].[CH3:2]",
    "[CH3:1].[CH3:2]>>[CH3:1][CH3:2]",
    "[Cl:1][Cl:2]>>[Cl:1].[Cl:2]",
    "[Br:1][Br:2]>>[Br:1].[Br:2]",
    "[OH:1].[OH:2]>>[OH:1][OH:2]",
    "[O:1].[O:2]>>[O:1]=[O:2]",
    "[CH3:1][Cl:2]>>[CH3+:1].[Cl-:2]",
    "[CH3:1][Li:2]>>[CH3-:1].[Li+:2]",
    "[CH3:1][Mg:2][Br:3]>>[CH3:1].[Mg:2][Br:3]",
    "[Na:1].[Cl:2]>>[Na+:1].[Cl-:2]",
    "[Cl:1].[CH4:2]>>[ClH:1].[CH3:2]",
    "[Fe+2:1].[OH:2][OH:3]>>[Fe+3:1].[OH-:2].[OH:3]",
    "[N:1]=[O:2].[O:3]>>[O:3][N:1]=[O:2]",
    "[O:1]=[O:2].[CH3:3]>>[O:1][O:2][CH3:3]",
    "[CH2:1].[CH2:2]=[CH2:3]>>[CH2:1]1[CH2:2][CH2:3]1",
    "[CH2:1]=[CH:2][CH2:3].[Br:4][Br:5]>>[CH2:1]=[CH:2][CH2:3][Br:4].[Br:5]",
    "[CH3:1][CH2:2].[CH3:3][CH2:4]>>[CH3:1][CH3:2].[CH2:3]=[CH2:4]",
    "[CH3:1][CH:2]([CH3:3])[CH2:4]>>[CH3:1][CH:2]=[CH2:4].[CH3:3]",
]

FREE_HYDROGEN = ["[H:{a}]", "[H:{a}]", "[H+:{a}]", "[H-:{a}]", "[H:{a}].[H:{b}]", "[H:{a}].[H+:{b}]", "[HH:{a}]"]

FREE_SPECIES = [
    "[CH3:{a}]", "[CH2:{a}]", "[CH:{a}]", "[C:{a}]", "[NH2:{a}]", "[NH:{a}]", "[N:{a}]", "[OH:{a}]", "[O:{a}]", "[SH:{a}]", "[S:{a}]",
    "[F:{a}]", "[Cl:{a}]", "[Br:{a}]", "[I:{a}]", "[BH2:{a}]", "[BH3:{a}]", "[B:{a}]", "[SiH3:{a}]", "[Si:{a}]", "[PH2:{a}]", "[P:{a}]",
    "[CH2:{a}][CH3:{b}]", "[CH2:{a}]=[CH:{b}]", "[CH:{a}]#[C:{b}]", "[O:{a}][O:{b}]", "[O:{a}]=[O:{b}]", "[N:{a}]=[O:{b}]",
    "[O:{a}]=[N:{b}][O:{c}]", "[c:{a}]1[cH:{b}][cH:{c}][cH:{d}][cH:{e}][cH:{f}]1", "[CH2:{a}]=[CH:{b}][CH2:{c}]",
    "[CH3:{a}][C:{b}]=[O:{c}]", "[CH3:{a}][O:{b}]", "[CH3:{a}][S:{b}]", "[O-:{a}][O:{b}]",
    "[CH3+:{a}]", "[CH3-:{a}]", "[CH2-:{a}]", "[CH+:{a}]", "[NH4+:{a}]", "[NH3+:{a}]", "[OH3+:{a}]", "[OH2+:{a}]", "[OH+:{a}]", "[NH2-:{a}]",
    "[O-2:{a}]", "[OH-:{a}]", "[N+:{a}]", "[O+:{a}]", "[Cl+:{a}]", "[SH-:{a}]", "[SH3+:{a}]", "[PH4+:{a}]", "[IH2+:{a}]", "[BH4-:{a}]", "[AlH4-:{a}]",
    "[C-:{a}]#[O+:{b}]", "[N-:{a}]=[N+:{b}]=[N-:{c}]", "[PH5:{a}]", "[SH4:{a}]", "[SH6:{a}]", "[AlH3:{a}]", "[SnH3:{a}]", "[SiH2:{a}]", "[Se:{a}]", "[SeH:{a}]",
    "[Fe+2:{a}]", "[Fe:{a}]", "[Na:{a}]", "[Na+:{a}]", "[Li:{a}]", "[K:{a}]", "[Ca:{a}]", "[Zn:{a}]", "[Mg+2:{a}]", "[Al+3:{a}]", "[Cu+:{a}]", "[Pd:{a}]", "[He:{a}]",
    # with explicit hydrogen atoms
    "[H:{a}][O:{b}]", "[H:{a}][O-:{b}]", "[H:{a}][C:{b}]([H:{c}])[H:{d}]", "[H:{a}][N:{b}][H:{c}]", "[H:{a}][S:{b}]", "[H:{a}][C:{b}]=[O:{c}]",
]


def free_h_form(rsmi, rnd):
    """Turn one H-X bond of an explicit mapped hydrogen into free-hydrogen form on one side: the bond is cut and the
    hydrogen left as a free atom (homolysis: H. + X.), proton (H+ + X-) or hydride (H- + X+).  The hydrogen then has no
    bond on that side, and its old bond exists on the other side only, so it belongs to the reaction centre."""
    from rdkit import Chem
    sides = rsmi.split(">>")
    if len(sides) != 2:
        return None
    k = rnd.choice([0, 1, 1])
    mode = rnd.choice(["radical", "radical", "proton", "hydride"])
    mol = Chem.MolFromSmiles(sides[k], sanitize=False)
    if mol is None:
        return None
    cands = sorted((a.GetAtomMapNum(), a.GetIdx(), a.GetNeighbors()[0].GetIdx()) for a in mol.GetAtoms()
                   if a.GetAtomicNum() == 1 and a.GetAtomMapNum() and a.GetDegree() == 1 and a.GetNeighbors()[0].GetAtomicNum() != 1)
    if not cands:
        return None
    _, h, x = rnd.choice(cands)
    rw = Chem.RWMol(mol)
    rw.RemoveBond(h, x)
    dq = {"radical": 0, "proton": 1, "hydride": -1}[mode]
    rw.GetAtomWithIdx(h).SetFormalCharge(rw.GetAtomWithIdx(h).GetFormalCharge() + dq)
    rw.GetAtomWithIdx(x).SetFormalCharge(rw.GetAtomWithIdx(x).GetFormalCharge() - dq)
    sides[k] = Chem.MolToSmiles(rw, canonical=False)
    return ">>".join(sides)


_HTOK = re.compile(r"\[(?P<sym>[A-Z][a-z]?|[a-z])(?P<chi>@{0,2})H(?P<h>\d*)(?P<q>[+-]+\d*)?:(?P<m>\d+)\]")


def radicalize(rsmi, rnd):
    """Open a valence on one or two atoms: the bracket hydrogen count of the chosen mapped atom(s) is lowered by one on BOTH
    sides (a radical site, or a carbene for two on one atom, that the reaction does not touch).  Text-level edit."""
    l, r = rsmi.split(">>")

    def toks(s):
        return {int(m.group("m")) for m in _HTOK.finditer(s) if not m.group("chi")}

    both = sorted(toks(l) & toks(r))
    if not both:
        return None
    ms = set(rnd.sample(both, min(rnd.choice([1, 1, 2]), len(both))))

    def dec(s):
        def f(m):
            if int(m.group("m")) not in ms or m.group("chi"):
                return m.group(0)
            h = int(m.group("h") or 1) - 1
            return "[" + m.group("sym") + ("" if h == 0 else "H" if h == 1 else f"H{h}") + (m.group("q") or "") + ":" + m.group("m") + "]"
        return _HTOK.sub(f, s)

    return dec(l) + ">>" + dec(r)


# ------------------------------------------------------------------ atoms that look like the code's own default / padding values
# ITSConstruction pads an atom that one side lacks with ('*', False, 0, 0, ['', '']); GraphToMol / MolToGraph have their own
# defaults (charge 0, hcount 0, aromatic False).  A GENUINE mapped atom of a balanced reaction may carry exactly these values:
# a wildcard atom `*` (generic substituent / leaving group / base), neutral, without hydrogens, and without any bond on one side
# or on both; a bare neutral atom of a real element.  None of the bundled corpora has a neutral unbonded wildcard (the mechanism
# set only has [*-:n] and [*:n][H:m]).  Hand-written balanced, fully mapped steps, every shape: neutral / charged / with
# hydrogens, bonded / unbonded on one side / unbonded on both, in the centre / spectator.
WILD_STEPS = [
    # wildcard leaves / arrives as a neutral, unbonded species (homolysis, recombination, heterolysis of an onium)
    "[CH3:1][*:2]>>[CH3:1].[*:2]",
    "[CH3:1].[*:2]>>[CH3:1][*:2]",
    "[CH3:1][C:2]([CH3:3])([CH3:4])[*+:5]>>[CH3:1][C+:2]([CH3:3])[CH3:4].[*:5]",
    "[*:1][*:2]>>[*:1].[*:2]",
    "[*:1].[*:2]>>[*:1]=[*:2]",
    "[*:1].[Cl:2][Cl:3]>>[*:1][Cl:2].[Cl:3]",
    "[*:1][H:2]>>[*:1].[H:2]",
    "[*:1][H:2].[Cl:3]>>[*:1].[H:2][Cl:3]",
    "[*:1][OH:2].[CH3:3]>>[*:1].[CH3:3][OH:2]",
    "[CH3:1][*:2].[*:3]>>[CH3:1][*:3].[*:2]",
    "[*:1][c:2]1[cH:3][cH:4][cH:5][cH:6][cH:7]1.[Br:8][Br:9]>>[*:1].[Br:8][c:2]1[cH:3][cH:4][cH:5][cH:6][cH:7]1.[Br:9]",
    "[*:1][CH2:2][CH2:3][*:4]>>[*:1].[CH2:2]=[CH2:3].[*:4]",
    "[*:1]=[O:2]>>[*:1].[O:2]",
    "[CH3:1][C:2](=[O:3])[O:4][*:5]>>[CH3:1][C:2](=[O:3])[O:4].[*:5]",
    "[CH3:1][N+:2]([CH3:3])([CH3:4])[*:5]>>[CH3:1][N+:2]([CH3:3])[CH3:4].[*:5]",
    # wildcard that never has a bond: spectator, or only its charge / hydrogen count changes
    "[*:1].[CH3:2][Cl:3]>>[*:1].[CH3+:2].[Cl-:3]",
    "[*:1].[*:2].[CH3:3][CH3:4]>>[*:1].[*:2].[CH3:3].[CH3:4]",
    "[*H:1].[CH3:2]>>[*:1].[CH4:2]",
    "[*:1].[Fe+3:2]>>[*+:1].[Fe+2:2]",
    "[*-:1].[Fe+3:2]>>[*:1].[Fe+2:2]",
    "[*:1].[H:2][H:3]>>[*:1].[H:2].[H:3]",
    # charged / bonded wildcards (the shapes the mechanism corpus has, and their neighbours)
    "[CH2:4]([H:7])[CH:5]=[O:6].[*-:9]>>[CH2-:4][CH:5]=[O:6].[*:9][H:7]",
    "[CH3:1][*:2].[OH-:3]>>[CH3:1][OH:3].[*-:2]",
    "[*:1][H:2].[OH-:3]>>[*-:1].[H:2][OH:3]",
    "[*+:1].[Cl-:2]>>[*:1][Cl:2]",
    "[*-:1].[*+:2]>>[*:1][*:2]",
    "[*:1]=[O:2].[H:3][H:4]>>[*:1]([H:3])[O:2][H:4]",
    "[*:1][CH:2]=[O:3].[H-:4]>>[*:1][CH:2]([O-:3])[H:4]",
    "[*:1][C:2](=[O:3])[Cl:4].[NH3:5]>>[*:1][C:2](=[O:3])[NH2:5].[ClH:4]",
    "[*H:1][CH3:2].[OH:3]>>[*:1][CH3:2].[OH2:3]",
    # bare neutral atoms of real elements (hcount 0, charge 0, not aromatic) that are unbonded on one side or on both
    "[C:1].[C:2]>>[C:1]#[C:2]",
    "[O:1].[C:2]>>[C-:2]#[O+:1]",
    "[Ar:1].[CH3:2][CH3:3]>>[Ar:1].[CH3:2].[CH3:3]",
    "[Zn:1].[Cl:2][Cl:3]>>[Cl:2][Zn:1][Cl:3]",
    "[Mg:1].[CH3:2][Br:3]>>[CH3:2][Mg:1][Br:3]",
    "[Hg:1].[Cl:2][Cl:3]>>[Cl:2][Hg:1][Cl:3]",
    "[He:1].[H:2][H:3]>>[He:1].[H:2].[H:3]",
    "[Li:1].[H:2][H:3].[Li:4]>>[Li:1][H:2].[H:3][Li:4]",
    "[S:1].[Fe:2]>>[Fe:2]=[S:1]",
    "[N:1]#[N:2]>>[N:1].[N:2]",
    "[Na:1].[Na:2].[Cl:3][Cl:4]>>[Na+:1].[Na+:2].[Cl-:3].[Cl-:4]",
    "[Pd:1].[CH3:2][I:3]>>[CH3:2][Pd:1][I:3]",
]

WILD_SPECIES = [
    "[*:{a}]", "[*:{a}]", "[*:{a}]", "[*+:{a}]", "[*-:{a}]", "[*H:{a}]", "[*H2:{a}]", "[*:{a}].[*:{b}]", "[*:{a}][*:{b}]", "[*:{a}]#[*:{b}]",
    "[*:{a}][H:{b}]", "[*:{a}]([H:{b}])[H:{c}]", "[*:{a}].[H:{b}]", "[*:{a}].[H+:{b}]", "[*:{a}][CH3:{b}]", "[*:{a}]=[O:{b}]", "[*:{a}][OH:{b}]",
    "[*:{a}][Cl:{b}]", "[*-:{a}].[Na+:{b}]", "[*:{a}][*+:{b}]([*:{c}])[*:{d}]", "[*:{a}].[*+:{b}].[*H:{c}]",
    "[Ar:{a}]", "[C:{a}]", "[Hg:{a}]", "[He:{a}].[H:{b}]", "[Zn:{a}]", "[S:{a}]",
]


def _atom_by_map(mol):
    return {a.GetAtomMapNum(): a for a in mol.GetAtoms() if a.GetAtomMapNum()}


def wildcardize(rsmi, rnd):
    """Replace the element of one or two mapped, non-aromatic atoms by the wildcard `*` on BOTH sides (a generic group in place
    of a real atom; charge and hydrogen count stay, or - one time in three - the hydrogens are dropped on both sides as well).
    The reaction stays balanced and fully mapped."""
    from rdkit import Chem
    sides = rsmi.split(">>")
    if len(sides) != 2:
        return None
    mols = [Chem.MolFromSmiles(s, sanitize=False) for s in sides]
    if None in mols:
        return None
    am = [_atom_by_map(m) for m in mols]
    ok = sorted(m for m in am[0] if m in am[1] and not any(x[m].GetIsAromatic() or x[m].GetChiralTag() != Chem.ChiralType.CHI_UNSPECIFIED
                                                           or x[m].GetIsotope() for x in am))
    if not ok:
        return None
    # atoms that have no bond on one side first (they are the ones that look like padding), then any
    loose = [m for m in ok if am[0][m].GetDegree() == 0 or am[1][m].GetDegree() == 0]
    pick = set()
    if loose and rnd.random() < 0.6:
        pick.add(rnd.choice(loose))
    while len(pick) < min(len(ok), rnd.choice([1, 1, 2])):
        pick.add(rnd.choice(ok))
    drop_h = rnd.random() < 0.34
    for m in sorted(pick):
        for x in am:
            x[m].SetAtomicNum(0)
            if drop_h:
                x[m].SetNumExplicitHs(0)
                x[m].SetNoImplicit(True)
    return ">>".join(Chem.MolToSmiles(m, canonical=False) for m in mols)


def cut_form(rsmi, rnd, wild):
    """Cut, on ONE side, the only bond of a mapped terminal atom (any element, any bond order): the atom is then an unbonded
    species on that side only - homolytically (both ends neutral) or heterolytically (+ / -) - and its old bond exists on the
    other side only, so it belongs to the reaction centre.  With `wild` that atom is a wildcard `*` on both sides (a generic
    leaving / attacking group), half of the time without hydrogens."""
    from rdkit import Chem
    sides = rsmi.split(">>")
    if len(sides) != 2:
        return None
    mols = [Chem.RWMol(m) if m is not None else None for m in (Chem.MolFromSmiles(s, sanitize=False) for s in sides)]
    if None in mols:
        return None
    k = rnd.choice([0, 1, 1])
    mode = rnd.choice(["radical", "radical", "radical", "cation", "anion"])
    other = _atom_by_map(mols[1 - k])
    cands = sorted((a.GetAtomMapNum(), a.GetIdx(), a.GetNeighbors()[0].GetIdx()) for a in mols[k].GetAtoms()
                   if a.GetAtomMapNum() and a.GetDegree() == 1 and not a.GetIsAromatic() and not a.GetNeighbors()[0].GetIsAromatic()
                   and a.GetAtomMapNum() in other and not other[a.GetAtomMapNum()].GetIsAromatic()
                   and not a.GetIsotope() and a.GetChiralTag() == Chem.ChiralType.CHI_UNSPECIFIED)
    if not cands:
        return None
    m, a, x = rnd.choice(cands)
    mols[k].RemoveBond(a, x)
    dq = {"radical": 0, "cation": 1, "anion": -1}[mode]
    mols[k].GetAtomWithIdx(a).SetFormalCharge(mols[k].GetAtomWithIdx(a).GetFormalCharge() + dq)
    mols[k].GetAtomWithIdx(x).SetFormalCharge(mols[k].GetAtomWithIdx(x).GetFormalCharge() - dq)
    if wild:
        drop_h = rnd.random() < 0.5
        for mol in mols:
            at = _atom_by_map(mol)[m]
            at.SetAtomicNum(0)
            if drop_h:
                at.SetNumExplicitHs(0)
                at.SetNoImplicit(True)
    return ">>".join(Chem.MolToSmiles(mol, canonical=False) for mol in mols)


def padding_shapes(r, p):
    """The shapes of default-like atoms a balanced reaction / pair has (for the recorded input distribution)."""
    out = set()
    for n in r.nodes:
        for g, o in ((r, p), (p, r)):
            if n not in g or n not in o:
                continue
            d = g.nodes[n]
            dflt = d.get("aromatic") is False and d.get("hcount") == 0 and d.get("charge") == 0
            where = ("unbonded-on-both-sides" if g.degree(n) == 0 and o.degree(n) == 0 else "unbonded-on-one-side-only" if g.degree(n) == 0 else "bonded")
            if d.get("element") == "*":
                out.add("wildcard:" + ("neutral-no-hydrogens" if dflt else "charged-or-with-hydrogens") + ":" + where)
            elif dflt and g.degree(n) == 0:
                out.add("bare-neutral-atom:" + where)
    return out


def reaction_graphs(rsmi):
    """rsmi -> (r, p, None) or (None, None, reason) when outside C01's precondition
    (not parseable / not fully mapped and atom-balanced)."""
    from synkit.IO.chem_converter import rsmi_to_graph
    from rdkit import Chem
    try:
        l, r_ = rsmi.split(">>")
    except ValueError:
        return None, None, "format"
    try:
        r, p = rsmi_to_graph(rsmi)
    except Exception as e:  # pragma: no cover
        return None, None, "exception:" + type(e).__name__
    if r is None or p is None:
        return None, None, "unparseable"
    if len(r) == 0 or set(r.nodes) != set(p.nodes):
        return None, None, "unbalanced"
    for side, g in ((l, r), (r_, p)):
        m = Chem.MolFromSmiles(side, sanitize=False)
        if m is None or m.GetNumAtoms() != len(g):
            return None, None, "not-fully-mapped"
    return r, p, None


# Other documented ways to the reactant / product graphs of a reaction SMILES (`route["graphs"]`).  What they return beyond the
# attributes rsmi_to_graph selects by default (partial charges, hybridisation, ring flags ...) is dropped before the graphs
# are used: C01 speaks about element, aromaticity, hydrogen count, charge, atom map and bond order.
GRAPH_ENTRIES = [
    "rsmi_to_graph(drop_non_aam=False)",
    "rsmi_to_graph(node_attrs=None,edge_attrs=None)",
    "MolToGraph.mol_to_graph(light_weight=True)",
    "MolToGraph.mol_to_graph(light_weight=False)",
    "MolToGraph(...).transform_store(mol).graph",
    "MolToGraph(attr_profile='full',with_topology=True).transform(mol)",
]


def project(G):
    X = nx.Graph()
    for n, d in G.nodes(data=True):
        X.add_node(n, **{k: d[k] for k in MOL_IN_KEYS if k in d})
    for u, v, d in G.edges(data=True):
        X.add_edge(u, v, **{k: d[k] for k in ("order",) if k in d})
    return X


def alt_graphs(rsmi, via):
    """(r, p) of a fully mapped reaction SMILES through the entry point `via` (same parsing + sanitisation as smiles_to_graph)."""
    from synkit.IO.chem_converter import rsmi_to_graph
    from synkit.IO.mol_to_graph import MolToGraph
    from rdkit import Chem
    if via == "rsmi_to_graph(drop_non_aam=False)":
        return rsmi_to_graph(rsmi, drop_non_aam=False)
    if via == "rsmi_to_graph(node_attrs=None,edge_attrs=None)":
        r, p = rsmi_to_graph(rsmi, node_attrs=None, edge_attrs=None)
        return project(r), project(p)
    out = []
    for side in rsmi.split(">>"):
        mol = Chem.MolFromSmiles(side, sanitize=False)
        Chem.SanitizeMol(mol)
        if via == "MolToGraph.mol_to_graph(light_weight=True)":
            g = MolToGraph.mol_to_graph(mol, drop_non_aam=True, light_weight=True, use_index_as_atom_map=True)
        elif via == "MolToGraph.mol_to_graph(light_weight=False)":
            g = project(MolToGraph.mol_to_graph(mol, drop_non_aam=True, light_weight=False, use_index_as_atom_map=True))
        elif via == "MolToGraph(...).transform_store(mol).graph":
            g = MolToGraph(node_attrs=list(MOL_IN_KEYS), edge_attrs=["order"]).transform_store(
                mol, drop_non_aam=True, use_index_as_atom_map=True).graph
        elif via == "MolToGraph(attr_profile='full',with_topology=True).transform(mol)":
            g = project(MolToGraph(attr_profile="full", with_topology=True).transform(mol, drop_non_aam=True, use_index_as_atom_map=True))
        else:
            raise ValueError(via)
        out.append(g)
    return out[0], out[1]


def write_rsmi(its, r, p, writer, opts):
    """The reaction SMILES of (r, p) / its ITS through `writer` (`route["writer"]`)."""
    from synkit.IO.chem_converter import its_to_rsmi, graph_to_rsmi
    if writer in (None, "its_to_rsmi"):
        return its_to_rsmi(its, **opts)
    if writer == "graph_to_rsmi(r,p)":            # no ITS handed over: graph_to_rsmi builds its own
        return graph_to_rsmi(r, p, **opts)
    if writer == "graph_to_rsmi(r,p,its)":
        return graph_to_rsmi(r, p, its, **opts)
    raise ValueError(writer)


def route_tag(rt):
    return ";".join(f"{k}={how_tag(v) if k == 'its_via' else v}" for k, v in sorted((rt or {}).items())) or "default"


PROBE_SELECTIONS = [
    dict(node_attrs=["element", "atom_map"], edge_attrs=[]),
    dict(node_attrs=["element"], edge_attrs=["order"]),
    dict(node_attrs=["element", "aromatic", "hcount", "charge", "neighbors", "atom_map"], edge_attrs=["order"], sanitize=False),
    dict(node_attrs=["atom_map", "element"], edge_attrs=["order"], use_index_as_atom_map=False),
]


def light_calls(ctx, rsmi):
    from synkit.IO.chem_converter import rsmi_to_graph, smiles_to_graph
    sel = ctx.rnd.choice(PROBE_SELECTIONS)
    ctx.count("history-probe-first:" + ",".join(sel["node_attrs"]) + "|" + ",".join(sel["edge_attrs"]))
    try:
        rsmi_to_graph(rsmi, **sel)
        for side in rsmi.split(">>"):
            smiles_to_graph(side, **sel)
    except Exception:
        ctx.count("history-probe:light-call-raised")


def interleave_probe(ctx, rsmi, r0, p0):
    """Convert `rsmi` with non-default options first, then again with the defaults; the default
    result must equal the one obtained before (r0, p0).  Returns the fresh default graphs, or
    (None, None) when they differ."""
    from synkit.IO.chem_converter import rsmi_to_graph, smiles_to_graph
    import networkx as nx
    sel = ctx.rnd.choice([
        dict(node_attrs=["element", "atom_map"], edge_attrs=[]),
        dict(node_attrs=["element"], edge_attrs=["order"]),
        dict(node_attrs=["element", "aromatic", "hcount", "charge", "neighbors", "atom_map"], edge_attrs=["order"], sanitize=False),
        dict(node_attrs=["atom_map", "element"], edge_attrs=["order"], use_index_as_atom_map=False),
    ])
    ctx.count("history-probe:" + ",".join(sel["node_attrs"]) + "|" + ",".join(sel["edge_attrs"]))
    try:
        rsmi_to_graph(rsmi, **sel)
        for side in rsmi.split(">>"):
            smiles_to_graph(side, **{k: v for k, v in sel.items() if k != "drop_non_aam"})
    except Exception:
        ctx.count("history-probe:light-call-raised")
    r1, p1 = rsmi_to_graph(rsmi)
    same = (r1 is not None and p1 is not None and enc(r1) == enc(r0) and enc(p1) == enc(p0))
    return (r1, p1) if same else (None, None)


def unmapped_side(smi):
    from rdkit import Chem
    m = Chem.MolFromSmiles(smi, sanitize=False)
    if m is None:
        return None
    for a in m.GetAtoms():
        a.SetAtomMapNum(0)
    try:
        Chem.SanitizeMol(m)
        # RDKit's RemoveHs leaves a hydrogen ATOM on a wildcard neighbour in place ('[H]*[H]' stays, while '[H]C[H]' becomes
        # '[CH2]'); `*[H]` and `[*H]` are the same molecule, so such hydrogens are turned into the wildcard's hydrogen count here,
        # exactly as RemoveHs does for every other neighbour (neutral, no isotope, one single bond)
        rw = Chem.RWMol(m)
        drop = []
        for a in rw.GetAtoms():
            if a.GetAtomicNum() == 1 and a.GetDegree() == 1 and a.GetFormalCharge() == 0 and not a.GetIsotope():
                nb = a.GetNeighbors()[0]
                if nb.GetAtomicNum() == 0 and rw.GetBondBetweenAtoms(a.GetIdx(), nb.GetIdx()).GetBondType() == Chem.BondType.SINGLE:
                    nb.SetNumExplicitHs(nb.GetNumExplicitHs() + 1)
                    nb.SetNoImplicit(True)
                    drop.append(a.GetIdx())
        for i in sorted(drop, reverse=True):
            rw.RemoveAtom(i)
        if drop:
            m = rw.GetMol()
            Chem.SanitizeMol(m)
        m = Chem.RemoveHs(m)
        Chem.RemoveStereochemistry(m)  # stereo descriptors are not among the ITS labels C01 lists
        return Chem.MolToSmiles(m)
    except Exception:
        return None


# ------------------------------------------------------------------ synthetic (G, H) pairs
ELEMS = ["C", "C", "C", "N", "O", "H", "H", "S"]


def mk_mol(nodes, labels, bonds):
    """nodes: ids; labels: id -> (element, aromatic, hcount, charge); bonds: {(u, v): order}."""
    G = nx.Graph()
    for n in nodes:
        e, ar, h, c = labels[n]
        G.add_node(n, element=e, aromatic=ar, hcount=h, charge=c, neighbors=[], atom_map=n)
    for (u, v), o in bonds.items():
        G.add_edge(u, v, order=o)
    for n in G.nodes:
        G.nodes[n]["neighbors"] = sorted(G.nodes[m]["element"] for m in G.neighbors(n))
    return G


def random_pair(rnd, nmax=9):
    """Molecule-like G (tree + ring closures, H atoms as leaves or H-H), H = G with <= 3 edits."""
    n = rnd.randint(2, nmax)
    ids = rnd.sample(range(1, 3 * n + 2), n) if rnd.random() < 0.5 else list(range(1, n + 1))
    lab = {}
    for i in ids:
        e = rnd.choice(ELEMS)
        lab[i] = (e, False, 0 if e == "H" else rnd.choice([0, 0, 1, 2, 3]), rnd.choice([0, 0, 0, 0, 1, -1]))
    bonds = {}
    for k in range(1, n):
        if rnd.random() < 0.85:
            j = rnd.randrange(k)
            bonds[(ids[j], ids[k])] = rnd.choice([1.0, 1.0, 1.0, 2.0, 1.5, 3.0])
    for _ in range(rnd.randint(0, n // 3)):
        a, b = rnd.sample(ids, 2)
        if (a, b) not in bonds and (b, a) not in bonds:
            bonds[(a, b)] = rnd.choice([1.0, 1.5, 2.0])
    for (a, b), o in list(bonds.items()):
        if o == 1.5:
            for x in (a, b):
                e, _, h, c = lab[x]
                lab[x] = (e, True, h, c)
    G = mk_mol(ids, lab, bonds)
    lab2, bonds2 = dict(lab), dict(bonds)
    tags = []
    for _ in range(rnd.randint(0, 3)):
        c = rnd.random()
        if c < 0.3 and bonds2:
            k = rnd.choice(sorted(bonds2))
            del bonds2[k]
            tags.append("break")
        elif c < 0.55:
            a, b = rnd.sample(ids, 2)
            if (a, b) not in bonds2 and (b, a) not in bonds2:
                bonds2[(a, b)] = rnd.choice([1.0, 2.0])
                tags.append("form")
        elif c < 0.75 and bonds2:
            k = rnd.choice(sorted(bonds2))
            bonds2[k] = rnd.choice([o for o in (1.0, 1.5, 2.0, 3.0) if o != bonds2[k]])
            tags.append("order")
        elif c < 0.9:
            x = rnd.choice(ids)
            e, ar, h, ch = lab2[x]
            lab2[x] = (e, ar, h, ch + rnd.choice([1, -1]))
            tags.append("charge")
        else:
            x = rnd.choice(ids)
            e, ar, h, ch = lab2[x]
            lab2[x] = (e, ar, max(0, h + rnd.choice([1, -1])), ch)
            tags.append("hcount")
    H = mk_mol(ids[::-1] if rnd.random() < 0.3 else ids, lab2, bonds2)
    return G, H, tags


def exhaustive_pairs(n, quick):
    """All (G, H) on the shared node set {1..n}: element pattern over {C, H}, every unordered pair of
    nodes with (order_G, order_H) in {0, 1, 2}^2 (0 = no bond); thorough adds one charge/hcount edit."""
    ids = list(range(1, n + 1))
    pairs = list(itertools.combinations(ids, 2))
    edits = [None] if quick else [None, "charge", "hcount"]
    for elems in itertools.product("CH", repeat=n):
        for orders in itertools.product(range(9), repeat=len(pairs)):
            for ed in edits:
                lab = {i: (elems[i - 1], False, 0 if elems[i - 1] == "H" else 1, 0) for i in ids}
                bg = {pr: float(o // 3) for pr, o in zip(pairs, orders) if o // 3}
                bh = {pr: float(o % 3) for pr, o in zip(pairs, orders) if o % 3}
                lab2 = dict(lab)
                if ed == "charge":
                    e, ar, h, c = lab2[1]
                    lab2[1] = (e, ar, h, c + 1)
                elif ed == "hcount":
                    e, ar, h, c = lab2[n]
                    lab2[n] = (e, ar, h + 1, c)
                yield mk_mol(ids, lab, bg), mk_mol(ids, lab2, bh)


def malformed_pair(rnd):
    """The defaults path: unequal node sets, missing attributes, missing bond order."""
    G, H, _ = random_pair(rnd, 7)
    kind = rnd.choice(["drop_node_H", "drop_node_G", "extra_both", "missing_attr", "missing_order", "empty_side", "order_not_a_number"])
    G, H = G.copy(), H.copy()
    if kind == "drop_node_H" and len(H) > 1:
        H.remove_node(rnd.choice(sorted(H.nodes)))
    elif kind == "drop_node_G" and len(G) > 1:
        G.remove_node(rnd.choice(sorted(G.nodes)))
    elif kind == "extra_both":
        m = max(G.nodes) + 1
        G.add_node(m, element="Cl", aromatic=False, hcount=0, charge=-1, neighbors=[], atom_map=m)
        H.add_node(m + 1, element="Na", aromatic=False, hcount=0, charge=1, neighbors=[], atom_map=m + 1)
        if rnd.random() < 0.5:
            G.add_edge(m, min(G.nodes), order=1.0)
    elif kind == "missing_attr":
        X = rnd.choice([G, H])
        n = rnd.choice(sorted(X.nodes))
        X.nodes[n].pop(rnd.choice(["element", "aromatic", "hcount", "charge", "neighbors", "atom_map"]), None)
    elif kind == "missing_order" and G.number_of_edges():
        u, v = rnd.choice(sorted(G.edges))
        G.edges[u, v].pop("order", None)
    elif kind == "order_not_a_number" and H.number_of_edges():
        u, v = rnd.choice(sorted(H.edges))
        H.edges[u, v]["order"] = rnd.choice([None, "1"])  # TypeError in _compute_standard_order; the model's error branch
    elif kind == "empty_side":
        if rnd.random() < 0.5:
            G = nx.Graph()
        else:
            H = nx.Graph()
    return G, H, kind


# ------------------------------------------------------------------ implementation adapters
# How the ITS of a pair is built (`its_via`, recorded in the case so that a replay takes the same route):
#   None                                   ITSConstruction.ITSGraph(G, H)                  (balance_its=False, store=False)
#   {"entry": "ITSGraph", "kw": {...}}     ITSConstruction.ITSGraph(G, H, **kw)
#   {"entry": "construct", "kw": {...}}    ITSConstruction.construct(G, H, **kw)           (defaults: node_attrs=None, edge_attrs=None,
#                                                                                             balance_its=True, store=True)
#   {"entry": "rsmi_to_its", "rsmi": s}    chem_converter.rsmi_to_its(s)                   (reactions only)
# kw: ignore_aromaticity, balance_its, store, attributes_defaults (a dict of plain values).
ENTRY_DEFAULTS = {"ITSGraph": {"balance": False, "store": False}, "construct": {"balance": True, "store": True},
                  "rsmi_to_its": {"balance": False, "store": False}}


def model_opts(how):
    """The options of the Lean model `its.construct` that `how` amounts to (the entry's own defaults + kw)."""
    how = how or {"entry": "ITSGraph"}
    o = dict(ENTRY_DEFAULTS[how["entry"]])
    kw = how.get("kw") or {}
    o["ignore_arom"] = bool(kw.get("ignore_aromaticity", False))
    if "balance_its" in kw:
        o["balance"] = bool(kw["balance_its"])
    if "store" in kw:
        o["store"] = bool(kw["store"])
    return o


def how_tag(how):
    if not how:
        return "ITSGraph()"
    kw = how.get("kw") or {}
    return how["entry"] + "(" + ",".join(f"{k}={'{...}' if isinstance(v, dict) else v}" for k, v in sorted(kw.items())) + ")"


def impl_its(G, H, how=None):
    from synkit.Graph.ITS.its_construction import ITSConstruction
    if not how:
        return ITSConstruction.ITSGraph(G, H)
    kw = dict(how.get("kw") or {})
    if how["entry"] == "construct":
        return ITSConstruction.construct(G, H, **kw)
    if how["entry"] == "rsmi_to_its":
        from synkit.IO.chem_converter import rsmi_to_its
        return rsmi_to_its(how["rsmi"])
    return ITSConstruction.ITSGraph(G, H, **kw)


def impl_decompose(its, keys=None):
    """`keys` = (nodes_share, edges_share): the ITS is handed over with `typesGH` / `order` stored under these names instead
    (the documented parameters of its_decompose); the answer must be the same."""
    from synkit.Graph.ITS.its_decompose import its_decompose
    if not keys:
        return its_decompose(its)
    ns, es = keys
    X = nx.Graph()
    for n, d in its.nodes(data=True):
        X.add_node(n, **{(ns if k == "typesGH" else k): v for k, v in d.items()})
    for u, v, d in its.edges(data=True):
        X.add_edge(u, v, **{(es if k == "order" else k): x for k, x in d.items()})
    return its_decompose(X, nodes_share=ns, edges_share=es)


def changed_bonds(its):
    return sum(1 for _, _, d in its.edges(data=True) if d["order"][0] != d["order"][1])


# ------------------------------------------------------------------ graph-level stream (i) + (ii)
def graph_cases(ctx, cases, tag, lossless):
    """cases: list of (G, H, meta).  Compares construct and decompose with the model; with
    `lossless` also decomposition == input.  `meta["its_via"]` names the entry point / options the ITS is built with
    (see `impl_its`), `meta["decompose_keys"]` the attribute names its_decompose is asked to read."""
    reqs, keep = [], []
    for G, H, meta in cases:
        G0, H0 = enc(G), enc(H)
        how = (meta or {}).get("its_via")
        dkeys = (meta or {}).get("decompose_keys")
        try:
            its = impl_its(G, H, how)
            g, h = impl_decompose(its, dkeys)
            out = {"its": enc(its), "g": enc(g), "h": enc(h)}
        except Exception as e:
            out = {"error": type(e).__name__}
            its = None
        if enc(G) != G0 or enc(H) != H0:
            ctx.violation("ITSGraph / its_decompose mutated its input graphs", {"G": G0, "H": H0, "meta": meta})
        keep.append((G0, H0, meta, out, its))
        reqs.append({"cmd": "its.construct", "G": G0, "H": H0, **model_opts(how)})
        reqs.append({"cmd": "its.decompose", "its": out["its"] if "its" in out else {"nodes": [], "edges": []}})
    reps = ctx.lean().ok(reqs, shards=8)
    for k, (G0, H0, meta, out, its) in enumerate(keep):
        if len(ctx.violations) >= 6:
            return
        mc, md = reps[2 * k], reps[2 * k + 1]
        case = {"stream": tag, "G": G0, "H": H0, "meta": meta}
        how = (meta or {}).get("its_via")
        user_dflt = ((how or {}).get("kw") or {}).get("attributes_defaults")
        nt = its is not None and len(its) >= 3 and changed_bonds(its) >= 1
        ctx.case([G0, H0] + ([how_tag(how), (meta or {}).get("decompose_keys")] if how or (meta or {}).get("decompose_keys") else []), nt,
                 sample={"stream": tag, "G": G0, "H": H0} if len(G0["nodes"]) <= 3 else None)
        ctx.count(f"{tag}:cases")
        if its is not None:
            ctx.count(f"{tag}:changed_bonds={min(changed_bonds(its), 4)}")
        if "error" in out or "error" in mc:
            if ("error" in out) != ("error" in mc):
                ctx.violation("ITSGraph raises where the model is defined (or the reverse)", case,
                              {"impl": out.get("error"), "model": mc.get("error")}, no_input=True)
            ctx.count(f"{tag}:error")
            continue
        if user_dflt is not None:
            # attributes_defaults: the model has the built-in defaults only.  Node set, carried atom_map and all of the edges are
            # compared with the model; typesGH and the per-attribute entries with the specification computed right here.
            nkeys = ["atom_map"]
            a, b = canon(out["its"], nkeys, ITS_EDGE_KEYS), canon(mc["graph"], nkeys, ITS_EDGE_KEYS)
            tg_ok = typesgh_ok(out["its"], G0, H0, user_dflt, model_opts(how)["store"])
            if a != b or not tg_ok:
                ctx.violation("ITS graph built with attributes_defaults differs from the specification (model for nodes / bonds / order pair / "
                              "difference; typesGH = (G label, H label) with the caller's defaults for what is missing)", case,
                              {"diff": first_diff(a, b) if a != b else "typesGH / per-attribute entries", "its_via": how_tag(how)})
                continue
        else:
            a, b = canon(out["its"], ITS_NODE_KEYS, ITS_EDGE_KEYS), canon(mc["graph"], ITS_NODE_KEYS, ITS_EDGE_KEYS)
            if a != b:
                spec = ctx.lean().ok([{"cmd": "spec.its.union", "G": G0, "H": H0, "its": out["its"]}])[0]
                ctx.violation("ITS graph differs from the proven model (union of atoms/bonds, typesGH, order pair, difference)",
                              shrink_pair(ctx, case, "construct"), {"diff": first_diff(a, b), "spec_union_holds": spec, "its_via": how_tag(how)},
                              no_input=bool(spec) and typesgh_ok(out["its"], G0, H0, None, model_opts(how)["store"]))
                continue
        if "error" in md:
            ctx.violation("its_decompose returns where the model is undefined", case, no_input=True)
            continue
        for side, impl_side, model_side, orig in (("G", out["g"], md["G"], G0), ("H", out["h"], md["H"], H0)):
            a, b = canon(impl_side, MOL_KEYS, ["order"]), canon(model_side, MOL_KEYS, ["order"])
            if a != b:
                ctx.violation(f"its_decompose ({side} side) differs from the proven model", shrink_pair(ctx, case, "decompose"),
                              {"diff": first_diff(a, b)}, no_input=lossless and a == canon(orig, MOL_KEYS, ["order"]))
                break
            if lossless and a != canon(orig, MOL_KEYS, ["order"]):
                ctx.violation(f"decomposing the ITS does not return the original {side} graph", shrink_pair(ctx, case, "roundtrip"),
                              {"diff": first_diff(a, canon(orig, MOL_KEYS, ["order"]))})
                break
        if len(ctx.violations) >= 6:
            return


CORE_DEFAULTS = {"element": "*", "aromatic": False, "hcount": 0, "charge": 0, "neighbors": ["", ""]}


def typesgh_ok(its_j, G0, H0, user_dflt=None, store=False):
    """typesGH of the implementation's ITS == the (G label, H label) pair, computed here directly (a label entry that a side
    lacks - attribute or whole node - is the caller's default if given, else the built-in one); the per-attribute entries are
    that pair's components (`store`) or its G component."""
    keys = ["element", "aromatic", "hcount", "charge", "neighbors"]
    dflt = {k: graphio.val((user_dflt or {}).get(k, CORE_DEFAULTS[k])) if k in (user_dflt or {}) else graphio.val(CORE_DEFAULTS[k])
            for k in keys}
    ga, ha = dict((n, a) for n, a in G0["nodes"]), dict((n, a) for n, a in H0["nodes"])
    for n, a in its_j["nodes"]:
        halves = [[X[n].get(k, dflt[k]) if n in X else dflt[k] for k in keys] for X in (ga, ha)]
        if a.get("typesGH") != {"t": [{"t": halves[0]}, {"t": halves[1]}]}:
            return False
        for i, k in enumerate(keys):
            want = {"t": [halves[0][i], halves[1][i]]} if store else halves[0][i]
            if a.get(k) != want:
                return False
    return True


def shrink_pair(ctx, case, what):
    """Greedy node deletion on a synthetic pair while the same kind of divergence persists."""
    G, H = graphio.to_nx(case["G"]), graphio.to_nx(case["H"])
    if len(G) > 12 or case.get("stream", "").startswith("corpus"):
        return case

    how = (case.get("meta") or {}).get("its_via")
    dkeys = (case.get("meta") or {}).get("decompose_keys")
    if how and how.get("entry") == "rsmi_to_its":
        return case

    def bad(G, H):
        try:
            its = impl_its(G, H, how)
            g, h = impl_decompose(its, dkeys)
        except Exception:
            return False
        if what == "construct":
            m = ctx.lean().ok([{"cmd": "its.construct", "G": enc(G), "H": enc(H), **model_opts(how)}])[0]
            return "graph" in m and canon(enc(its), ITS_NODE_KEYS, ITS_EDGE_KEYS) != canon(m["graph"], ITS_NODE_KEYS, ITS_EDGE_KEYS)
        if what == "decompose":
            m = ctx.lean().ok([{"cmd": "its.decompose", "its": enc(its)}])[0]
            return "G" in m and (canon(enc(g), MOL_KEYS, ["order"]) != canon(m["G"], MOL_KEYS, ["order"])
                                 or canon(enc(h), MOL_KEYS, ["order"]) != canon(m["H"], MOL_KEYS, ["order"]))
        return (canon(enc(g), MOL_KEYS, ["order"]) != canon(enc(G), MOL_KEYS, ["order"])
                or canon(enc(h), MOL_KEYS, ["order"]) != canon(enc(H), MOL_KEYS, ["order"]))

    changed = True
    while changed and len(G) > 1:
        changed = False
        for n in sorted(set(G.nodes) | set(H.nodes)):
            G2, H2 = G.copy(), H.copy()
            for X in (G2, H2):
                if n in X:
                    X.remove_node(n)
            if bad(G2, H2):
                G, H, changed = G2, H2, True
                break
    out = dict(case)
    out["G"], out["H"] = enc(G), enc(H)
    return out


# ------------------------------------------------------------------ reaction-level stream (i)–(iv)
def reaction_cases(ctx, items, tag, opts=None, route=None):
    """items: list of (src, idx, kind, rsmi[, route]).  `opts`: non-default keyword arguments for `its_to_rsmi`
    (`explicit_hydrogen`, `sanitize`); `route`: which documented entry points are taken instead of the default ones -
    {"graphs": one of GRAPH_ENTRIES, "its_via": see impl_its, "writer": see write_rsmi, "decompose_keys": [node key, edge key]}
    (an item's own route wins).  Both are recorded in the case so that a replay uses them again."""
    from synkit.IO.chem_converter import rsmi_to_its
    opts = dict(opts or {})

    gcases, iso_reqs, iso_meta = [], [], []
    for item in items:
        src, idx, kind, rsmi = item[:4]
        rt = dict(item[4]) if len(item) > 4 and item[4] else dict(route or {})
        probed = ctx.rnd.random() < 0.35
        if probed:
            # history probe, part 1: this SMILES is FIRST converted with another attribute selection;
            # whatever that leaves behind must not reach the default conversion below (a stale result
            # would have no bonds / hydrogen counts and fails the round-trip gates)
            light_calls(ctx, rsmi)
        r, p, why = reaction_graphs(rsmi)
        if why:
            ctx.count(f"{tag}:skipped:{why}")
            continue
        meta = {"src": src, "idx": idx, "variant": kind, "rsmi": rsmi}
        if opts:
            meta["opts"] = opts
        if rt:
            meta["route"] = rt
            ctx.count(f"{tag}:route:{route_tag(rt)}")
        if probed:
            # history probe, part 2: the same SMILES was converted earlier with a different (lighter or
            # heavier) attribute selection / options; the default conversion must not see any of it
            r, p = interleave_probe(ctx, rsmi, r, p)
            if r is None:
                ctx.violation("rsmi_to_graph with default options answers differently after the same SMILES was "
                              "converted with another attribute selection (hidden state between calls)", {"stream": tag, **meta})
                continue
        if rt.get("graphs"):
            # the same reaction through another documented entry point; the precondition was decided on the default route
            try:
                r, p = alt_graphs(rsmi, rt["graphs"])
                bad = r is None or p is None or set(r.nodes) != set(p.nodes) or len(r) == 0
            except Exception as e:
                r, bad = None, type(e).__name__
            if bad:
                ctx.violation("a balanced, fully mapped reaction that rsmi_to_graph parses gets no reactant / product graphs through "
                              + rt["graphs"], {"stream": tag, **meta}, {"why": bad})
                continue
        how = rt.get("its_via")
        if how and how.get("entry") == "rsmi_to_its":
            how = {"entry": "rsmi_to_its", "rsmi": rsmi}
        gmeta = dict(meta)
        if how:
            gmeta["its_via"] = how
        if rt.get("decompose_keys"):
            gmeta["decompose_keys"] = list(rt["decompose_keys"])
        gcases.append((r, p, gmeta))
        its = impl_its(r, p, how)
        stored = model_opts(how)["store"] and rt.get("writer") != "graph_to_rsmi(r,p)"
        # centre atoms decided by the harness itself (never by the implementation under test):
        # end points of bonds whose two orders differ, plus end points of H-H bonds (C02)
        rc = set()
        for u, v in r.edges():
            if not p.has_edge(u, v) or r[u][v].get("order") != p[u][v].get("order"):
                rc.update((u, v))
        for u, v in p.edges():
            if not r.has_edge(u, v):
                rc.update((u, v))
        for g in (r, p):
            for u, v in g.edges():
                if g.nodes[u].get("element") == "H" and g.nodes[v].get("element") == "H":
                    rc.update((u, v))
        hs = [n for n in r.nodes if r.nodes[n].get("element") == "H" or p.nodes[n].get("element") == "H"]
        hs_in, hs_out = [n for n in hs if n in rc], [n for n in hs if n not in rc]
        # its_to_rsmi keeps the centre's hydrogens explicit and, WHEN there is one, folds every other explicit hydrogen THAT IS
        # BONDED TO A HEAVY ATOM into the hydrogen count of that neighbour (not with explicit_hydrogen=True, and not when the
        # centre has no hydrogen: the graphs then go to RDKit as they are).  A folded output has fewer atoms, so only the
        # unmapped sides are compared.  A hydrogen outside the centre has the same bonds on both sides and none of them to a
        # hydrogen (H-H bonds are in the centre), so it is either bonded to heavy atoms only or has no bond at all.
        hs_free_out = [n for n in hs_out if r.degree(n) == 0 and p.degree(n) == 0]
        hs_bound_out = [n for n in hs_out if n not in hs_free_out]
        folded = bool(hs_in and hs_bound_out) and not opts.get("explicit_hydrogen")
        if hs_in and hs_free_out and not opts.get("explicit_hydrogen"):
            # F29 shape: a hydrogen atom without any bond outside the centre (spectator H / H+ / H-, or a free hydrogen that only
            # changes charge) while another hydrogen is in the centre, e.g.
            # [H:1][Cl:2].[NH3:3].[H+:4]>>[H:1][NH3+:3].[Cl-:2].[H+:4]: implicit_hydrogen has no atom to fold it into and must
            # leave it in the graph.  Gated like every other shape (this used to be skipped as a recorded deviation).
            ctx.count(f"{tag}:rsmi-roundtrips:free-hydrogen-outside-centre-while-centre-has-hydrogen(must be kept; F29)"
                      + (":other-spectator-hydrogens-folded" if folded else ":nothing-folded"))
        if hs and not folded:
            ctx.count(f"{tag}:rsmi-roundtrips:explicit-hydrogens-all-kept" + (":free-hydrogen-atom" if any(r.degree(n) == 0 or p.degree(n) == 0 for n in hs) else ""))
        # An ITS built with store=True carries (G value, H value) pairs under `element`; the writer then finds no hydrogen in the
        # centre and folds nothing.  Whether it should is not C01's business: where folding is possible only the unmapped sides are
        # gated for such an ITS, whichever way the writer decides.
        maybe_folded = folded or (stored and bool(hs_in and hs_bound_out) and not opts.get("explicit_hydrogen"))
        try:
            out = write_rsmi(its, r, p, rt.get("writer"), opts)
        except Exception as e:
            ctx.violation("writing the reaction SMILES of a balanced mapped reaction raises", {"stream": tag, **meta}, {"error": type(e).__name__})
            continue
        ctx.count(f"{tag}:rsmi-roundtrips" + (":folded(unmapped sides only)" if maybe_folded else ""))
        if out is None:
            ctx.violation("its_to_rsmi returns None for the ITS of a balanced mapped reaction", {"stream": tag, **meta})
            continue
        try:
            its2 = rsmi_to_its(out)
        except Exception as e:
            ctx.violation("the reaction SMILES written from the ITS does not parse back", {"stream": tag, **meta}, {"out": out, "error": type(e).__name__})
            continue
        which = None
        if not maybe_folded:      # a folded output has fewer atoms: only its unmapped sides are gated
            which = len(iso_reqs)
            iso_reqs.append(iso_request(iso_form(its), iso_form(its2)))
        l, r_ = rsmi.split(">>")
        lo, ro = out.split(">>")
        iso_meta.append((which, meta, out, len(its), len(its2), (unmapped_side(l), unmapped_side(r_)), (unmapped_side(lo), unmapped_side(ro))))
    graph_cases(ctx, gcases, tag, lossless=True)
    if len(ctx.violations) >= 6:
        return
    verdicts = ctx.lean().ok(iso_reqs, shards=8)
    for which, meta, out, n1, n2, um_in, um_out in iso_meta:
        if which is not None and not verdicts[which]:
            ctx.violation("its_to_rsmi output is not atom-map-equivalent to the input (ITS graphs not isomorphic)",
                          {"stream": tag, **meta}, {"out": out, "nodes_in": n1, "nodes_out": n2})
        if None in um_in:
            ctx.count(f"{tag}:unmapped-side-not-canonicalisable")
        elif um_in != um_out:
            ctx.violation("its_to_rsmi output has different unmapped reactants/products", {"stream": tag, **meta},
                          {"out": out, "unmapped_in": um_in, "unmapped_out": um_out})
        if len(ctx.violations) >= 6:
            return


# ------------------------------------------------------------------ stream (v): what its_to_rsmi hands to RDKit
class RsmiObserver:
    """Observation of the REAL `its_to_rsmi` pipeline, inside this process only: `chem_converter.graph_to_smi`,
    `chem_converter.GraphToMol` (entry of `graph_to_mol`) and `Hyrogen._misc.implicit_hydrogen` are wrapped by recorders that
    delegate unchanged.  Graphs are encoded on entry (`implicit_hydrogen` works on a shallow copy and edits its argument).
    One record per `graph_to_smi` call: the `preserve_atom_maps` argument, the sets `implicit_hydrogen` was called with, the
    graphs `graph_to_mol` was called with."""

    def __enter__(self):
        import synkit.IO.chem_converter as cc
        import synkit.Graph.Hyrogen._misc as hm
        self.cc, self.hm = cc, hm
        self.saved = (cc.graph_to_smi, cc.GraphToMol, hm.implicit_hydrogen)
        self.sides, self.loose, self.cur = [], 0, None
        obs = self
        real_smi, RealG2M, real_imp = self.saved

        def graph_to_smi(graph, *a, **k):
            pres = k["preserve_atom_maps"] if "preserve_atom_maps" in k else (a[1] if len(a) > 1 else None)
            rec = {"keep": None if pres is None else list(pres), "implicit": [], "mol": []}
            obs.sides.append(rec)
            obs.cur = rec
            try:
                return real_smi(graph, *a, **k)
            finally:
                obs.cur = None

        def implicit_hydrogen(graph, preserve_atom_maps, *a, **k):
            if obs.cur is not None:
                obs.cur["implicit"].append(sorted(preserve_atom_maps, key=repr))
            else:
                obs.loose += 1
            return real_imp(graph, preserve_atom_maps, *a, **k)

        class Spy(RealG2M):
            def graph_to_mol(self, graph, *a, **k):
                if obs.cur is not None:
                    try:
                        obs.cur["mol"].append(enc(graph, MOL_KEYS, ["order"]))
                    except Exception as e:
                        obs.cur["mol"].append({"unencodable": type(e).__name__})
                else:
                    obs.loose += 1
                return super().graph_to_mol(graph, *a, **k)

        cc.graph_to_smi, cc.GraphToMol, hm.implicit_hydrogen = graph_to_smi, Spy, implicit_hydrogen
        return self

    def __exit__(self, *exc):
        self.cc.graph_to_smi, self.cc.GraphToMol, self.hm.implicit_hydrogen = self.saved
        return False


def observe_rsmi(its, writer=None, G=None, H=None):
    """-> {"sides": [...], "loose": n, "raised": name|None, "out": str|None}; `its_to_rsmi` (or, with `writer`, graph_to_rsmi
    called on the pair itself, see write_rsmi) is the code under test."""
    with RsmiObserver() as obs:
        try:
            out, raised = write_rsmi(its, G, H, writer, {}), None
        except Exception as e:
            out, raised = None, type(e).__name__
    return {"sides": obs.sides, "loose": obs.loose, "raised": raised, "out": out}


def keep_set(xs):
    """The list as the set `implicit_hydrogen` receives (`set(preserve_atom_maps)`), sorted; non-integer entries are marked."""
    if all(isinstance(x, int) and not isinstance(x, bool) for x in xs):
        return sorted(set(xs))
    return ["?"] + sorted(map(repr, xs))


def rsmi_graph_diff(o, m):
    """None when the observation `o` agrees with the model reply `m` (which is defined), else a description."""
    if o["raised"]:
        return {"what": "its_to_rsmi raised", "error": o["raised"]}
    if len(o["sides"]) != 2 or o["loose"] or any(len(sd["mol"]) != 1 for sd in o["sides"]):
        return {"what": "graph_to_smi / graph_to_mol not reached exactly once per side",
                "graph_to_smi_calls": len(o["sides"]), "graph_to_mol_calls": [len(sd["mol"]) for sd in o["sides"]], "outside": o["loose"]}
    for name, sd in zip(("reactant", "product"), o["sides"]):
        k = keep_set(sd["keep"] or [])
        if k != m["keep"]:
            return {"what": f"preserve_atom_maps passed for the {name} side differs from the model's list", "impl": k, "model": m["keep"]}
        for used in sd["implicit"]:
            if keep_set(used) != m["keep"]:
                return {"what": f"implicit_hydrogen ({name} side) called with another set than the model's list", "impl": keep_set(used), "model": m["keep"]}
        if "unencodable" in sd["mol"][0]:
            return {"what": f"graph handed to graph_to_mol ({name}) cannot be encoded", "error": sd["mol"][0]["unencodable"]}
        a, b = canon(sd["mol"][0], MOL_KEYS, ["order"]), canon(m[name], MOL_KEYS, ["order"])
        if a != b:
            return {"what": f"graph handed to GraphToMol.graph_to_mol ({name} side) differs from the model's", "diff": first_diff(a, b),
                    "keep": m["keep"]}
    return None


def rsmi_graph_cases(ctx, cases, tag):
    """cases: list of (G, H, meta); meta carries `rsmi` for reactions.  Runs the real `its_to_rsmi` on ITSGraph(G, H) under
    observation and compares list + graphs with the model's `its.rsmiGraphs` on the same ITS."""
    reqs, keep = [], []
    for G, H, meta in cases:
        G0, H0 = enc(G), enc(H)
        rt = (meta or {}).get("route") or {}
        try:
            its = impl_its(G, H, rt.get("its_via"))
            its_j = enc(its)
        except Exception:
            ctx.count(f"{tag}:skipped:ITSGraph-raised-or-unencodable")   # the construct stream gates this
            continue
        # graph_to_rsmi(r, p) without an ITS builds ITSGraph(r, p) itself: the model runs on that ITS
        obs = observe_rsmi(its, rt.get("writer"), G, H)
        if rt.get("writer") == "graph_to_rsmi(r,p)" and rt.get("its_via"):
            its_j = enc(impl_its(G, H))
        if rt:
            ctx.count(f"{tag}:route:{route_tag(rt)}")
        keep.append((G0, H0, meta, its, obs))
        reqs.append({"cmd": "its.rsmiGraphs", "its": its_j})
    reps = ctx.lean().ok(reqs, shards=8)
    for (G0, H0, meta, its, obs), m in zip(keep, reps):
        if len(ctx.violations) >= 6:
            return
        case = {"stream": tag, "G": G0, "H": H0, "meta": meta}
        if meta and "rsmi" in meta:
            case.update(meta)
        nt = len(its) >= 3 and changed_bonds(its) >= 1
        ctx.case(["rsmi-graphs", G0, H0], nt)
        ctx.count(f"{tag}:cases")
        if "error" in m:
            ctx.count(f"{tag}:outside-model-domain(not gated)")
            continue
        nh = sum(1 for _, a in G0["nodes"] if a.get("element") == {"s": "H"})
        ctx.count(f"{tag}:keep=" + ("empty" if not m["keep"] else "nonempty") + ",explicit-H=" + ("none" if nh == 0 else "some"))
        if m["keep"] and len(m["reactant"]["nodes"]) < len(G0["nodes"]):
            ctx.count(f"{tag}:spectator-hydrogens-folded")
        if obs["out"] is None and not obs["raised"]:
            ctx.count(f"{tag}:rdkit-rejects-the-graphs(graphs still observed)")
        d = rsmi_graph_diff(obs, m)
        if d is None:
            continue
        # first: do the round-trip gates of C01 fail on this very input?  then that reaction / pair is the failing input
        before = len(ctx.violations)
        if "rsmi" in case:
            reaction_cases(ctx, [(case.get("src"), case.get("idx"), case.get("variant"), case["rsmi"])], tag + ":recheck", route=case.get("route"))
        else:
            gm = dict(meta or {})
            if (gm.get("route") or {}).get("its_via"):
                gm["its_via"] = gm["route"]["its_via"]
            graph_cases(ctx, [(graphio.to_nx(G0), graphio.to_nx(H0), gm)], tag + ":recheck", lossless=True)
        if len(ctx.violations) > before:
            ctx.violations[-1]["detail"] = {"first_seen_as": d, "detail": ctx.violations[-1].get("detail")}
            continue
        ctx.violation("its_to_rsmi glue (preserve_atom_maps list / graphs handed to GraphToMol) differs from the model its.rsmiGraphs "
                      "of SynKitModel/RsmiGraph.lean; the round-trip gates hold on this input", shrink_rsmi(ctx, case), d, no_input=True)


def shrink_rsmi(ctx, case):
    """Greedy node deletion on a synthetic pair while impl and model still differ."""
    if "rsmi" in case or len(case["G"]["nodes"]) > 12:
        return case
    G, H = graphio.to_nx(case["G"]), graphio.to_nx(case["H"])

    rt = (case.get("meta") or {}).get("route") or {}

    def bad(G, H):
        try:
            its = impl_its(G, H, rt.get("its_via"))
            its_m = impl_its(G, H) if rt.get("writer") == "graph_to_rsmi(r,p)" else its
            m = ctx.lean().ok([{"cmd": "its.rsmiGraphs", "its": enc(its_m)}])[0]
        except Exception:
            return False
        return "error" not in m and rsmi_graph_diff(observe_rsmi(its, rt.get("writer"), G, H), m) is not None

    changed = True
    while changed and len(G) > 1:
        changed = False
        for n in sorted(set(G.nodes) | set(H.nodes)):
            G2, H2 = G.copy(), H.copy()
            for X in (G2, H2):
                if n in X:
                    X.remove_node(n)
            if bad(G2, H2):
                G, H, changed = G2, H2, True
                break
    out = dict(case)
    out["G"], out["H"] = enc(G), enc(H)
    return out


def rsmi_graph_items(ctx):
    """Reactions for stream (v): uspto (explicit hydrogens in the centre), ecoli (a few explicit H / H+), hydro (hydrogen
    counts change, no explicit hydrogen: empty-list branch) x {identity, spectators with explicit hydrogens incl. H2,
    spectator (H2 / ions / water), reversal, sparse renumbering}."""
    recs = load_reactions()
    by = {s: [r for r in recs if r["src"] == s] for s in ("ecoli", "uspto", "hydro")}
    plan = []
    if ctx.quick:
        for kind, n_us, n_hy, n_ec in (("identity", 40, 25, 25), ("spectator_h", 40, 25, 15), ("spectator", 15, 10, 0), ("reverse", 15, 10, 0)):
            for src, n in (("uspto", n_us), ("hydro", n_hy), ("ecoli", n_ec)):
                plan += [(kind, r) for r in ctx.rnd.sample(by[src], min(n, len(by[src])))]
    else:
        for kind in ("identity", "spectator_h", "spectator", "reverse", "renumber_sparse"):
            plan += [(kind, r) for r in recs]
    cases = []
    for kind, rec in plan:
        try:
            v = variant(rec["rsmi"], kind, ctx.rnd)
        except Exception:
            v = None
        if v is None:
            ctx.count(f"rsmi-graphs:corpus:variant-failed:{kind}")
            continue
        r, p, why = reaction_graphs(v)
        if why:
            ctx.count(f"rsmi-graphs:corpus:skipped:{why}")
            continue
        cases.append((r, p, {"src": rec["src"], "idx": rec["idx"], "variant": kind, "rsmi": v}))
    return cases


def rsmi_graph_stream(ctx, radical_cases=None):
    rsmi_graph_cases(ctx, rsmi_graph_items(ctx), "rsmi-graphs:corpus")
    if ctx.violations:
        return
    rsmi_graph_cases(ctx, radical_cases or [], "rsmi-graphs:radical")
    if ctx.violations:
        return
    ex = []
    for n in (1, 2, 3):
        allp = [(G, H, {"n": n}) for G, H in exhaustive_pairs(n, True)]
        ex += allp if (n < 3 or not ctx.quick) else ctx.rnd.sample(allp, 700)
    rsmi_graph_cases(ctx, ex, "rsmi-graphs:exhaustive")
    if ctx.violations:
        return
    rnd_cases = []
    for _ in range(300 if ctx.quick else 4000):
        G, H, tags = random_pair(ctx.rnd)
        rnd_cases.append((G, H, {"edits": tags}))
    rsmi_graph_cases(ctx, rnd_cases, "rsmi-graphs:random")


def corpus_items(ctx, per_variant):
    recs = load_reactions()
    kinds = ["identity", "renumber", "renumber_sparse", "reroot", "shuffle", "reverse", "spectator"]
    items = []
    for kind in kinds:
        chosen = recs if per_variant is None else ctx.rnd.sample(recs, min(per_variant, len(recs)))
        for rec in chosen:
            try:
                v = variant(rec["rsmi"], kind, ctx.rnd)
            except Exception:
                v = None
            if v is None:
                ctx.count(f"corpus:variant-failed:{kind}")
                continue
            items.append((rec["src"], rec["idx"], kind, v))
    return items


def _variants_of(ctx, tag, recs, kind, draws=1):
    """-> items (src, idx, kind, variant) for the reactions `recs` ({"src", "idx", "rsmi"}); failures counted."""
    items = []
    for rec in recs:
        for _ in range(draws):
            try:
                v = variant(rec["rsmi"], kind, ctx.rnd)
            except Exception:
                v = None
            if v is None:
                ctx.count(f"{tag}:variant-not-applicable:{kind}")
                continue
            items.append((rec["src"], rec["idx"], kind, v))
    return items


def radical_stream(ctx):
    """Rare-but-legal reactions the corpora do not contain: free hydrogen atoms (H, H+, H-), radicals, carbenes, bare atoms and
    ions - atoms whose hydrogen count RDKit re-guesses unless graph -> molecule pins it - as hand-written elementary steps,
    as unchanged spectators of corpus reactions, as free-hydrogen forms of the corpus' H-X cleavages and as opened valences
    on corpus atoms; then the same kind of input through the non-default options of its_to_rsmi; then repeated / re-ordered
    queries.  Gates are those of `reaction_cases` (graph part with the model, ITS isomorphism by Lean, unmapped sides)."""
    recs = load_reactions()
    hand = [{"src": "radical-ionic-steps", "idx": i, "rsmi": x} for i, x in enumerate(RADICAL_IONIC_STEPS)]
    with_h = [r for r in recs if re.search(r"\[H[+-]?:\d+\]", r["rsmi"])]
    q = ctx.quick
    tag = "radical"

    def some(pop, n):
        return pop if not q else ctx.rnd.sample(pop, min(n, len(pop)))

    items = []
    for kind in ("identity", "reverse", "renumber_sparse", "shuffle", "reroot", "free_species", "radical", "spectator_h"):
        items += _variants_of(ctx, tag, hand, kind, 1 if q or kind in ("identity", "reverse") else 4)
    items += _variants_of(ctx, tag, some(with_h, 45), "free_h", 1 if q else 3)
    items += _variants_of(ctx, tag, some(recs, 45), "free_species", 1 if q else 2)
    items += _variants_of(ctx, tag, some(recs, 35), "radical", 1 if q else 2)
    # composed: a free-hydrogen form with open-shell spectators, in reverse
    for src, idx, kind, v in _variants_of(ctx, tag, some(with_h, 20), "free_h"):
        try:
            w = variant(variant(v, "free_species", ctx.rnd), "reverse", ctx.rnd)
        except Exception:
            continue
        items.append((src, idx, "free_h+free_species+reverse", w))
    for it in items:
        ctx.count(f"{tag}:generated:{it[2]}")
    reaction_cases(ctx, items, tag)
    if ctx.violations:
        return

    # option variation: the reaction SMILES written with explicit_hydrogen=True (every explicit hydrogen stays an atom, nothing
    # is folded: all gates apply whatever the centre is) and with sanitize=False
    base = [(r["src"], r["idx"], "identity", r["rsmi"]) for r in hand]
    for opts, pops in (({"explicit_hydrogen": True}, (("free_h", with_h, 30), ("spectator_h", recs, 30), ("free_species", recs, 25), ("identity", recs, 25))),
                       ({"sanitize": False}, (("free_h", with_h, 20), ("free_species", recs, 20), ("identity", recs, 20))),
                       ({"explicit_hydrogen": True, "sanitize": False}, (("free_species", recs, 15), ("spectator_h", recs, 15)))):
        its_ = list(base) + _variants_of(ctx, tag, hand, "free_species")
        for kind, pop, n in pops:
            its_ += _variants_of(ctx, tag, some(pop, n), kind)
        otag = tag + ":" + ",".join(f"{k}={v}" for k, v in sorted(opts.items()))
        reaction_cases(ctx, its_, otag, opts=opts)
        if ctx.violations:
            return

    # hidden state between calls: the same queries again, in another order, default options after the option runs above
    again = list(base) + ctx.rnd.sample(items, min(len(items), 60 if q else 400))
    ctx.rnd.shuffle(again)
    reaction_cases(ctx, again, tag + ":repeat")
    if ctx.violations:
        return

    # for stream (v) on the same population: list + graphs its_to_rsmi hands to GraphToMol == model its.rsmiGraphs
    cases = []
    for src, idx, kind, v in base + ctx.rnd.sample(items, min(len(items), 120 if q else 1500)):
        r, p, why = reaction_graphs(v)
        if why:
            continue
        cases.append((r, p, {"src": src, "idx": idx, "variant": kind, "rsmi": v}))
    return cases


# ------------------------------------------------------------------ stream `padding`: genuine atoms that look like default / padding values
PAD_ELEMS = ["*", "*", "*", "C", "N", "O", "H", "Cl", "He"]


def padding_pair(rnd, nmax=7):
    """Balanced synthetic pair in which most atoms carry the code's default values (element '*' or a real one, aromatic False,
    hcount 0, charge 0) and some atoms lose ALL their bonds on one side (or never had one): G = forest with 0-2 ring closures,
    H = G with 1-2 atoms isolated / attached + at most one charge or hydrogen-count edit; sides swapped half of the time."""
    n = rnd.randint(1, nmax)
    ids = rnd.sample(range(1, 3 * n + 2), n) if rnd.random() < 0.5 else list(range(1, n + 1))
    lab = {}
    for i in ids:
        e = rnd.choice(PAD_ELEMS)
        lab[i] = (e, False, 0 if e == "H" or rnd.random() < 0.75 else rnd.choice([1, 2]), 0 if rnd.random() < 0.75 else rnd.choice([1, -1]))
    bonds = {}
    for k in range(1, n):
        if rnd.random() < 0.7:
            bonds[(ids[rnd.randrange(k)], ids[k])] = rnd.choice([1.0, 1.0, 1.0, 2.0, 3.0])
    for _ in range(rnd.randint(0, n // 3)):
        a, b = rnd.sample(ids, 2)
        if (a, b) not in bonds and (b, a) not in bonds:
            bonds[(a, b)] = rnd.choice([1.0, 2.0])
    lab2, bonds2, tags = dict(lab), dict(bonds), []
    for _ in range(rnd.choice([1, 1, 2])):
        x = rnd.choice(ids)
        mine = [k for k in bonds2 if x in k]
        if mine and rnd.random() < 0.75:
            for k in mine:
                del bonds2[k]
            tags.append("isolate")
        elif n > 1:
            y = rnd.choice([i for i in ids if i != x])
            if (x, y) not in bonds2 and (y, x) not in bonds2:
                bonds2[(x, y)] = rnd.choice([1.0, 1.0, 2.0])
                tags.append("attach")
    c = rnd.random()
    if c < 0.2:
        x = rnd.choice(ids)
        e, ar, h, ch = lab2[x]
        lab2[x] = (e, ar, h, ch + rnd.choice([1, -1]))
        tags.append("charge")
    elif c < 0.3:
        x = rnd.choice(ids)
        e, ar, h, ch = lab2[x]
        if e != "H":
            lab2[x] = (e, ar, h + 1, ch)
            tags.append("hcount")
    G, H = mk_mol(ids, lab, bonds), mk_mol(ids[::-1] if rnd.random() < 0.3 else ids, lab2, bonds2)
    if rnd.random() < 0.5:
        G, H = H, G
        tags.append("swapped")
    return G, H, tags


def default_valued_pairs(n):
    """All (G, H) on the shared node set {1..n} whose atoms ALL carry default values (aromatic False, hcount 0, charge 0) and an
    element from {'*', 'C'}; every unordered pair of nodes with (order_G, order_H) in {0, 1, 2}^2."""
    ids = list(range(1, n + 1))
    pairs = list(itertools.combinations(ids, 2))
    for elems in itertools.product("*C", repeat=n):
        lab = {i: (elems[i - 1], False, 0, 0) for i in ids}
        for orders in itertools.product(range(9), repeat=len(pairs)):
            bg = {pr: float(o // 3) for pr, o in zip(pairs, orders) if o // 3}
            bh = {pr: float(o % 3) for pr, o in zip(pairs, orders) if o % 3}
            yield mk_mol(ids, lab, bg), mk_mol(ids, lab, bh)


def reader_cases(ctx, recs, tag):
    """Hand-written steps ARE balanced and fully mapped (every atom written in brackets with its own map number): the reader must
    return, per side, exactly the atoms written there - decided here from the text, not by the code under test, so that a reader
    that loses a default-looking atom on both sides cannot move the reaction out of the precondition unnoticed."""
    from synkit.IO.chem_converter import rsmi_to_graph
    for rec in recs:
        l, r_ = rec["rsmi"].split(">>")
        want = [sorted(int(x) for x in re.findall(r":(\d+)\]", s)) for s in (l, r_)]
        try:
            g, h = rsmi_to_graph(rec["rsmi"])
            got = [None if x is None else sorted(x.nodes) for x in (g, h)]
        except Exception as e:
            got = type(e).__name__
        ctx.case(["reader", rec["rsmi"]], False)
        ctx.count(f"{tag}:reader-keeps-every-written-atom:checked")
        if got != want:
            ctx.violation("rsmi_to_graph does not return exactly the mapped atoms written on each side of a balanced, fully mapped reaction",
                          {"stream": tag, "gate": "reader", "src": rec["src"], "idx": rec["idx"], "variant": "identity", "rsmi": rec["rsmi"]},
                          {"atoms_written": want, "atoms_read": got})
            if len(ctx.violations) >= 3:
                return


def padding_stream(ctx):
    """Atoms whose labels coincide with a default / padding value of the code (element '*', charge 0, hcount 0, aromatic False,
    no bond on one side or on both) as GENUINE mapped atoms of balanced reactions - hand-written steps, wildcard / bare-atom
    spectators, corpus and radical steps with atoms turned into wildcards, terminal atoms cut loose on one side - through all
    gates of `reaction_cases`, the writer options, the other routes, a shuffled repeat; the same at graph level against the
    model (construct / decompose with the option grid).  Returns cases for stream (v)."""
    recs = load_reactions()
    q = ctx.quick
    tag = "padding"
    hand = [{"src": "default-like-steps", "idx": i, "rsmi": x} for i, x in enumerate(WILD_STEPS)]
    rad = [{"src": "radical-ionic-steps", "idx": i, "rsmi": x} for i, x in enumerate(RADICAL_IONIC_STEPS)]

    def some(pop, n, nt=None):
        n = n if q else nt
        return pop if n is None else ctx.rnd.sample(pop, min(n, len(pop)))

    reader_cases(ctx, hand + rad, tag)
    if ctx.violations:
        return [], []
    items = []
    for kind in ("identity", "reverse"):
        items += _variants_of(ctx, tag, hand, kind)
    for kind in ("renumber_sparse", "shuffle", "reroot", "wild_spectator", "spectator_h", "free_species", "wildcardize", "cut_wild"):
        items += _variants_of(ctx, tag, some(hand, 12), kind, 1 if q else 3)
    items += _variants_of(ctx, tag, some(rad, 30), "wildcardize", 1 if q else 4)
    items += _variants_of(ctx, tag, some(rad, 15), "wild_spectator", 1 if q else 2)
    for kind, n in (("wild_spectator", 20), ("wildcardize", 20), ("cut", 20), ("cut_wild", 30)):
        items += _variants_of(ctx, tag, some(recs, n, 250), kind)
    for src, idx, kind, v in _variants_of(ctx, tag, some(recs, 12, 120), "cut_wild"):
        try:
            w = variant(variant(v, "wild_spectator", ctx.rnd), "reverse", ctx.rnd)
        except Exception:
            continue
        items.append((src, idx, "cut_wild+wild_spectator+reverse", w))
    for it in items:
        ctx.count(f"{tag}:generated:{it[2]}")
        r, p, why = reaction_graphs(it[3])
        if not why:
            for s in padding_shapes(r, p):
                ctx.count(f"{tag}:shape:{s}")
    reaction_cases(ctx, items, tag)
    if ctx.violations:
        return [], []

    base = [(r["src"], r["idx"], "identity", r["rsmi"]) for r in hand]
    for opts in ({"explicit_hydrogen": True}, {"sanitize": False}):
        its_ = ctx.rnd.sample(base, 20 if q else len(base)) + ctx.rnd.sample(items, min(len(items), 25 if q else 400))
        reaction_cases(ctx, its_, tag + ":" + ",".join(f"{k}={v}" for k, v in sorted(opts.items())), opts=opts)
        if ctx.violations:
            return [], []
    routes = reaction_routes()
    routed = [it[:4] + (ctx.rnd.choice(routes),) for it in ctx.rnd.sample(base, 20 if q else len(base))
              + ctx.rnd.sample(items, min(len(items), 25 if q else 500))]
    reaction_cases(ctx, routed, tag + ":route")
    if ctx.violations:
        return [], []
    again = ctx.rnd.sample(base, 15 if q else len(base)) + ctx.rnd.sample(items, min(len(items), 25 if q else 300))
    ctx.rnd.shuffle(again)
    reaction_cases(ctx, again, tag + ":repeat")
    if ctx.violations:
        return [], []

    # graph level: construct / decompose against the model with the option grid, decomposition == input
    grid = how_grid()
    pairs = [(G, H, {"n": n, "family": "default-valued"}) for n in (1, 2) for G, H in default_valued_pairs(n)]
    all3 = list(default_valued_pairs(3))
    pairs += [(G, H, {"n": 3, "family": "default-valued"}) for G, H in (ctx.rnd.sample(all3, 150) if q else all3)]
    for _ in range(250 if q else 4000):
        G, H, tags = padding_pair(ctx.rnd)
        pairs.append((G, H, {"edits": tags}))
    gc = []
    for G, H, meta in pairs:
        for s in padding_shapes(G, H):
            ctx.count(f"{tag}:graph:shape:{s}")
        gc.append((G, H, dict(meta, its_via=ctx.rnd.choice(grid)) if ctx.rnd.random() < 0.5 else meta))
    graph_cases(ctx, gc, tag + ":graph", lossless=True)
    if ctx.violations:
        return [], []

    vroutes = [None, None, {"writer": "graph_to_rsmi(r,p)"}, {"writer": "graph_to_rsmi(r,p,its)"}, {"its_via": {"entry": "construct"}}]
    cases = []
    for src, idx, kind, v in base + ctx.rnd.sample(items, min(len(items), 60 if q else 1000)):
        r, p, why = reaction_graphs(v)
        if why:
            continue
        cases.append((r, p, {"src": src, "idx": idx, "variant": kind, "rsmi": v}))
    gcases = []
    for G, H, meta in (ctx.rnd.sample(pairs, 250) if q else pairs):
        rt = ctx.rnd.choice(vroutes)
        gcases.append((G, H, dict(meta, route=rt) if rt else meta))
    return cases, gcases


# ------------------------------------------------------------------ coverage-gap streams: the other documented entry points and options
def how_grid():
    """Every (entry, ignore_aromaticity, balance_its, store) combination; an option left out takes the entry's own default
    (ITSGraph: balance_its=False, store=False; construct: balance_its=True, store=True, node_attrs=None, edge_attrs=None)."""
    out = []
    for entry in ("construct", "ITSGraph"):
        for ia in (None, True):
            for bal in (None, True, False):
                for st in (None, True, False):
                    kw = {}
                    if ia is not None:
                        kw["ignore_aromaticity"] = ia
                    if bal is not None:
                        kw["balance_its"] = bal
                    if st is not None:
                        kw["store"] = st
                    out.append({"entry": entry, "kw": kw} if kw else {"entry": entry})
    return out


USER_DEFAULTS = [
    {"element": "X", "hcount": 2, "charge": -1},
    {"aromatic": True, "neighbors": ["?"], "atom_map": 7},
    {"element": "R", "aromatic": True, "hcount": 1, "charge": 1, "neighbors": [], "not_a_core_key": 5},
    {},
]


def unbalanced_pair(rnd):
    """Partly overlapping node sets of different sizes (each side may have atoms the other lacks): which graph is copied as the
    base then depends on balance_its, and the other side's own atoms are added from G or from H."""
    G, H, _ = random_pair(rnd, 8)
    G, H = G.copy(), H.copy()
    kg, kh = rnd.choice([(0, 1), (1, 0), (1, 2), (2, 1), (0, 2), (2, 0), (1, 1)])
    for X, k in ((G, kg), (H, kh)):
        for n in rnd.sample(sorted(X.nodes), min(k, len(X) - 1)):
            X.remove_node(n)
    return G, H, f"drop{kg}G,drop{kh}H"


def half_unit_change(G, H):
    """a bond whose two orders differ by less than one (aromatic <-> single / double): what ignore_aromaticity is about"""
    for u, v in set(G.edges) | set(H.edges):
        a = G[u][v].get("order", 0) if G.has_edge(u, v) else 0
        b = H[u][v].get("order", 0) if H.has_edge(u, v) else 0
        if isinstance(a, (int, float)) and isinstance(b, (int, float)) and 0 < abs(a - b) < 1:
            return True
    return False


def entry_stream(ctx):
    """Graph level: ITSConstruction.construct (the primary entry; ITSGraph is its wrapper) and ITSGraph with every combination of
    ignore_aromaticity / balance_its / store, attributes_defaults, and its_decompose reading renamed attributes - against the
    same Lean model (`its.construct` with the options, `its.decompose`) and, for balanced pairs, decomposition == input."""
    q = ctx.quick
    grid = how_grid()
    tag = "entry"

    def with_how(G, H, meta, how, lossless_bucket):
        m = dict(meta, its_via=how)
        if ctx.rnd.random() < 0.3:
            m["decompose_keys"] = ctx.rnd.choice([["tgh", "bond"], ["types", "order"], ["typesGH", "o"]])
            ctx.count(f"{tag}:its_decompose(nodes_share,edges_share)=renamed")
        ctx.count(f"{tag}:via:{how_tag(how)}")
        o = model_opts(how)
        ctx.count(f"{tag}:effective:ignore_aromaticity={o['ignore_arom']},balance_its={o['balance']},store={o['store']}")
        if o["ignore_arom"] and half_unit_change(G, H):
            ctx.count(f"{tag}:ignore_aromaticity=True-with-a-bond-changing-by-less-than-one")
        lossless_bucket.append((G, H, m))

    bal, unbal = [], []
    # all pairs on <= 2 shared atoms x a fixed spread of the grid; sampled pairs on 3 atoms x random grid points
    spread = [grid[i] for i in (0, 2, 5, 9, 13, 18, 20, 22, 27, 31, 35)]
    for n in (1, 2):
        for G, H in exhaustive_pairs(n, True):
            for how in spread:
                with_how(G, H, {"n": n}, how, bal)
    all3 = list(exhaustive_pairs(3, True))
    for G, H in ctx.rnd.sample(all3, 250 if q else 4000):
        with_how(G, H, {"n": 3}, ctx.rnd.choice(grid), bal)
    for _ in range(350 if q else 5000):
        G, H, tags = random_pair(ctx.rnd)
        with_how(G, H, {"edits": tags}, ctx.rnd.choice(grid), bal)
    graph_cases(ctx, bal, tag + ":balanced", lossless=True)
    if ctx.violations:
        return
    for _ in range(250 if q else 3000):
        if ctx.rnd.random() < 0.5:
            G, H, kind = unbalanced_pair(ctx.rnd)
        else:
            G, H, kind = malformed_pair(ctx.rnd)
        ctx.count(f"{tag}:unbalanced:{kind}")
        if len(G) > len(H) and set(G.nodes) - set(H.nodes):
            ctx.count(f"{tag}:unbalanced:G-larger-with-own-atoms")
        if len(H) > len(G) and set(G.nodes) - set(H.nodes):
            ctx.count(f"{tag}:unbalanced:H-larger-and-G-has-own-atoms")
        with_how(G, H, {"malformed": kind}, ctx.rnd.choice(grid), unbal)
    graph_cases(ctx, unbal, tag + ":unbalanced", lossless=False)
    if ctx.violations:
        return
    dfl = []
    for _ in range(120 if q else 1500):
        c = ctx.rnd.random()
        G, H, kind = unbalanced_pair(ctx.rnd) if c < 0.4 else malformed_pair(ctx.rnd) if c < 0.8 else random_pair(ctx.rnd)
        how = dict(ctx.rnd.choice(grid))
        how["kw"] = dict(how.get("kw") or {}, attributes_defaults=ctx.rnd.choice(USER_DEFAULTS))
        ctx.count(f"{tag}:attributes_defaults:" + ",".join(sorted(how["kw"]["attributes_defaults"])))
        dfl.append((G, H, {"malformed": str(kind), "its_via": how}))
    graph_cases(ctx, dfl, tag + ":attributes_defaults", lossless=False)


def reaction_routes():
    cons = {"entry": "construct"}
    return [
        {"writer": "graph_to_rsmi(r,p)"},
        {"writer": "graph_to_rsmi(r,p,its)"},
        {"its_via": cons},
        {"its_via": cons, "writer": "graph_to_rsmi(r,p,its)"},
        {"its_via": {"entry": "construct", "kw": {"store": False}}},
        {"its_via": {"entry": "ITSGraph", "kw": {"store": True}}},
        {"its_via": {"entry": "ITSGraph", "kw": {"ignore_aromaticity": True}}},
        {"its_via": {"entry": "construct", "kw": {"ignore_aromaticity": True, "balance_its": False}}},
        {"its_via": {"entry": "rsmi_to_its"}},
        {"decompose_keys": ["tgh", "bond"]},
    ] + [{"graphs": g} for g in GRAPH_ENTRIES] + [
        {"graphs": "MolToGraph.mol_to_graph(light_weight=True)", "its_via": cons, "writer": "graph_to_rsmi(r,p)"},
        {"graphs": "MolToGraph.mol_to_graph(light_weight=False)", "writer": "graph_to_rsmi(r,p,its)"},
    ]


def route_stream(ctx):
    """Reaction level, all gates of `reaction_cases`: the same reactions through the other documented entry points - reactant /
    product graphs from MolToGraph.mol_to_graph (light-weight and detailed), transform_store, rsmi_to_graph with other
    selections; the ITS from ITSConstruction.construct / ITSGraph with options / rsmi_to_its; the reaction SMILES from
    graph_to_rsmi with and without an ITS.  Returns cases for stream (v)."""
    recs = load_reactions()
    q = ctx.quick
    tag = "route"
    hand = [{"src": "radical-ionic-steps", "idx": i, "rsmi": x} for i, x in enumerate(RADICAL_IONIC_STEPS)]
    with_h = [r for r in recs if re.search(r"\[H[+-]?:\d+\]", r["rsmi"])]
    arom = [r for r in recs if re.search(r"\[c|\[n", r["rsmi"])]
    items = []
    for rt in reaction_routes():
        pop = (ctx.rnd.sample(hand, 9 if q else len(hand)) + ctx.rnd.sample(recs, 6 if q else 120)
               + ctx.rnd.sample(with_h, min(len(with_h), 3 if q else 40)) + ctx.rnd.sample(arom, min(len(arom), 3 if q else 40)))
        for rec in pop:
            kind = ctx.rnd.choice(["identity", "identity", "reverse", "renumber_sparse", "spectator_h", "shuffle"])
            try:
                v = variant(rec["rsmi"], kind, ctx.rnd)
            except Exception:
                v = None
            if v is None:
                ctx.count(f"{tag}:variant-not-applicable:{kind}")
                continue
            items.append((rec["src"], rec["idx"], kind, v, rt))
    reaction_cases(ctx, items, tag)
    if ctx.violations:
        return []
    # the writer options on the graph_to_rsmi route
    for opts in ({"explicit_hydrogen": True}, {"sanitize": False}):
        its_ = [(r["src"], r["idx"], "identity", r["rsmi"], {"writer": "graph_to_rsmi(r,p)"}) for r in ctx.rnd.sample(hand, 12 if q else len(hand))]
        its_ += [(r["src"], r["idx"], "identity", r["rsmi"], {"writer": "graph_to_rsmi(r,p)"}) for r in ctx.rnd.sample(recs, 8 if q else 100)]
        reaction_cases(ctx, its_, tag + ":" + ",".join(f"{k}={v}" for k, v in sorted(opts.items())), opts=opts)
        if ctx.violations:
            return []
    # stream (v) on the routes that change what the writer is handed
    cases = []
    vroutes = [{"writer": "graph_to_rsmi(r,p)"}, {"writer": "graph_to_rsmi(r,p,its)"}, {"its_via": {"entry": "construct"}},
               {"its_via": {"entry": "construct"}, "writer": "graph_to_rsmi(r,p)"}]
    for src, idx, kind, v, _ in ctx.rnd.sample(items, min(len(items), 80 if q else 1200)):
        r, p, why = reaction_graphs(v)
        if why:
            continue
        cases.append((r, p, {"src": src, "idx": idx, "variant": kind, "rsmi": v, "route": ctx.rnd.choice(vroutes)}))
    for _ in range(120 if q else 1500):
        G, H, tags = random_pair(ctx.rnd)
        cases.append((G, H, {"edits": tags, "route": ctx.rnd.choice(vroutes)}))
    all2 = [(G, H) for n in (1, 2) for G, H in exhaustive_pairs(n, True)]
    for G, H in all2:
        for rt in vroutes:
            cases.append((G, H, {"n": len(G), "route": rt}))
    return cases


# rsmi_to_its(rsmi, explicit_hydrogen=True): the ITS of the same reaction with every hydrogen count written as hydrogen atoms
XH_CLASS = "rsmi_to_its(explicit_hydrogen=True):hydrogen-count-kept-on-one-side-next-to-the-new-hydrogen-atoms"
XH_TINY = ["[ClH:1]>>[ClH:1]", "[Na+:1].[Cl-:2]>>[Na:1][Cl:2]", "[OH:1][OH:2]>>[OH:1].[OH:2]", "[H:1][H:2]>>[H:1].[H:2]",
           "[OH-:1].[H+:2]>>[OH:1][H:2]", "[CH3:1][Cl:2].[OH-:3]>>[CH3:1][OH:3].[Cl-:2]"]


def explicit_its_spec(r, p, X):
    """None when the ITS `X` is the ITS of the reaction (r, p) with hydrogen counts turned into hydrogen atoms, decided here from
    the two input graphs: same heavy skeleton, labels and bond orders on each side; every new atom is a neutral hydrogen with
    one single bond, the same on both sides, to an original atom; per original atom and side, hydrogen count + new hydrogen
    neighbours == the input's hydrogen count.  Else (side, description)."""
    g, h = impl_decompose(X)
    orig = set(r.nodes)
    for side, got, want in (("reactant", g, r), ("product", h, p)):
        if not orig <= set(got.nodes):
            return side, "atoms of the input are missing"
        new = set(got.nodes) - orig
        for n in sorted(new):
            d = got.nodes[n]
            nb = list(got.neighbors(n))
            if d.get("element") != "H" or d.get("charge") != 0 or d.get("hcount") != 0 or len(nb) != 1 or nb[0] not in orig \
                    or got[n][nb[0]].get("order") != 1:
                return side, f"new atom {n} is not a neutral hydrogen with one single bond to an atom of the input"
        for n in sorted(orig):
            a, b = got.nodes[n], want.nodes[n]
            if any(a.get(k) != b.get(k) for k in ("element", "aromatic", "charge")):
                return side, f"label of atom {n} changed"
            k = sum(1 for m in got.neighbors(n) if m in new)
            if a.get("hcount") + k != b.get("hcount"):
                return side, (f"atom {n}: hydrogen count {a.get('hcount')} + {k} new hydrogen atoms != {b.get('hcount')} of the input")
        e1 = sorted((min(u, v), max(u, v), d.get("order")) for u, v, d in got.edges(data=True) if u in orig and v in orig)
        e2 = sorted((min(u, v), max(u, v), d.get("order")) for u, v, d in want.edges(data=True))
        if e1 != e2:
            return side, "bonds between atoms of the input changed"
    return None


def explicit_its_cases(ctx, items, tag):
    """items: (src, idx, kind, rsmi).  rsmi_to_its(rsmi, explicit_hydrogen=True) against `explicit_its_spec`, and the reaction
    SMILES written from it against the input's unmapped sides.  The Lean model has no hydrogen-expansion of an ITS; the
    specification is evaluated in the harness from the input graphs (see ctx.assumptions)."""
    from synkit.IO.chem_converter import rsmi_to_its, its_to_rsmi
    reported = 0
    for src, idx, kind, rsmi in items:
        r, p, why = reaction_graphs(rsmi)
        if why:
            ctx.count(f"{tag}:skipped:{why}")
            continue
        case = {"stream": "explicit-its", "src": src, "idx": idx, "variant": kind, "rsmi": rsmi}
        nh = sum(d.get("hcount", 0) for _, d in r.nodes(data=True))
        ctx.case(["explicit-its", enc(r), enc(p)], len(r) >= 3 and nh > 0)
        ctx.count(f"{tag}:cases:" + ("no-hydrogen-count-anywhere" if nh == 0 and not any(d.get("hcount") for _, d in p.nodes(data=True)) else "with-hydrogen-counts"))
        try:
            X = rsmi_to_its(rsmi, explicit_hydrogen=True)
        except Exception as e:
            ctx.violation("rsmi_to_its(explicit_hydrogen=True) raises on a balanced mapped reaction", case, {"error": type(e).__name__})
            continue
        bad = explicit_its_spec(r, p, X)
        if bad is not None:
            ctx.count(f"{tag}:spec-fails:{bad[0]}")
            if reported < 3:
                reported += 1
                out = None
                try:
                    out = its_to_rsmi(X)
                except Exception:
                    pass
                ctx.violation("rsmi_to_its(explicit_hydrogen=True) does not return the ITS of the input reaction with its hydrogens made "
                              "explicit: decomposing it gives another molecule on the " + bad[0] + " side", case,
                              {"side": bad[0], "why": bad[1], "its_to_rsmi_of_it": out}, classes=[XH_CLASS] if "hydrogen count" in bad[1] else [])
            continue
        out = its_to_rsmi(X)
        l, r_ = rsmi.split(">>")
        um_in = (unmapped_side(l), unmapped_side(r_))
        if out is None:
            ctx.violation("its_to_rsmi returns None for the ITS rsmi_to_its(explicit_hydrogen=True) built", case)
        elif None not in um_in:
            lo, ro = out.split(">>")
            if (unmapped_side(lo), unmapped_side(ro)) != um_in:
                ctx.violation("its_to_rsmi of rsmi_to_its(explicit_hydrogen=True) has different unmapped reactants/products", case, {"out": out})


def explicit_its_stream(ctx):
    recs = load_reactions()
    items = [("tiny", i, "identity", x) for i, x in enumerate(XH_TINY)]
    items += [(r["src"], r["idx"], "identity", r["rsmi"]) for r in ctx.rnd.sample(recs, 10 if ctx.quick else 150)]
    items += [("radical-ionic-steps", i, "identity", x) for i, x in ctx.rnd.sample(list(enumerate(RADICAL_IONIC_STEPS)), 8 if ctx.quick else 58)]
    explicit_its_cases(ctx, items, "explicit-its")


def load_regress(pid):
    d = ROOT / "regress" / pid
    return [json.loads(f.read_text()) for f in sorted(d.glob("*.json"))] if d.exists() else []


def run_regress(ctx, pid="C01"):
    for c in load_regress(pid):
        c = c.get("case", c)
        if "rsmi" in c:
            reaction_cases(ctx, [(c.get("src", "regress"), c.get("idx", -1), c.get("variant", "identity"), c["rsmi"])], "regress", opts=c.get("opts"),
                           route=c.get("route"))
        else:
            graph_cases(ctx, [(graphio.to_nx(c["G"]), graphio.to_nx(c["H"]), c.get("meta"))], "regress", c.get("lossless", True))
        ctx.count("regress_cases")


def run(ctx):
    quiet()
    ctx.trusted = [
        "Lean 4.33 kernel; axioms of the property theorems as listed in obligation_list",
        "hand-written model SynKitModel/ITS.lean tied to /repo by this correspondence run (not by translation)",
        "hand-written model SynKitModel/RsmiGraph.lean (rcHydrogenMaps, smiGraph, rsmiGraphs: the glue of its_to_rsmi / graph_to_rsmi / "
        "graph_to_smi, moved out of the proof file so that the compiled driver runs them as its.rsmiGraphs / its.smiGraph) tied to /repo by "
        "stream (v) of this run; it uses SynKitModel/Repr.lean implicitHydrogen (also tied by C10). The observation wraps graph_to_smi, "
        "implicit_hydrogen and GraphToMol.graph_to_mol inside the harness process (recorders that delegate unchanged)",
        "Driver/ITS.lean + Driver/GraphJson.lean JSON codec, harness/graphio.py encoder, canonicalisation in harness/props/c01.py",
        "RDKit (SMILES parsing, sanitisation, aromaticity, canonical SMILES) and the reading of RDKit objects in MolToGraph/GraphToMol: "
        "the part 'ITS -> reaction SMILES is atom-map-equivalent with the same unmapped sides' is NOT proved; it is decided on the "
        "implementation for every generated reaction (Lean match.iso on ITS(in) vs ITS(out); canonical unmapped sides via RDKit)",
        "match.iso is the back-tracking enumerator of SynKitModel/Match.lean (its soundness/completeness theorem is stated in SynKitProofs/Match.lean)",
    ]
    ctx.assumptions = ["node ids are the atom-map numbers (rsmi_to_graph defaults); bond orders are multiples of 1/2",
                       "stereo descriptors are not part of the ITS (C01 lists element, aromaticity, hydrogen count, charge, bond order): "
                       "unmapped sides are compared as canonical SMILES without stereo",
                       "reactions outside C01's precondition (unparseable, unmapped atoms, unequal atom sets) are skipped and counted",
                       "attributes_defaults is not an option of the Lean model: for these cases node set, carried atom_map, bonds, order pair and "
                       "difference are compared with the model, typesGH and the per-attribute entries with the specification evaluated in the "
                       "harness (label of each side, the caller's default for what a side lacks)",
                       "rsmi_to_its(explicit_hydrogen=True) has no Lean model: the returned ITS is judged by a specification evaluated in the harness "
                       "from the two input graphs (same heavy skeleton and labels per side; every new atom a neutral hydrogen with one single bond, "
                       "the same on both sides; hydrogen count + new hydrogen neighbours == the input's hydrogen count per atom and side)",
                       "graphs from MolToGraph.mol_to_graph(light_weight=False), the full profile and node_attrs=None carry more attributes than "
                       "C01 lists (partial charges, hybridisation ...); they are dropped before the graphs are used",
                       "an ITS built with store=True has (G value, H value) pairs under `element`; its_to_rsmi then folds no hydrogen. Where folding "
                       "would be possible only the unmapped sides are gated for such an ITS, whichever way the writer decides",
                       "not driven, outside C01: its_to_rsmi(clean_wildcards=True) (clean_wc keeps only the longest product fragment by design), "
                       "rsmi_to_its(core=True) (C02), smart_to_gml / rsmi_to_rsmarts / rsmarts_to_rsmi (C10 / RDKit wrappers), "
                       "ITSConstruction.construct(node_attrs=other layout) (its_decompose reads the default layout only), the (None, None) / None "
                       "answers of rsmi_to_graph / graph_to_rsmi on input outside the precondition"]
    ctx.gen_rule = ("regressions first; vendored corpus (ecoli 274, USPTO sample 100, hydrogen set 50) x {identity, dense renumbering, sparse "
                    "renumbering, RDKit re-rooting seeded from the run PRNG, fragment shuffle, reversal} (quick: 45 per variant; thorough: all); "
                    "ALL pairs (G,H) on a shared node set of n<=3 atoms over {C,H} with per-pair orders {0,1,2}^2 (thorough: n<=3 plus a "
                    "charge/hcount edit); random molecule-like pairs n<=9 with <=3 edited bonds/charges/hcounts incl. H-H bonds and permuted "
                    "node order; malformed stream (unequal node sets, missing attributes, missing bond order, empty side) compared impl==model only; "
                    "stream (v) its_to_rsmi glue vs its.rsmiGraphs: corpus reactions (uspto: explicit hydrogens in the centre; hydro: no explicit "
                    "hydrogen, empty-list branch; ecoli) x {identity, explicit-hydrogen spectators incl. H2, spectator, reversal (thorough: + sparse "
                    "renumbering, all reactions; quick: 15-40 per source and variant)}, all pairs n<=2 and (quick: 700 sampled; thorough: all) pairs "
                    "n=3 of the exhaustive family, random molecule-like pairs (quick 300, thorough 4000). "
                    "stream `radical` (all gates of the corpus stream): 58 hand-written radical / ionic elementary steps (free H, H+, H-, homolysis, "
                    "heterolysis, proton / hydride / electron transfer) x {identity, reversal, sparse renumbering, fragment shuffle, re-rooting, "
                    "open-shell spectators, opened valence, explicit-hydrogen spectators}; corpus reactions x {free_h: one H-X bond of an explicit "
                    "hydrogen cut into free H. / H+ / H- form on one side, free_species: unchanged spectators from a pool of 7 free-hydrogen and 85 "
                    "radical / carbene / atom / ion / metal templates, radical: bracket hydrogen count of 1-2 atoms lowered on both sides, and "
                    "free_h+free_species+reverse} (quick 20-45 per kind, thorough all x 2-3 draws); the same populations with "
                    "its_to_rsmi(explicit_hydrogen=True), (sanitize=False) and both; a shuffled repeat of 60 (thorough 400) of these queries + the "
                    "hand-written steps with default options after the option runs; stream (v) on the hand-written steps + 120 (thorough 1500) "
                    "of the variants. "
                    "stream `entry` (graph level, model its.construct with options): all pairs n<=2 x 11 fixed points of the 36-point grid "
                    "{construct, ITSGraph} x ignore_aromaticity {default, True} x balance_its {default, True, False} x store {default, True, False}; "
                    "250 (thorough 4000) sampled pairs n=3 and 350 (5000) random molecule-like pairs x a random grid point; 250 (3000) pairs with "
                    "unequal node sets (half: random pair with 0-2 atoms removed per side, half: the malformed stream) x a random grid point, "
                    "impl==model only; 120 (1500) pairs (40% unequal, 40% malformed, 20% balanced) x random grid point x attributes_defaults from 4 "
                    "fixed dicts; 30% of all these with its_decompose reading renamed attributes. "
                    "stream `route` (reaction level, all gates): 18 routes (writer graph_to_rsmi with / without ITS; ITS via construct defaults, "
                    "construct(store=False), ITSGraph(store=True), ignore_aromaticity=True, rsmi_to_its; renamed decompose keys; graphs via the 6 "
                    "other entry points of GRAPH_ENTRIES; 2 composed) x (quick: 9 hand-written steps + 6 corpus + 3 with explicit H + 3 aromatic; "
                    "thorough: 58 + 120 + 40 + 40) in a random form of {identity x2, reverse, sparse renumbering, explicit-hydrogen spectators, "
                    "shuffle}; graph_to_rsmi(r,p) with explicit_hydrogen=True and with sanitize=False on 12+8 (58+100) reactions; stream (v) on 80 "
                    "(1200) of these reactions + 120 (1500) random pairs x a random one of 4 routes + all pairs n<=2 x 4 routes. "
                    "stream `padding` (atoms that look like the code's default / padding values as genuine atoms; all gates of the corpus stream): "
                    "first, for the 42 + 58 hand-written steps, rsmi_to_graph must return per side exactly the mapped atoms written there (read off the "
                    "text by the harness, so that a reader losing an atom cannot push the reaction out of the precondition); then "
                    "42 hand-written steps with wildcard atoms `*` (neutral / charged / with hydrogens; bonded / unbonded on one side / on both) "
                    "and bare neutral atoms x {identity, reversal} + 12 (all x 3) x {sparse renumbering, shuffle, re-rooting, wild_spectator: unchanged "
                    "spectators from a pool of 27 wildcard / bare-atom templates, explicit-hydrogen spectators, open-shell spectators, wildcardize: "
                    "1-2 mapped non-aromatic atoms become `*` on both sides (atoms unbonded on one side preferred; hydrogens dropped one time in "
                    "three), cut_wild}; radical steps x {wildcardize (30; all x 4), wild_spectator (15; all x 2)}; corpus x {wild_spectator 20, "
                    "wildcardize 20, cut: the only bond of a mapped terminal atom cut on one side homo- / heterolytically 20, cut_wild: the same with "
                    "that atom a wildcard 30 (thorough 250 each), cut_wild+wild_spectator+reverse 12 (120)}; 20+25 of them with "
                    "its_to_rsmi(explicit_hydrogen=True) and with (sanitize=False), 20+25 through a random one of the 18 routes, a shuffled repeat of "
                    "15+25; graph level (model its.construct / its.decompose, half with a random point of the option grid): ALL pairs on n<=2 shared "
                    "atoms with elements {*, C} and default labels, 150 sampled (thorough all 5832) for n=3, 250 (4000) random pairs with elements "
                    "from {*, C, N, O, H, Cl, He}, 75% default hcount / charge, 1-2 atoms isolated / attached on one side; stream (v) on the 42 steps "
                    "+ 60 (1000) variants and on 250 (all) of the pairs x a random one of 4 writer routes. "
                    "stream `explicit-its` (last): 6 tiny reactions + 10 (150) corpus + 8 (58) hand-written steps.")
    ctx.nontrivial_rule = "distinct (G,H) as encoded graphs, with >=3 atoms and >=1 bond whose order differs between the sides"
    build_and_audit(ctx, ["SynKitProofs.Props.C01"], "SynKitProofs/Audit/C01.lean", THEOREMS)

    run_regress(ctx, "C01")
    if not ctx.violations:
        reaction_cases(ctx, corpus_items(ctx, 45 if ctx.quick else None), "corpus")
    if not ctx.violations:
        ex = []
        for n in (1, 2, 3):
            ex += [(G, H, {"n": n}) for G, H in exhaustive_pairs(n, ctx.quick)]
        graph_cases(ctx, ex, "exhaustive", lossless=True)
        ctx.extra["exhaustive"] = True
        ctx.extra["exhaustive_part"] = "all (G,H) on n<=3 shared atoms, elements {C,H}, per-pair orders {0,1,2}^2" + ("" if ctx.quick else ", x {none, charge, hcount} edit")
    if not ctx.violations:
        rnd_cases = []
        for _ in range(400 if ctx.quick else 6000):
            G, H, tags = random_pair(ctx.rnd)
            for t in tags:
                ctx.count("random:edit:" + t)
            rnd_cases.append((G, H, {"edits": tags}))
        graph_cases(ctx, rnd_cases, "random", lossless=True)
    if not ctx.violations:
        mal = []
        for _ in range(150 if ctx.quick else 2000):
            G, H, kind = malformed_pair(ctx.rnd)
            ctx.count("malformed:" + kind)
            mal.append((G, H, {"malformed": kind}))
        graph_cases(ctx, mal, "malformed", lossless=False)
    if not ctx.violations:
        entry_stream(ctx)
    radical_cases = None
    if not ctx.violations:
        radical_cases = radical_stream(ctx)
    pad_cases = pad_pairs = None
    if not ctx.violations:
        pad_cases, pad_pairs = padding_stream(ctx)
    route_cases = None
    if not ctx.violations:
        route_cases = route_stream(ctx)
    ok_before = not ctx.violations
    if not ctx.violations:
        rsmi_graph_cases(ctx, pad_cases or [], "rsmi-graphs:padding")
    if not ctx.violations:
        rsmi_graph_cases(ctx, pad_pairs or [], "rsmi-graphs:padding-pairs")
    if not ctx.violations:
        rsmi_graph_stream(ctx, radical_cases)
    if not ctx.violations:
        rsmi_graph_cases(ctx, route_cases or [], "rsmi-graphs:route")
    ctx.obligation("correspondence: ITSGraph == model construct; its_decompose == model decompose == input pair", ok_before)
    ctx.obligation("correspondence (v): the preserve_atom_maps list and the two graphs the real its_to_rsmi hands to GraphToMol.graph_to_mol "
                   "(observed by wrapping graph_to_smi / implicit_hydrogen / GraphToMol) == model its.rsmiGraphs (SynKitModel/RsmiGraph.lean: "
                   "rcHydrogenMaps, smiGraph, rsmiGraphs, the subject of its_to_rsmi_graph_part / _totalH / _skeleton)", not ctx.violations,
                   "" if ok_before else "not evaluated: an earlier stream already failed")
    ctx.obligation("RDKit part (rests on this run, not proved): ITS(in) iso ITS(its_to_rsmi) by Lean match.iso; unmapped canonical sides equal",
                   ok_before)
    # last, so that its verdict never hides another stream: the hydrogen-expanded ITS of rsmi_to_its(explicit_hydrogen=True)
    if not ctx.violations:
        explicit_its_stream(ctx)


def replay(ctx, case):
    quiet()
    c = case["case"]
    if c.get("stream") == "explicit-its":
        explicit_its_cases(ctx, [(c.get("src"), c.get("idx"), c.get("variant"), c["rsmi"])], "explicit-its:replay")
        return
    if str(c.get("stream", "")).startswith("rsmi-graphs"):
        if "rsmi" in c:
            r, p, why = reaction_graphs(c["rsmi"])
            if why is None:
                rsmi_graph_cases(ctx, [(r, p, {k: c.get(k) for k in ("src", "idx", "variant", "rsmi", "route") if k in c})], "rsmi-graphs:replay")
        else:
            rsmi_graph_cases(ctx, [(graphio.to_nx(c["G"]), graphio.to_nx(c["H"]), c.get("meta"))], "rsmi-graphs:replay")
        return
    if c.get("gate") == "reader":
        reader_cases(ctx, [c], "replay")
        return
    if "rsmi" in c:
        reaction_cases(ctx, [(c.get("src"), c.get("idx"), c.get("variant"), c["rsmi"])], "replay", opts=c.get("opts"), route=c.get("route"))
    else:
        st = str(c.get("stream", ""))
        graph_cases(ctx, [(graphio.to_nx(c["G"]), graphio.to_nx(c["H"]), c.get("meta"))], "replay",
                    lossless=not (st == "malformed" or st.startswith("entry:unbalanced") or st.startswith("entry:attributes_defaults")))

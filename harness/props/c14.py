"""C14 — batching, parallelism and caching are operational only: results never change.

Lean side (lean/SynKitProofs/Props/C14.lean): the `_RuleApplier` cache over an explicit object
heap with identity reuse is transparent for every history iff entries keep their key objects
alive (`cache_transparent_if_pinned`, negation witness `cache_stale_witness`), `BatchReactor.fit`
= map of the single-substrate function (`batch_eq_single`, `worker_eq_single`), `_dedupe` keeps
first occurrences in order (`dedupe_order_stable`), batched clustering = one-shot clustering
(`batched_cluster_eq_oneshot`), order-preserving parallel map (`parallel_map_eq`).

Correspondence / exploration streams (each registered as an obligation):

 a  heap-op histories executed on the REAL `_RuleApplier` with identity reuse *forced* (release a
    graph, allocate new graphs until one lands on a released address), `_apply_rule_raw`
    replaced by the free result function; outcome of every op, cache keys in FIFO order and
    held identities compared with the Lean model of the repaired code; the specification
    (`exp`: f of the contents the caller passed) is evaluated by the Lean driver on every call.
 b  `BatchReactor.fit` per entry vs `SynReactor` applied alone to that substrate (reference
    table computed cell by cell, handed to the Lean `fit` model): cache on/off, cache_maxsize
    1/2/big, dedupe on/off, both directions, repeated and look-alike substrates, rules as
    strings or graphs, two successive fits on one reactor, entry_n_jobs 1/2/4 (8 in thorough).
 b' the option space of the `BatchReactor` constructor: entry-level x rule-level workers
    (`parallel_rules`, `rule_n_jobs`, `allow_nested`; effective rule workers 2/3/4 crossed with
    every rule-list length 1..7; nested; disabled by either flag; worker counts 0/-1), cache
    flags, dedupe, rule objects shared between successive fits, semantic options
    (explicit_h / implicit_temp / strategy) and rule pre-filters.  Batches are built so that
    every rule of the list converts some substrate of the batch (a dropped, doubled or
    misrouted rule is visible).  Two references, both computed per entry independently of the
    batch and of history: the Lean `fit` model over the SynReactor table, and a fresh one-entry,
    one-process, cache-less `BatchReactor` (the property's own right-hand side).
 c  `BatchCluster.fit` for every batch size 1..N vs one shot, partitions compared as partitions,
    and against the Lean model fed with isomorphism classes from the proven `isoDecide` engine.
 d  `validate_smiles` / `dicts_balance_check` with n_jobs 1 vs 4.
 e  `SynCRN.build(parallel=True)` vs `parallel=False`.

Process start-up, pickling and scheduling of worker processes are runtime behaviour the model
cannot exhibit: for those C14 is *partial* and streams b, b' (with workers), d, e are exploration of
the implementation only.
"""
import contextlib
import itertools
import json
import os

from ..core import ROOT, build_and_audit
from ..shrink import shrink_seq
from .. import graphio

THEOREMS = [
    "SynKit.BatchCache.cache_transparent_if_pinned",
    "SynKit.BatchCache.cache_transparent_outs",
    "SynKit.BatchCache.cache_stale_witness",
    "SynKit.BatchCache.cache_zero_raises",
    "SynKit.BatchCache.batch_eq_single",
    "SynKit.BatchCache.worker_eq_single",
    "SynKit.BatchCache.freshAlloc_valid",
    "SynKit.BatchCache.lowestAlloc_valid",
    "SynKit.BatchCache.dedupe_order_stable",
    "SynKit.BatchCache.batched_cluster_eq_oneshot",
    "SynKit.BatchCache.batched_cluster_eq_oneshot_templates",
    "SynKit.BatchCache.oneshot_default_matcher_witness",
    "SynKit.BatchCache.parallel_map_eq",
    "SynKit.BatchCache.c14_full",
]

CLASS_ONESHOT = "batchcluster_oneshot_default_matcher"
BIG = 32768


# ====================================================================== helpers
@contextlib.contextmanager
def quiet_stderr():
    """Worker processes inherit fd 2; synkit logs at INFO from freshly started interpreters."""
    import sys
    sys.stderr.flush()
    saved = os.dup(2)
    devnull = os.open(os.devnull, os.O_WRONLY)
    try:
        os.dup2(devnull, 2)
        yield
    finally:
        os.dup2(saved, 2)
        os.close(saved)
        os.close(devnull)


def shutdown_workers():
    try:
        from joblib.externals.loky import get_reusable_executor
        get_reusable_executor().shutdown(wait=True, kill_workers=True)
    except Exception:
        pass


def load_corpus():
    T = json.loads((ROOT / "corpus" / "c14_templates.json").read_text())["templates"]
    S = json.loads((ROOT / "corpus" / "c14_substrates.json").read_text())["substrates"]
    R = json.loads((ROOT / "corpus" / "c14_reactions.json").read_text())["reactions"]
    global TEMPLATE_WEIGHTS
    TEMPLATE_WEIGHTS = [1 + int(t.get("hits_in_selection_matrix", 0)) for t in T]
    return [t["rsmi"] for t in T], [s["smiles"] for s in S], R


TEMPLATE_WEIGHTS = None


def std_rsmi(r):
    """Atom-map-free canonical reaction SMILES (RDKit), fragments sorted; None if unparsable."""
    from rdkit import Chem

    def side(s):
        out = []
        for frag in s.split("."):
            if not frag:
                continue
            m = Chem.MolFromSmiles(frag)
            if m is None:
                return None
            for a in m.GetAtoms():
                a.SetAtomMapNum(0)
            m = Chem.RemoveHs(m)
            out.append(Chem.MolToSmiles(m))
        return ".".join(sorted(out))
    try:
        a, b = r.split(">>")
        sa, sb = side(a), side(b)
        if sa is None or sb is None:
            return "?" + r
        return sa + ">>" + sb
    except Exception:
        return "?" + r


# ====================================================================== stream a: heap histories
def impl_heap_run(cache_on, cache_max, prog, nslots=6):
    """Run a slot-level program on the real _RuleApplier.  Returns the realised history
    (abstract ids = first-seen numbering of real addresses) with the outcome, the cache keys and
    the held ids after every executed op."""
    import networkx as nx
    import synkit.Synthesis.Reactor.batch_reactor as br

    def stub(sub, rule, inv, engine, **kw):
        return [[sub.graph["c"], rule.graph["c"], bool(inv)]]

    saved = br._apply_rule_raw
    br._apply_rule_raw = stub
    try:
        ap = br._RuleApplier("syn", strategy="bt", explicit_h=True, implicit_temp=False,
                             cache_enabled=cache_on, cache_maxsize=cache_max)
        slots = [None] * nslots
        amap = {}
        dead = []          # released addresses, most recent last
        steps = []

        def aid(addr):
            return amap.setdefault(addr, len(amap))

        def keys():
            c = ap._cache
            if c is None:
                return []
            out = []
            for k in c.keys():
                if isinstance(k, tuple):
                    out.append([amap.get(x, -1) if (isinstance(x, int) and not isinstance(x, bool)) else x for x in k])
                else:
                    out.append(repr(k))
            return out

        for op in prog:
            o = op["op"]
            if o == "alloc":
                i = op["slot"]
                if slots[i] is not None:
                    continue
                g = None
                if op.get("reuse") and dead:
                    want = set(dead)
                    keep = []
                    for _ in range(48):
                        h = nx.Graph()
                        if id(h) in want:
                            g = h
                            break
                        keep.append(h)
                    if g is None:
                        g = keep.pop()
                    del keep
                else:
                    g = nx.Graph()
                g.graph["c"] = op["c"]
                if id(g) in dead:
                    dead.remove(id(g))
                slots[i] = g
                real = {"op": "alloc", "id": aid(id(g)), "c": op["c"]}
                out = "ok"
                del g
            elif o == "free":
                i = op["slot"]
                if slots[i] is None:
                    continue
                a = id(slots[i])
                real = {"op": "free", "id": aid(a)}
                slots[i] = None
                dead.append(a)
                out = "ok"
            elif o == "call":
                s, r = slots[op["s"]], slots[op["r"]]
                if s is None or r is None:
                    continue
                real = {"op": "call", "sid": aid(id(s)), "rid": aid(id(r)), "inv": bool(op["inv"])}
                try:
                    res = ap(s, r, bool(op["inv"]))
                    out = res[0] if isinstance(res, list) and len(res) == 1 else repr(res)
                except StopIteration:
                    out = "StopIteration"
                except Exception as e:  # noqa
                    out = type(e).__name__
                del s, r
            else:
                raise AssertionError(o)
            steps.append({"real": real, "out": out, "keys": keys(),
                          "held": sorted(aid(id(x)) for x in slots if x is not None), "src": op})
        return steps
    finally:
        br._apply_rule_raw = saved


def heap_requests(cache_on, cache_max, steps, pin=True):
    return {"cmd": "cache.run", "cache_on": cache_on, "cache_max": cache_max, "pin": pin,
            "ops": [s["real"] for s in steps]}


def heap_compare(steps, model):
    """-> (kind, t, text): kind 'spec' (a call returned something else than f(contents)),
    'model' (impl and model differ although the spec holds so far), or None."""
    first_model = None
    for t, (a, b) in enumerate(zip(steps, model["steps"])):
        if b["exp"] is not None and a["out"] != b["exp"]:
            return "spec", t, f"call returned {a['out']!r}, the property demands {b['exp']!r}"
        if first_model is None:
            if a["out"] != b["out"]:
                first_model = (t, f"outcome impl={a['out']!r} model={b['out']!r}")
            elif a["keys"] != b["keys"]:
                first_model = (t, f"cache keys (FIFO order) impl={a['keys']!r} model={b['keys']!r}")
            elif a["held"] != b["held"]:
                first_model = (t, f"held ids impl={a['held']!r} model={b['held']!r}")
    if first_model:
        return "model", first_model[0], first_model[1]
    return None


def heap_alphabet():
    A = [{"op": "alloc", "slot": 0, "c": 1, "reuse": True}, {"op": "alloc", "slot": 0, "c": 2, "reuse": True},
         {"op": "alloc", "slot": 1, "c": 3, "reuse": True}, {"op": "free", "slot": 0}, {"op": "free", "slot": 1},
         {"op": "call", "s": 0, "r": 5, "inv": False}, {"op": "call", "s": 0, "r": 5, "inv": True},
         {"op": "call", "s": 1, "r": 5, "inv": False}]
    return A


PREFIX = [{"op": "alloc", "slot": 5, "c": 100, "reuse": False}, {"op": "alloc", "slot": 0, "c": 1, "reuse": False}]


def heap_random(rnd, length):
    prog = [{"op": "alloc", "slot": 5, "c": 100, "reuse": False}, {"op": "alloc", "slot": 4, "c": 101, "reuse": False}]
    occupied = {4, 5}
    last = {}
    for _ in range(length):
        x = rnd.random()
        free_slots = [i for i in range(6) if i not in occupied]
        if (x < 0.28 and free_slots) or len(occupied) < 3:
            i = rnd.choice(free_slots)
            c = rnd.choice([100, 101, 102]) if i >= 4 else rnd.randint(1, 6)
            prog.append({"op": "alloc", "slot": i, "c": c, "reuse": rnd.random() < 0.8})
            occupied.add(i)
        elif x < 0.48:
            i = rnd.choice(sorted(occupied))
            if i >= 4 and rnd.random() < 0.7:
                i = rnd.choice(sorted(occupied))
            prog.append({"op": "free", "slot": i})
            occupied.discard(i)
        else:
            s = rnd.choice(sorted(occupied))
            rules = [i for i in occupied if i >= 4] or sorted(occupied)
            r = rnd.choice(rules) if rnd.random() < 0.9 else rnd.choice(sorted(occupied))
            inv = rnd.random() < 0.35
            if s in last and last[s][0] in occupied and rnd.random() < 0.6:
                r, inv = last[s]                          # repeat the last call made through this slot
            last[s] = (r, inv)
            prog.append({"op": "call", "s": s, "r": r, "inv": inv})
    return prog


def heap_nontrivial(steps):
    calls = [s for s in steps if s["real"]["op"] == "call"]
    ids = [s["real"]["id"] for s in steps if s["real"]["op"] == "alloc"]
    reused = len(ids) != len(set(ids))
    return len(calls) >= 2 and (reused or any(s["real"]["op"] == "free" for s in steps))


def run_heap(ctx, cases, tag):
    """cases: list of (cache_on, cache_max, prog)."""
    runs = [impl_heap_run(on, mx, prog) for on, mx, prog in cases]
    models = ctx.lean().ok([heap_requests(on, mx, st) for (on, mx, _), st in zip(cases, runs)], shards=8)
    nspec, pending = 0, []
    for (on, mx, prog), steps, model in zip(cases, runs, models):
        ids = [s["real"]["id"] for s in steps if s["real"]["op"] == "alloc"]
        ctx.count("a:alloc_reusing_an_identity", len(ids) - len(set(ids)))
        ctx.count("a:calls", sum(1 for s in steps if s["real"]["op"] == "call"))
        hits = 0
        prev = None
        for s in steps:
            if s["real"]["op"] == "call" and on and prev is not None and s["keys"] == prev:
                hits += 1
            prev = s["keys"]
        ctx.count("a:cache_hits", hits)
        ctx.count(f"a:cache_{'on' if on else 'off'}")
        ctx.case(["heap", on, mx, [s["real"] for s in steps]], heap_nontrivial(steps),
                 sample={"stream": "a:" + tag, "cache_on": on, "cache_max": mx, "history": [s["real"] for s in steps]}
                 if 3 <= len(steps) <= 7 and want_sample(ctx, "a:", 2) else None)
        d = heap_compare(steps, model)
        if d is None:
            continue
        kind, t, text = d
        if kind == "spec":
            nspec += 1
            if nspec > 2:
                continue

            def fails(cand):
                st = impl_heap_run(on, mx, cand)
                if not st:
                    return False
                m = ctx.lean().ok([heap_requests(on, mx, st)])[0]
                dd = heap_compare(st, m)
                return dd is not None and dd[0] == "spec"
            small = shrink_seq(prog, fails, budget=150)
            st = impl_heap_run(on, mx, small)
            m = ctx.lean().ok([heap_requests(on, mx, st)])[0]
            dd = heap_compare(st, m)
            aw = ctx.lean().ok([heap_requests(on, mx, st, pin=False)])[0]
            ctx.violation(
                "a cached rule application returned something else than the rule applied to the objects passed (stale or mis-keyed cache entry, e.g. the identity of a released substrate/rule was reused)",
                {"stream": "heap", "cache_on": on, "cache_max": mx, "prog": small},
                {"divergence": dd[2] if dd else text, "realised_history": [s["real"] for s in st],
                 "impl_outcomes": [s["out"] for s in st],
                 "model_of_pinned_tree_predicts_same_outcomes": [s["out"] for s in st] == [x["out"] for x in aw["steps"]],
                 "stream": tag})
        elif len(pending) < 2:
            pending.append((on, mx, prog, t, text))
    ctx.count("a:histories_with_a_wrong_call_result", nspec)
    if nspec == 0:
        # impl and model differ although every call returned f(contents): the model is no longer the code
        for on, mx, prog, t, text in pending:
            ctx.violation("correspondence a (heap histories on _RuleApplier vs Lean model of the repaired cache) broke; "
                          "every call still returned f(contents)",
                          {"stream": "heap", "cache_on": on, "cache_max": mx, "prog": prog},
                          {"first_divergence": text, "step": t, "stream": tag}, no_input=True)


# ====================================================================== stream b: BatchReactor.fit
SEM_DEFAULT = (True, False, "bt")          # (explicit_h, implicit_temp, strategy): BatchReactor's defaults
SEMS = [(True, False, "bt"), (True, False, "all"), (True, False, "comp"), (False, True, "bt")]
PRE_FILTERS = ["turbo", "sing", "nx"]


def case_sem(case):
    return tuple(case.get("sem") or SEM_DEFAULT)


def eff_rule_jobs(case):
    """worker processes `_apply_bulk` uses for the rules of one entry (1 = the serial loop)"""
    rj = max(1, int(case.get("rule_n_jobs", 1)))
    ej = max(1, int(case["n_jobs"]))
    if case.get("parallel_rules") and rj > 1 and (case.get("allow_nested") or ej == 1):
        return rj
    return 1


def uses_workers(case):
    return max(1, int(case["n_jobs"])) > 1 or eff_rule_jobs(case) > 1


class FitWorld:
    def __init__(self, rules_rsmi, subs):
        self.rules_rsmi = rules_rsmi
        self.subs = subs
        self._ref_rules = {}
        self._cells = {}
        self._alone = {}
        self._alone_rules = {}
        self._hits = {}
        self.codes = {}
        self.strings = []

    def code(self, s):
        if s not in self.codes:
            self.codes[s] = len(self.strings)
            self.strings.append(s)
        return self.codes[s]

    def ref_rule(self, t):
        from synkit.IO import rsmi_to_its
        if t not in self._ref_rules:
            self._ref_rules[t] = rsmi_to_its(self.rules_rsmi[t], core=True)
        return self._ref_rules[t]

    def cell(self, s, t, inv, sem=SEM_DEFAULT):
        """SynReactor applied alone: one substrate graph, one rule, one direction."""
        sem = tuple(sem)
        k = (s, t, inv) if sem == SEM_DEFAULT else (s, t, inv, sem)
        if k not in self._cells:
            from synkit.IO import smiles_to_graph
            from synkit.Synthesis.Reactor.syn_reactor import SynReactor
            g = smiles_to_graph(self.subs[s], drop_non_aam=False, use_index_as_atom_map=False)
            try:
                out = list(SynReactor(substrate=g, template=self.ref_rule(t), invert=inv, strategy=sem[2],
                                      explicit_h=sem[0], implicit_temp=sem[1]).smarts_list)
            except Exception:
                out = []
            self._cells[k] = [self.code(x) for x in out]
        return self._cells[k]

    def hits(self, inv, sem=SEM_DEFAULT):
        """template -> substrates on which it alone gives products (direction, semantic options)"""
        k = (inv, tuple(sem))
        if k not in self._hits:
            h = {}
            for t in range(len(self.rules_rsmi)):
                ss = [s for s in range(len(self.subs)) if self.cell(s, t, inv, sem)]
                if ss:
                    h[t] = ss
            self._hits[k] = h
        return self._hits[k]

    def alone(self, s, rules, inv, dedupe, sem=SEM_DEFAULT, pre_filter=None):
        """The property's own right-hand side, by the implementation: a one-entry batch holding only this
        substrate, a fresh reactor, one process, no cache; rule graphs parsed once for this reference only
        (never handed to a reactor under test).  -> list of strings | {'error': name}"""
        sem = tuple(sem)
        k = (s, tuple(rules), inv, dedupe, sem, pre_filter)
        if k not in self._alone:
            from synkit.IO import rsmi_to_its
            from synkit.Synthesis.Reactor.batch_reactor import BatchReactor
            try:
                for t in rules:
                    if t not in self._alone_rules:
                        self._alone_rules[t] = rsmi_to_its(self.rules_rsmi[t], core=True)
                br = BatchReactor([self.subs[s]], cache_enabled=False, dedupe=dedupe, explicit_h=sem[0], implicit_temp=sem[1],
                                  strategy=sem[2], pre_filter_engine=pre_filter, enable_logging=False)
                o = br.fit([self._alone_rules[t] for t in rules], invert=inv)[0]
                self._alone[k] = list(o["syn_bw" if inv else "syn_fw"])
            except Exception as e:  # noqa
                self._alone[k] = {"error": type(e).__name__}
        return self._alone[k]


def fit_impl(world, case):
    """-> list (one per fit of case['seq']) of per-entry {'out': [...strings], 'count': n, 'key': k} or {'error': name}."""
    from synkit.IO import rsmi_to_its
    from synkit.Synthesis.Reactor.batch_reactor import BatchReactor
    data = [world.subs[i] for i in case["subs"]]
    if case.get("as_dict"):
        data = [{"smi": x, "n": j} for j, x in enumerate(data)]
    kw = {}
    for k in ("rule_n_jobs", "parallel_rules", "allow_nested"):     # absent -> the constructor's defaults
        if k in case:
            kw[k] = case[k]
    if case.get("sem"):
        kw.update(explicit_h=case["sem"][0], implicit_temp=case["sem"][1], strategy=case["sem"][2])
    if case.get("pre_filter"):
        kw["pre_filter_engine"] = case["pre_filter"]
    workers = uses_workers(case)
    shared = {}                                # rules_as == "graph_shared": one graph object per template for the whole case
    res = []
    try:
        br = BatchReactor(data, host_key="smi" if case.get("as_dict") else None, cache_enabled=case["cache_on"],
                          cache_maxsize=case["cache_max"], dedupe=case["dedupe"], entry_n_jobs=case["n_jobs"],
                          enable_logging=False, **kw)
    except Exception as e:  # noqa
        return [{"error": "constructor:" + type(e).__name__} for _ in case["seq"]]
    for f in case["seq"]:
        rules = [world.rules_rsmi[t] for t in f["rules"]]
        if case["rules_as"] == "graph":
            rules = [rsmi_to_its(r, core=True) for r in rules]
        elif case["rules_as"] == "graph_shared":
            for t in f["rules"]:
                if t not in shared:
                    shared[t] = rsmi_to_its(world.rules_rsmi[t], core=True)
            rules = [shared[t] for t in f["rules"]]
        elif case["rules_as"] == "mixed":
            rules = [rsmi_to_its(r, core=True) if j % 2 else r for j, r in enumerate(rules)]
        try:
            if workers:
                with quiet_stderr():
                    out = br.fit(rules, invert=f["inv"])
            else:
                out = br.fit(rules, invert=f["inv"])
        except BaseException as e:  # StopIteration is not an Exception subclass issue, but be safe
            if isinstance(e, (KeyboardInterrupt, SystemExit)):
                raise
            res.append({"error": type(e).__name__})
            continue
        key = "syn_bw" if f["inv"] else "syn_fw"
        res.append([{"out": list(o.get(key, [])), "count": o.get("count"), "has_key": key in o, "n_keys": len(o)} for o in out])
    return res


def fit_model_requests(world, case):
    reqs = []
    for f in case["seq"]:
        table = []
        for s in sorted(set(case["subs"])):
            for t in sorted(set(f["rules"])):
                table.append([s, t, f["inv"], world.cell(s, t, f["inv"], case_sem(case))])
        reqs.append({"cmd": "batch.fit", "cache_on": case["cache_on"], "cache_max": case["cache_max"], "pin": True,
                     "dedupe": case["dedupe"], "alloc": "lowest", "inv": f["inv"], "batch": case["subs"],
                     "rules": f["rules"], "table": table})
    return reqs


def fit_compare(world, case, impl, models, ctx=None):
    """-> None or (text, detail)"""
    for fi, (f, got, mod) in enumerate(zip(case["seq"], impl, models)):
        if isinstance(got, dict):
            return f"fit #{fi} raised {got['error']}", {"fit": fi}
        if "ok" not in mod["fit"]:
            return f"model fit #{fi} errs {mod['fit']}", {"fit": fi}
        want = mod["fit"]["ok"]
        if mod["single"] != want and ctx is not None:
            ctx.count("b:model_fit_differs_from_model_single")  # cannot happen (theorem)
        if len(got) != len(want):
            return f"fit #{fi} returned {len(got)} entries for {len(want)} substrates", {"fit": fi}
        for ei, (g, w) in enumerate(zip(got, want)):
            wstr = [world.strings[c] for c in w]
            sub = world.subs[case["subs"][ei]]
            if not g["has_key"] or g["n_keys"] != 2:
                return f"fit #{fi} entry {ei}: result dict keys unexpected", {"fit": fi, "entry": ei}
            if g["count"] != len(g["out"]):
                return f"fit #{fi} entry {ei}: count {g['count']} != len(out) {len(g['out'])}", {"fit": fi, "entry": ei}
            if g["out"] == wstr:
                if ctx is not None:
                    ctx.count("b:entries_equal_as_lists")
                continue
            if sorted(g["out"]) == sorted(wstr):
                if ctx is not None:
                    ctx.count("b:entries_equal_as_multisets_only")
                continue
            sg, sw = sorted(std_rsmi(x) for x in g["out"]), sorted(std_rsmi(x) for x in wstr)
            if sg == sw:   # multisets, also with dedupe on: the model de-duplicates the raw strings exactly as the code does
                if ctx is not None:
                    ctx.count("b:entries_equal_after_standardisation_only")
                continue
            return (f"fit #{fi} entry {ei} ({sub}): batch result differs from the rules applied to this substrate alone",
                    {"fit": fi, "entry": ei, "substrate": sub, "batch": sg[:12], "alone": sw[:12],
                     "only_in_batch": sorted(set(sg) - set(sw))[:6], "only_alone": sorted(set(sw) - set(sg))[:6]})
    return None


def same_results(got, want):
    """-> 'list' | 'multiset' | 'standardised' | None.  The gate is the multiset of standardised reaction
    SMILES (what the property fixes); equality as lists / as raw multisets is only counted."""
    if got == want:
        return "list"
    if sorted(got) == sorted(want):
        return "multiset"
    if sorted(std_rsmi(x) for x in got) == sorted(std_rsmi(x) for x in want):
        return "standardised"
    return None


def alone_compare(world, case, impl, ctx=None):
    """Every entry of every fit against `world.alone`: the same rule list applied by a fresh one-entry,
    one-process, cache-less reactor with the same semantic options.  Independent of the Lean model, of the
    batch, of earlier fits and of every operational option.  -> None or (text, detail)"""
    sem, pf = case_sem(case), case.get("pre_filter")
    for fi, (f, got) in enumerate(zip(case["seq"], impl)):
        if isinstance(got, dict):
            return f"fit #{fi} raised {got['error']}", {"fit": fi}
        if len(got) != len(case["subs"]):
            return f"fit #{fi} returned {len(got)} entries for {len(case['subs'])} substrates", {"fit": fi}
        for ei, g in enumerate(got):
            si = case["subs"][ei]
            want = world.alone(si, f["rules"], f["inv"], case["dedupe"], sem, pf)
            if isinstance(want, dict):
                return (f"fit #{fi} entry {ei}: the batch returned a result, the substrate alone raises {want['error']}",
                        {"fit": fi, "entry": ei, "substrate": world.subs[si]})
            if not g["has_key"] or g["n_keys"] != 2:
                return f"fit #{fi} entry {ei}: result dict keys unexpected", {"fit": fi, "entry": ei}
            if g["count"] != len(g["out"]):
                return f"fit #{fi} entry {ei}: count {g['count']} != len(out) {len(g['out'])}", {"fit": fi, "entry": ei}
            how = same_results(g["out"], want)
            if how is not None:
                if ctx is not None:
                    ctx.count("b':entries_equal_to_alone_as_" + how)
                continue
            sg, sw = sorted(std_rsmi(x) for x in g["out"]), sorted(std_rsmi(x) for x in want)
            return (f"fit #{fi} entry {ei} ({world.subs[si]}): batch result differs from a one-entry, one-process, cache-less "
                    f"BatchReactor holding only this substrate (same rules, same direction)",
                    {"fit": fi, "entry": ei, "substrate": world.subs[si], "n_batch": len(sg), "n_alone": len(sw),
                     "batch": sg[:12], "alone": sw[:12],
                     "only_in_batch": sorted(set(sg) - set(sw))[:6], "only_alone": sorted(set(sw) - set(sg))[:6]})
    return None


def fit_check(world, case, impl, models, ctx=None):
    """All gates of one fit case.  `models` is None when the case has a pre-filter (the Lean fit model takes
    the per-rule table of SynReactor alone, which does not know rule pre-filtering)."""
    d = fit_compare(world, case, impl, models, ctx) if models is not None else None
    if d is None and case.get("alone"):
        d = alone_compare(world, case, impl, ctx)
    return d


def fit_eval(ctx, world, case):
    impl = fit_impl(world, case)
    models = None if case.get("pre_filter") else ctx.lean().ok(fit_model_requests(world, case))
    return fit_check(world, case, impl, models)


def productive(world, case):
    """number of distinct non-empty per-entry reference results of the first fit"""
    f = case["seq"][0]
    outs = set()
    for s in case["subs"]:
        o = tuple(sorted(c for t in f["rules"] for c in world.cell(s, t, f["inv"], case_sem(case))))
        if o:
            outs.add(o)
    return len(outs)


def gen_fit_case_productive(rnd, world, look_pairs, need, **kw):
    """resample (bounded) until >= `need` entries have pairwise different non-empty results"""
    best = None
    for _ in range(12):
        c = gen_fit_case(rnd, len(world.subs), len(world.rules_rsmi), look_pairs, **kw)
        p = productive(world, c)
        if best is None or p > best[0]:
            best = (p, c)
        if p >= need:
            break
    return best[1]


def gen_fit_case(rnd, nS, nT, look_pairs, n_jobs=1, max_batch=7, min_batch=1):
    n = rnd.randint(min_batch, max_batch)
    subs = []
    while len(subs) < n:
        x = rnd.random()
        if x < 0.25 and subs:
            subs.append(rnd.choice(subs))                  # repeated substrate
        elif x < 0.55:
            subs.extend(rnd.choice(look_pairs))            # look-alike pair: same composition
        else:
            subs.append(rnd.randrange(nS))
    subs = subs[:max(n, 1)]
    rnd.shuffle(subs)
    seq = []
    for _ in range(1 if rnd.random() < 0.6 else 2):
        k = rnd.randint(1, 4)
        rules = [rnd.choices(range(nT), weights=TEMPLATE_WEIGHTS)[0] for _ in range(k)]
        if rnd.random() < 0.3:
            rules.append(rnd.choice(rules))                # repeated rule -> duplicates for dedupe
        seq.append({"rules": rules, "inv": rnd.random() < 0.35})
    return {"stream": "fit", "subs": subs, "seq": seq, "cache_on": rnd.random() < 0.8,
            "cache_max": rnd.choice([1, 1, 2, 2, 3, BIG]), "dedupe": rnd.random() < 0.6,
            "rules_as": rnd.choice(["str", "graph"]), "n_jobs": n_jobs, "as_dict": rnd.random() < 0.2}


def ref_entry(world, case, f, s, rules=None):
    """reference result (codes, sorted) of one entry: cells concatenated in rule order, de-duplicated if the case says so"""
    flat = [c for t in (f["rules"] if rules is None else rules) for c in world.cell(s, t, f["inv"], case_sem(case))]
    if case["dedupe"]:
        flat = list(dict.fromkeys(flat))
    return sorted(flat)


def rules_that_matter(world, case):
    """(#positions of the first fit's rule list whose removal changes the reference result of some entry, #positions)"""
    f = case["seq"][0]
    full = {s: ref_entry(world, case, f, s) for s in set(case["subs"])}
    n = 0
    for j in range(len(f["rules"])):
        rest = f["rules"][:j] + f["rules"][j + 1:]
        if any(ref_entry(world, case, f, s, rest) != full[s] for s in full):
            n += 1
    return n, len(f["rules"])


def run_fit(ctx, world, cases, tag):
    # phase 1: the implementation, case by case, in the order given (worker pools are reused between neighbours)
    impls = [fit_impl(world, case) for case in cases]
    # phase 2: the Lean fit model, every fit from the empty state (pure: independent of history), one driver call
    reqs, where = [], []
    for ci, case in enumerate(cases):
        if case.get("pre_filter"):
            continue
        rr = fit_model_requests(world, case)
        where.append((ci, len(reqs), len(rr)))
        reqs.extend(rr)
    ans = ctx.lean().ok(reqs, shards=8) if reqs else []
    models_of = {ci: ans[a:a + n] for ci, a, n in where}
    # phase 3: gates
    for ci, (case, impl) in enumerate(zip(cases, impls)):
        models = models_of.get(ci)
        opt = bool(case.get("alone"))
        pre = "b':" if opt else "b:"
        if models is not None:
            nonempty = sum(1 for m in models if "ok" in m["fit"] for e in m["fit"]["ok"] if e)
        else:
            nonempty = sum(1 for got in impl if isinstance(got, list) for g in got if g["out"])
        ctx.count(f"{pre}n_jobs={case['n_jobs']}")
        ctx.count(f"{pre}cache_{'on' if case['cache_on'] else 'off'}")
        ctx.count(f"{pre}cache_max={case['cache_max'] if case['cache_max'] < BIG else 'big'}")
        ctx.count(f"{pre}dedupe_{'on' if case['dedupe'] else 'off'}")
        ctx.count(f"{pre}fits", len(case["seq"]))
        ctx.count(f"{pre}entries", len(case["subs"]) * len(case["seq"]))
        ctx.count(f"{pre}entries_with_products", nonempty)
        if len(set(case["subs"])) < len(case["subs"]):
            ctx.count(f"{pre}batches_with_repeated_substrate")
        nontrivial = nonempty >= 1 and len(case["subs"]) >= 2
        if opt:
            ej = eff_rule_jobs(case)
            k = len(case["seq"][0]["rules"])
            ctx.count(f"b':group={case.get('group', '?')}")
            ctx.count(f"b':effective_rule_workers={ej}")
            ctx.count(f"b':rule_n_jobs={case.get('rule_n_jobs', 'default')}")
            ctx.count(f"b':parallel_rules={case.get('parallel_rules', 'default')},allow_nested={case.get('allow_nested', 'default')}")
            ctx.count(f"b':first_rule_list_length={k}")
            ctx.count(f"b':sem={'/'.join(map(str, case_sem(case)))}")
            ctx.count(f"b':pre_filter={case.get('pre_filter')}")
            ctx.count(f"b':rules_as={case['rules_as']}")
            if ej > 1 and k > ej and k % ej:
                ctx.count("b':rule_list_longer_than_and_not_a_multiple_of_the_rule_workers")
            m, n = rules_that_matter(world, case)
            ctx.count("b':rule_positions", n)
            ctx.count("b':rule_positions_that_matter_for_some_entry", m)
            nontrivial = n >= 1 and m == n
        ctx.case(["fit", case], nontrivial,
                 sample={"stream": pre + tag, **{k: case[k] for k in ("subs", "seq", "cache_on", "cache_max", "dedupe", "n_jobs")},
                         **{k: case[k] for k in ("rule_n_jobs", "parallel_rules", "allow_nested", "sem", "pre_filter") if k in case},
                         "substrates": [world.subs[i] for i in case["subs"]]}
                 if len(case["subs"]) <= 3 and want_sample(ctx, pre, 2) else None)
        d = fit_check(world, case, impl, models, ctx)
        if d is None:
            continue

        def fails(c):
            if not c["subs"] or any(not f["rules"] for f in c["seq"]):
                return False
            return fit_eval(ctx, world, c) is not None
        small = dict(case)
        b_subs, b_rules = (25, 15) if not uses_workers(case) else (8, 12)
        small["subs"] = shrink_seq(case["subs"], lambda ss: fails({**small, "subs": ss}), budget=b_subs)
        for i in range(len(small["seq"])):
            def with_rules(rr, i=i):
                seq = [dict(f) for f in small["seq"]]
                seq[i]["rules"] = rr
                return {**small, "seq": seq}
            rr = shrink_seq(small["seq"][i]["rules"], lambda r: fails(with_rules(r)), budget=b_rules)
            small = with_rules(rr)
        d2 = fit_eval(ctx, world, small) or d
        ctx.violation("BatchReactor.fit result for an entry differs from applying the rules to that substrate alone",
                      {**small, "substrates": [world.subs[i] for i in small["subs"]],
                       "rules_rsmi": [[world.rules_rsmi[t] for t in f["rules"]] for f in small["seq"]]},
                      {"what": d2[0], **d2[1], "stream": tag,
                       "options": {k: small.get(k) for k in ("n_jobs", "rule_n_jobs", "parallel_rules", "allow_nested", "cache_on",
                                                             "cache_max", "dedupe", "rules_as", "sem", "pre_filter")},
                       "effective_rule_workers": eff_rule_jobs(small),
                       "rule_list_lengths": [len(f["rules"]) for f in small["seq"]]})
        if nviol(ctx) >= 4:
            return


# ---------------------------------------------------------------------- stream b': the option space of BatchReactor
def gen_rule_list(rnd, world, k, inv, sem, within=None):
    """k templates that give products (direction, options) - on some corpus substrate, or on one of `within`;
    distinct while the supply lasts, then repeats; random order, so every template can be the trailing one"""
    H = world.hits(inv, sem)
    cands = sorted(t for t in H if within is None or any(s in within for s in H[t]))
    if not cands:
        return []
    rl = rnd.sample(cands, k) if k <= len(cands) else cands + rnd.choices(cands, k=k - len(cands))
    rnd.shuffle(rl)
    return rl


def gen_opt_case(rnd, world, look_pairs, k, opts, full_sems=False):
    """One batch built so that EVERY rule of the (first) rule list matters for some entry: for each template
    a substrate it converts is in the batch.  `opts`: the operational options of the reactor."""
    sem = rnd.choices(SEMS, weights=[6, 2, 2, 2] if full_sems else [6, 0, 3, 2])[0]
    inv = rnd.random() < 0.35
    if not world.hits(inv, sem):
        inv = not inv
    rl = gen_rule_list(rnd, world, k, inv, sem)
    H = world.hits(inv, sem)
    subs = []
    for t in dict.fromkeys(rl):
        if any(s in subs for s in H[t]) and rnd.random() < 0.4:
            continue
        subs.append(rnd.choice(H[t]))
    x = rnd.random()
    if x < 0.25:
        subs.append(rnd.choice(subs))                       # repeated substrate
    elif x < 0.45:
        subs.extend(rnd.choice(look_pairs))                 # look-alike pair: same composition
    elif x < 0.55:
        subs.append(rnd.randrange(len(world.subs)))         # most likely inert
    rnd.shuffle(subs)
    seq = [{"rules": rl, "inv": inv}]
    y = rnd.random()
    for _ in range(0 if y < 0.45 else (1 if y < 0.85 else 2)):
        how = rnd.choice(["perm", "rot", "drop_last", "same", "flip", "fresh", "fresh"])
        r2, i2 = list(seq[-1]["rules"]), seq[-1]["inv"]
        if how == "perm":
            rnd.shuffle(r2)
        elif how == "rot":
            r2 = r2[1:] + r2[:1]
        elif how == "drop_last" and len(r2) > 1:
            r2 = r2[:-1]
        elif how == "flip":
            i2 = not i2
        elif how == "fresh":
            i2 = rnd.random() < 0.35
            r2 = gen_rule_list(rnd, world, rnd.randint(1, 7), i2, sem, within=set(subs)) or r2
        seq.append({"rules": r2, "inv": i2})
    case = {"stream": "fit", "alone": True, "subs": subs, "seq": seq,
            "cache_on": rnd.random() < 0.7, "cache_max": rnd.choice([1, 2, 3, BIG, BIG]), "dedupe": rnd.random() < 0.5,
            "rules_as": rnd.choice(["str", "graph", "graph_shared", "graph_shared", "mixed"]),
            "as_dict": rnd.random() < 0.15, "sem": list(sem)}
    if rnd.random() < 0.2:
        case["pre_filter"] = rnd.choice(PRE_FILTERS)
    case.update(opts)
    return case


def gen_opt_cases(rnd, world, look_pairs, quick):
    """The constructor's operational options: entry_n_jobs x (parallel_rules, rule_n_jobs, allow_nested) x cache x dedupe,
    crossed with rule-list lengths 1..7.  Ordered so that neighbouring cases use the same worker pool."""
    cases = []
    # G1  rule-level workers only: every (length, workers) pair
    for rj in (2, 3, 4):
        for k in range(1, 8):
            for _ in range(2 if quick else 8):
                cases.append(gen_opt_case(rnd, world, look_pairs, k, {
                    "group": "rule-workers", "n_jobs": rnd.choice([1, 1, 1, 0]), "parallel_rules": True, "rule_n_jobs": rj,
                    "allow_nested": rnd.random() < 0.5}, not quick))
    # G2  nested: entry-level workers that start rule-level workers
    for ej, rj in ([(2, 2), (2, 3)] if quick else [(2, 2), (2, 3), (3, 2), (3, 3), (2, 4)]):
        for _ in range(2 if quick else 4):
            cases.append(gen_opt_case(rnd, world, look_pairs, rnd.randint(rj + 1, 7), {
                "group": "nested", "n_jobs": ej, "parallel_rules": True, "rule_n_jobs": rj, "allow_nested": True}, not quick))
    # G3  entry-level workers with the rule-level request switched off by one of the flags
    for ej in ((2,) if quick else (2, 3, 4)):
        for _ in range(3 if quick else 6):
            flags = rnd.choice([{"parallel_rules": True, "rule_n_jobs": rnd.choice([2, 3]), "allow_nested": False},
                                {"parallel_rules": False, "rule_n_jobs": rnd.choice([2, 3]), "allow_nested": True},
                                {"parallel_rules": True, "rule_n_jobs": 1, "allow_nested": True}])
            cases.append(gen_opt_case(rnd, world, look_pairs, rnd.randint(1, 7), {"group": "entry-workers", "n_jobs": ej, **flags}, not quick))
    # G4  one process whatever the flags say (parallel_rules off, or a worker count that max(1, .) turns into 1)
    for _ in range(50 if quick else 700):
        flags = rnd.choice([{"parallel_rules": False, "rule_n_jobs": rnd.choice([2, 3, 4, 8])},
                            {"parallel_rules": False, "rule_n_jobs": rnd.choice([2, 4]), "allow_nested": True},
                            {"parallel_rules": True, "rule_n_jobs": rnd.choice([1, 0, -1])},
                            {"parallel_rules": True, "rule_n_jobs": 1, "allow_nested": True},
                            {}])
        cases.append(gen_opt_case(rnd, world, look_pairs, rnd.randint(1, 7), {"group": "one-process", "n_jobs": rnd.choice([1, 1, 0, -1]), **flags}, not quick))
    return cases


def run_dedupe(ctx, rnd, n):
    """`_dedupe` itself: duplicate-free, same elements (what C14 needs of it); order as coded vs the Lean model."""
    from synkit.Synthesis.Reactor.batch_reactor import _dedupe
    lists = [[rnd.randint(0, 6) for _ in range(rnd.randint(0, 12))] for _ in range(n)]
    model = ctx.lean().ok([{"cmd": "batch.dedupe", "xs": xs} for xs in lists])
    for xs, m in zip(lists, model):
        got = list(_dedupe(list(xs)))
        ctx.count("b:dedupe_lists")
        ctx.case(["dedupe", xs], len(set(xs)) < len(xs))
        if len(set(got)) != len(got) or set(got) != set(xs):
            ctx.violation("_dedupe does not return the distinct elements of its input exactly once", {"stream": "dedupe", "xs": xs},
                          {"impl": got, "model": m})
            return
        if got != m:
            ctx.violation("correspondence b (_dedupe order: first occurrences in order, as coded) broke; the output is still the set of "
                          "distinct elements", {"stream": "dedupe", "xs": xs}, {"impl": got, "model": m}, no_input=True)
            return


# ====================================================================== stream c: BatchCluster
class ClusterWorld:
    def __init__(self, ctx, reactions):
        from synkit.IO import rsmi_to_its
        self.rsmi = reactions
        self.graphs = [rsmi_to_its(r, core=True) for r in reactions]
        self.cls_default = self._classes(ctx, ["element", "charge"])
        self.cls_elem = self._classes(ctx, ["element"])
        self.sig = ["".join(sorted(d.get("element", "*") for _, d in g.nodes(data=True))) for g in self.graphs]

    def _classes(self, ctx, node_keys):
        """isomorphism classes by the proven Lean engine (greedy against class representatives)"""
        enc = [graphio.graph(g, node_keys=set(node_keys), edge_keys={"order"},
                             node_id=(lambda m: (lambda n: m[n]))({n: i for i, n in enumerate(g.nodes())}))
               for g in self.graphs]
        # one driver call for all pairs; classes = greedy against class representatives
        pairs = [(i, j) for j in range(len(enc)) for i in range(j)]
        ans = ctx.lean().ok([{"cmd": "match.iso", "host": enc[i], "pattern": enc[j], "node_keys": node_keys,
                              "edge_keys": ["order"], "hcount": False} for i, j in pairs], shards=8)
        iso = {p: bool(a) for p, a in zip(pairs, ans)}
        reps, cls = [], []
        for j in range(len(enc)):
            c = next((k for k, r in enumerate(reps) if iso[(r, j)]), None)
            if c is None:
                c = len(reps)
                reps.append(j)
            cls.append(c)
        return cls


_CW = {}


def cluster_world(ctx, reactions):
    key = tuple(reactions)
    if key not in _CW:
        _CW[key] = ClusterWorld(ctx, reactions)
    return _CW[key]


def partition(labels):
    groups = {}
    for i, c in enumerate(labels):
        groups.setdefault(c if c is not None else ("none", i), []).append(i)
    return sorted(groups.values())


def cluster_impl(cw, items, attr_mode, cfg, k):
    from synkit.Graph.Matcher.batch_cluster import BatchCluster
    data = []
    for i in items:
        d = {"g": cw.graphs[i], "idx": i}
        if attr_mode == "sig":
            d["sig"] = cw.sig[i]
        elif attr_mode == "size":
            d["sig"] = str(cw.graphs[i].number_of_nodes())
        data.append(d)
    bc = BatchCluster() if cfg == "default" else BatchCluster(node_label_names=["element"], node_label_default=["*"])
    try:
        out, templates = bc.fit(data, [], rule_key="g", attribute_key=None if attr_mode == "none" else "sig", batch_size=k)
    except ValueError:
        return "ValueError"
    except IndexError:
        return "IndexError"
    if [d["idx"] for d in out] != items:
        return "reordered"
    return [d.get("class") for d in out]


def cluster_model_req(cw, items, attr_mode, cfg, k, repaired):
    amap = {}
    rows = []
    for i in items:
        a = 0 if attr_mode == "none" else (cw.sig[i] if attr_mode == "sig" else str(cw.graphs[i].number_of_nodes()))
        a = amap.setdefault(a, len(amap))
        c = cw.cls_default[i] if cfg == "default" else cw.cls_elem[i]
        c1 = c if repaired else cw.cls_default[i]
        rows.append([a, c, c1])
    return {"cmd": "batchcluster.fit", "items": rows, "batch_size": k}


def run_cluster(ctx, cw, cases, tag):
    """cases: (items, attr_mode, cfg)"""
    for items, attr_mode, cfg in cases:
        n = len(items)
        ks = [None] + list(range(1, n + 2))
        impl = {k: cluster_impl(cw, items, attr_mode, cfg, k) for k in ks}
        reqs = [cluster_model_req(cw, items, attr_mode, cfg, k, True) for k in ks] + \
               [cluster_model_req(cw, items, attr_mode, cfg, k, False) for k in ks]
        ans = ctx.lean().ok(reqs)
        mod_rep = dict(zip(ks, ans[:len(ks)]))
        mod_coded = dict(zip(ks, ans[len(ks):]))
        one = impl[None]
        ncls = len(partition(one)) if isinstance(one, list) else 0
        ctx.count(f"c:config={cfg}")
        ctx.count(f"c:attr={attr_mode}")
        ctx.count("c:fit_calls", len(ks))
        ctx.case(["cluster", items, attr_mode, cfg], n >= 3 and 2 <= ncls < n,
                 sample={"stream": "c:" + tag, "items": items, "attr": attr_mode, "config": cfg,
                         "one_shot_classes": one} if n <= 5 and want_sample(ctx, "c:", 1) else None)
        bad = None
        for k in ks:
            got = impl[k]
            gp = partition(got) if isinstance(got, list) else got
            wrep = mod_rep[k]
            wp = partition(wrep["ok"]) if "ok" in wrep else wrep["err"]
            if gp == wp:
                if isinstance(got, list) and got == wrep.get("ok"):
                    ctx.count("c:labels_equal_too")
                continue
            wcod = mod_coded[k]
            wcp = partition(wcod["ok"]) if "ok" in wcod else wcod["err"]
            classes = [CLASS_ONESHOT] if (gp == wcp and cfg != "default") else []
            bad = (k, gp, wp, classes)
            break
        if bad is None and isinstance(one, list):
            # impl vs impl, independent of the model: every batch size gives the one-shot partition
            for k in ks[1:]:
                if isinstance(impl[k], list) and partition(impl[k]) != partition(one):
                    bad = (k, partition(impl[k]), partition(one), [])
                    break
        if bad is None:
            continue
        k, gp, wp, classes = bad
        ctx.violation("batched clustering and one-shot clustering give different partitions" if classes else
                      "BatchCluster.fit partition differs from the model (classes by the proven isomorphism engine)",
                      {"stream": "cluster", "items": items, "attr": attr_mode, "config": cfg,
                       "reactions": [cw.rsmi[i] for i in items]},
                      {"batch_size": k, "impl_partition": gp, "expected_partition": wp,
                       "one_shot_partition": partition(one) if isinstance(one, list) else one,
                       "batch_size_1_partition": partition(impl[1]) if isinstance(impl[1], list) else impl[1], "stream": tag},
                      classes=classes)
        if len([v for v in ctx.violations if not v["classes"]]) >= 4:
            return


# ====================================================================== stream d: joblib validation / balance
def run_validation(ctx, reactions, rnd, n):
    from synkit.Chem.Reaction.aam_validator import AAMValidator
    from synkit.Chem.Reaction.balance_check import BalanceReactionCheck
    idx = [rnd.randrange(len(reactions)) for _ in range(n)]
    data = []
    for j, i in enumerate(idx):
        r = reactions[i]
        other = reactions[idx[(j + 1) % len(idx)]]
        data.append({"ground_truth": r, "same": r, "other": other if rnd.random() < 0.5 else r, "n": j})
    outs = {}
    for nj in (1, 4):
        with quiet_stderr():
            outs[nj] = AAMValidator.validate_smiles([dict(d) for d in data], ground_truth_col="ground_truth",
                                                    mapped_cols=["same", "other"], check_method="RC", n_jobs=nj)
    ser = [AAMValidator.check_pair(d, c, "ground_truth", "RC", False, True) for c in ("same", "other") for d in data]
    ctx.count("d:validate_pairs", 2 * len(data))
    ctx.count("d:validate_true", sum(1 for x in ser if x))
    ctx.case(["validate", idx], True)
    flat = lambda o: [x for m in o for x in m["results"]]
    if outs[1] != outs[4] or flat(outs[1]) != ser:
        ctx.violation("validate_smiles: n_jobs=4 result differs from n_jobs=1 / from the serial pair-by-pair check",
                      {"stream": "validate", "data": data},
                      {"n_jobs_1": outs[1], "n_jobs_4": outs[4], "serial": ser})
    rx = []
    for j, i in enumerate(idx):
        r = reactions[i]
        if rnd.random() < 0.4:                     # unbalance: drop the last product fragment
            a, b = r.split(">>")
            if "." in b:
                r = a + ">>" + ".".join(b.split(".")[:-1])
        rx.append({"reactions": r, "n": j} if rnd.random() < 0.5 else r)
    res = {}
    for nj in (1, 4):
        with quiet_stderr():
            res[nj] = BalanceReactionCheck(n_jobs=nj).dicts_balance_check(list(rx))
    serial = [BalanceReactionCheck.rsmi_balance_check(x["reactions"] if isinstance(x, dict) else x) for x in rx]
    ctx.count("d:balance_reactions", len(rx))
    ctx.count("d:balance_balanced", sum(1 for x in serial if x))
    ctx.case(["balance", rx], True)
    want_b = [{"balanced": True, **(x if isinstance(x, dict) else {"reactions": x})} for x, s in zip(rx, serial) if s]
    want_u = [{"balanced": False, **(x if isinstance(x, dict) else {"reactions": x})} for x, s in zip(rx, serial) if not s]
    if res[1] != res[4] or list(res[1]) != [want_b, want_u]:
        ctx.violation("dicts_balance_check: n_jobs=4 result differs from n_jobs=1 / from the serial reaction-by-reaction check",
                      {"stream": "balance", "data": rx}, {"n_jobs_1": res[1], "n_jobs_4": res[4]})


# ====================================================================== stream e: SynCRN
CRN_RULES = [
    "[CH3:1][C:2](=[O:3])[OH:4].[CH3:5][OH:6]>>[CH3:1][C:2](=[O:3])[O:6][CH3:5].[OH2:4]",
    "[CH3:1][CH2:2][OH:3]>>[CH2:1]=[CH2:2].[OH2:3]",
    "[CH2:1]=[CH2:2].[OH2:3]>>[CH3:1][CH2:2][OH:3]",
]
CRN_SEEDS = ["CC(=O)O", "CO", "CCO", "CCC(=O)O", "O", "C=C", "CCCO"]


def crn_key(G):
    lab = lambda n: G.nodes[n].get("smiles_nomap", G.nodes[n].get("smiles"))
    species = sorted(lab(n) for n, d in G.nodes(data=True) if d.get("kind") == "species")
    rx = []
    for n, d in G.nodes(data=True):
        if d.get("kind") != "rxn":
            continue
        rx.append([d.get("rule_index"), d.get("step"), sorted(lab(u) for u in G.predecessors(n)),
                   sorted(lab(v) for v in G.successors(n))])
    return {"species": species, "reactions": sorted(rx, key=json.dumps)}


def run_crn(ctx, rnd, n):
    from synkit.CRN.DAG.syncrn import SynCRN
    for _ in range(n):
        rules = rnd.sample(CRN_RULES, rnd.randint(2, 3))
        seeds = rnd.sample(CRN_SEEDS, rnd.randint(3, 5))
        repeats = rnd.randint(1, 2)
        keys = {}
        for par in (False, True):
            crn = SynCRN(rules=list(rules), repeats=repeats, implicit_temp=True, explicit_h=False)
            with quiet_stderr():
                G = crn.build(list(seeds), parallel=par, max_workers=3)
            keys[par] = crn_key(G)
        ctx.count("e:crn_builds", 2)
        ctx.count("e:crn_reaction_nodes", len(keys[False]["reactions"]))
        ctx.case(["crn", rules, seeds, repeats], len(keys[False]["reactions"]) >= 1,
                 sample={"stream": "e", "rules": rules, "seeds": seeds, "repeats": repeats,
                         "n_reactions": len(keys[False]["reactions"])} if want_sample(ctx, "e", 1) else None)
        if keys[False] != keys[True]:
            ctx.violation("SynCRN.build(parallel=True) builds a different network than parallel=False",
                          {"stream": "crn", "rules": rules, "seeds": seeds, "repeats": repeats},
                          {"serial": keys[False], "parallel": keys[True]})


# ====================================================================== run / replay
def want_sample(ctx, prefix, limit):
    return sum(1 for x in ctx.samples if str(x.get("stream", "")).startswith(prefix)) < limit


def nviol(ctx):
    """violations that no known-finding class can select"""
    return sum(1 for v in ctx.violations if not v["classes"])


def load_regress():
    d = ROOT / "regress" / "C14"
    return [json.loads(f.read_text()) for f in sorted(d.glob("*.json"))] if d.exists() else []


def look_alike_pairs(subs):
    from rdkit import Chem
    from rdkit.Chem.rdMolDescriptors import CalcMolFormula
    by = {}
    for i, s in enumerate(subs):
        by.setdefault(CalcMolFormula(Chem.MolFromSmiles(s)), []).append(i)
    pairs = [list(p) for v in by.values() if len(v) >= 2 for p in itertools.combinations(v, 2)]
    return pairs


def run_one(ctx, case, tag):
    st = case.get("stream")
    if st == "heap":
        run_heap(ctx, [(case["cache_on"], case["cache_max"], case["prog"])], tag)
    elif st == "fit":
        rules, subs, _ = load_corpus()
        run_fit(ctx, FitWorld(rules, subs), [{k: v for k, v in case.items() if k not in ("substrates", "rules_rsmi")}], tag)
    elif st == "cluster":
        _, _, R = load_corpus()
        run_cluster(ctx, cluster_world(ctx, R), [(case["items"], case["attr"], case["config"])], tag)
    elif st == "dedupe":
        from synkit.Synthesis.Reactor.batch_reactor import _dedupe
        got = list(_dedupe(list(case["xs"])))
        ctx.case(["dedupe", case["xs"]], True)
        if len(set(got)) != len(got) or set(got) != set(case["xs"]):
            ctx.violation("_dedupe does not return the distinct elements of its input exactly once", case, {"impl": got})
    else:
        raise ValueError(f"replay of stream {st!r} is not supported (re-run the check with the recorded seed)")


def run(ctx):
    import logging
    import warnings
    warnings.filterwarnings("ignore")
    logging.disable(logging.CRITICAL)
    try:
        from rdkit import RDLogger
        RDLogger.DisableLog("rdApp.*")
    except Exception:
        pass
    ctx.trusted = [
        "Lean 4.33 kernel; axioms of the property theorems as listed in obligation_list",
        "hand-written model SynKitModel/BatchCache.lean tied to /repo by the correspondence streams a, b, c (not by translation)",
        "Driver/BatchCache.lean JSON codec, harness/props/c14.py adapters; RDKit for the standardisation of reaction SMILES "
        "(only used when raw strings differ); the proven isoDecide engine (match.iso) as isomorphism oracle of stream c",
        "PARTIAL: joblib/loky, ProcessPoolExecutor: process start-up, pickling and scheduling are not modelled; streams b (n_jobs>1), d, e "
        "explore them on the implementation only",
    ]
    ctx.assumptions = [
        "graph objects are not edited while a cache entry computed from them exists (an id-keyed cache presumes it)",
        "cache_maxsize >= 1 when the cache is enabled (size 0 raises StopIteration on both trees: recorded as an observation, not gated)",
        "BatchReactor with react_engine 'syn' (the 'mod' engine needs the external package `mod`, not installed); with a "
        "pre_filter_engine the reference is the implementation itself on the one-entry batch (the Lean fit model has no pre-filter)",
        "clustering attributes are strings or attribute_key=None (list-valued attributes are sorted by the one-shot path only)",
    ]
    ctx.gen_rule = (
        "regression corpus first. (a) ALL programs over an 8-op alphabet (2 substrate slots, contents, forced identity reuse, free, "
        "call fw/bw) to depth 4 (quick) / 5 (thorough) at cache sizes 1 and 8, plus random programs (<=60 ops, 6 slots, 3 rule objects, "
        "cache off / sizes 1,2,3,8,big). (b) random batches (1..7 entries; repeated and same-formula look-alike substrates from "
        "corpus/c14_substrates.json; 1..5 templates from corpus/c14_templates.json, repeated rules; 1-2 fits per reactor; both "
        "directions; rules as strings or graphs) x cache on/off x cache_maxsize {1,2,3,big} x dedupe x entry_n_jobs {1; 2,4; 8 thorough}. "
        "(b') the constructor's option space: rule lists of every length 1..7 built so that each rule converts some substrate of the "
        "batch (substrates picked from the template's hit list; repeated / look-alike / inert extras), x effective rule workers "
        "{2,3,4} (parallel_rules, entry_n_jobs in {0,1}), nested (entry_n_jobs 2-3 x rule_n_jobs 2-4, allow_nested), entry workers "
        "with the rule-level request disabled by either flag, and one-process settings of all flags (worker counts 0/-1 included) "
        "x cache on/off x cache_maxsize {1,2,3,big} x dedupe x rules as strings / fresh graphs / graph objects shared between "
        "fits / mixed x semantic options (explicit_h, implicit_temp, strategy bt/all/comp) x pre-filter {none, turbo, sing, nx}; "
        "1-3 fits per reactor (permuted, rotated, shortened, repeated, other direction, fresh list). "
        "(c) random item lists (3..9 reaction centres of corpus/c14_reactions.json, with repeats) x attribute {none, element signature, "
        "size} x matcher config {default, element-only}, every batch size 1..N+1 and one shot. (d) n_jobs 1 vs 4. (e) parallel vs serial.")
    ctx.nontrivial_rule = ("(a) >=2 calls and a release or an identity reuse; (b) >=2 entries and >=1 entry with products; (b') removing any single position of the first rule list changes the "
                           "reference result of some entry; (c) >=3 items, "
                           "2 <= #classes < #items; (d),(e) every case; distinct as JSON values")
    build_and_audit(ctx, ["SynKitProofs.Props.C14"], "SynKitProofs/Audit/C14.lean", THEOREMS)

    import time
    walls = {}
    t_mark = [ctx.t0]

    def lap(name):
        walls[name] = round(time.time() - t_mark[0], 1)
        t_mark[0] = time.time()
        ctx.extra["stream_wall_s"] = dict(walls)
    lap("build+audit")
    rules, subs, reactions = load_corpus()
    rnd = ctx.rnd
    # ---- regressions
    reg = load_regress()
    try:
        for c in reg:
            run_one(ctx, c, "regress")
    finally:
        shutdown_workers()
    ctx.count("regress_cases", len(reg))
    ctx.obligation("regression corpus regress/C14 replays clean", nviol(ctx) == 0)

    lap("regress")
    # ---- a
    alpha = heap_alphabet()
    depth = 4 if ctx.quick else 5
    cases = []
    for d in range(1, depth + 1):
        for seq in itertools.product(alpha, repeat=d):
            for mx in (1, 8):
                cases.append((True, mx, PREFIX + list(seq)))
    nrand = 400 if ctx.quick else 4000
    for _ in range(nrand):
        on = rnd.random() < 0.85
        cases.append((on, rnd.choice([1, 1, 2, 2, 3, 8, BIG]), heap_random(rnd, rnd.randint(6, 60))))
    run_heap(ctx, cases, "exhaustive+random")
    ctx.extra["exhaustive"] = False
    ctx.extra["exhaustive_part"] = f"stream a: all 8^d programs for d<={depth} at cache sizes 1 and 8"
    ctx.obligation("correspondence a: heap histories on _RuleApplier == Lean model of the repaired cache; every call == f(contents)",
                   nviol(ctx) == 0)
    # ungated observation: cache_maxsize=0
    try:
        st = impl_heap_run(True, 0, PREFIX + [alpha[5]])
        ctx.extra["observation_cache_maxsize_0"] = f"call outcome with cache_enabled=True, cache_maxsize=0: {st[-1]['out']!r} (model: StopIteration)"
    except Exception as e:  # noqa
        ctx.extra["observation_cache_maxsize_0"] = f"not evaluated: {e!r}"

    lap("a")
    # ---- b
    nb = nviol(ctx)
    world = FitWorld(rules, subs)
    pairs = look_alike_pairs(subs)
    ctx.count("b:look_alike_pairs_available", len(pairs))
    run_dedupe(ctx, rnd, 150 if ctx.quick else 1500)
    try:
        fcases = [gen_fit_case_productive(rnd, world, pairs, 1) if i % 3 else gen_fit_case(rnd, len(subs), len(rules), pairs)
                  for i in range(36 if ctx.quick else 400)]
        run_fit(ctx, world, fcases, "sequential")
        par = [2, 4, 2] if ctx.quick else [2, 4, 8, 2, 4, 8, 2, 4, 2, 4, 2, 4]
        pcases = [gen_fit_case_productive(rnd, world, pairs, 2, n_jobs=nj, max_batch=5, min_batch=3) for nj in par]
        if nviol(ctx) == nb:
            run_fit(ctx, world, pcases, "parallel")
    finally:
        shutdown_workers()
    ctx.obligation("correspondence b: BatchReactor.fit per entry == rules applied to the substrate alone (via the Lean fit model)",
                   nviol(ctx) == nb)

    lap("b")
    # ---- b': the whole option space of the constructor, rule lists of length 1..7 in which every rule matters
    nb2 = nviol(ctx)
    try:
        ocases = gen_opt_cases(rnd, world, pairs, ctx.quick)
        run_fit(ctx, world, ocases, "options")
    finally:
        shutdown_workers()
    ctx.obligation("correspondence b': BatchReactor.fit per entry == the rules applied to that substrate alone, for every setting of "
                   "entry_n_jobs / rule_n_jobs / parallel_rules / allow_nested / cache / dedupe / semantic options / pre-filter "
                   "(Lean fit model and a one-entry one-process cache-less reactor)", nviol(ctx) == nb2)
    lap("b'")
    # ---- c
    nc = nviol(ctx)
    cw = cluster_world(ctx, reactions)
    ctx.count("c:corpus_classes_default", len(set(cw.cls_default)))
    ctx.count("c:corpus_classes_element_only", len(set(cw.cls_elem)))
    ccases = []
    for _ in range(24 if ctx.quick else 240):
        n = rnd.randint(3, 9)
        base = [rnd.randrange(len(reactions)) for _ in range(n)]
        items = [rnd.choice(base) for _ in range(n)] if rnd.random() < 0.5 else base
        ccases.append((items, rnd.choice(["none", "sig", "size"]), "default" if rnd.random() < 0.75 else "element"))
    run_cluster(ctx, cw, ccases, "random")
    ctx.obligation("correspondence c: BatchCluster.fit partitions, every batch size == one shot == Lean model",
                   nviol(ctx) == nc)

    lap("c")
    # ---- d, e (exploration of the runtime part)
    nd = nviol(ctx)
    try:
        for _ in range(1 if ctx.quick else 6):
            run_validation(ctx, reactions, rnd, 12 if ctx.quick else 24)
    finally:
        shutdown_workers()
    ctx.obligation("exploration d: validate_smiles / dicts_balance_check, n_jobs=4 == n_jobs=1 == serial", nviol(ctx) == nd)
    lap("d")
    ne = nviol(ctx)
    run_crn(ctx, rnd, 2 if ctx.quick else 12)
    lap("e")
    ctx.obligation("exploration e: SynCRN.build(parallel=True) == build(parallel=False)", nviol(ctx) == ne)
    ctx.extra["partial"] = ("process start-up, pickling and scheduling of worker processes are outside the model; "
                            "covered by exploration only (streams b with n_jobs>1, d, e)")


def replay(ctx, case):
    import logging
    import warnings
    warnings.filterwarnings("ignore")
    logging.disable(logging.CRITICAL)
    try:
        run_one(ctx, case["case"] if "case" in case else case, "replay")
    finally:
        shutdown_workers()

"""C14 — batching, parallelism and caching are operational only: results never change.

Lean side (lean/SynKitProofs/Props/C14.lean): the `_RuleApplier` cache over an explicit object
heap with identity reuse is transparent for every history iff entries keep their key objects
alive (`cache_transparent_if_pinned`, negation witness `cache_stale_witness`), `BatchReactor.fit`
= map of the single-substrate function (`batch_eq_single`, `worker_eq_single`), `_dedupe` keeps
first occurrences in order (`dedupe_order_stable`), batched clustering = one-shot clustering
(`batched_cluster_eq_oneshot`), order-preserving parallel map (`parallel_map_eq`).

Correspondence / exploration streams (each registered as an obligation):

 a  heap-op histories executed on the REAL `_RuleApplier` with identity reuse *forced* (release a
    graph, allocate new graphs until one lands on a released address), `_apply_rule_raw`
    replaced by the free result function; outcome of every op, cache keys in FIFO order and
    held identities compared with the Lean model of the repaired code; the specification
    (`exp`: f of the contents the caller passed) is evaluated by the Lean driver on every call.
 b  `BatchReactor.fit` per entry vs `SynReactor` applied alone to that substrate (reference
    table computed cell by cell, handed to the Lean `fit` model): cache on/off, cache_maxsize
    1/2/big, dedupe on/off, both directions, repeated and look-alike substrates, rules as
    strings or graphs, two successive fits on one reactor, entry_n_jobs 1/2/4 (8 in thorough).
 b' the option space of the `BatchReactor` constructor: entry-level x rule-level workers
    (`parallel_rules`, `rule_n_jobs`, `allow_nested`; effective rule workers 2/3/4 crossed with
    every rule-list length 1..7; nested; disabled by either flag; worker counts 0/-1), cache
    flags, dedupe, rule objects shared between successive fits, semantic options
    (explicit_h / implicit_temp / strategy) and rule pre-filters.  Batches are built so that
    every rule of the list converts some substrate of the batch (a dropped, doubled or
    misrouted rule is visible).  Two references, both computed per entry independently of the
    batch and of history: the Lean `fit` model over the SynReactor table, and a fresh one-entry,
    one-process, cache-less `BatchReactor` (the property's own right-hand side).
 b-free  the real `fit` / `worker` / `_apply_bulk` / `_RuleApplier` / `_dedupe` with only the single rule application
    (`_apply_rule_raw`) replaced by a table - the free result function of the Lean theorems - so that the history space is
    enumerated instead of sampled: ALL rule lists to length 4 (thorough 5) over three rule OBJECTS, two of them equal in
    content, x dedupe x cache off/1/2/big on a three-entry batch; random sequences of 1..4 fits on one reactor (lists to 12
    positions built as [a, b] * k / palindromes / random, one rule-list object and one entry-dict object used repeatedly,
    one-shot iterables, `describe` / `repr` / `help` / `len` / `iter` / indexing between the fits, option settings that all
    mean one process) and lists of more than 256 positions.  Reference: Lean `single` (= `fit` by `batch_eq_single`).
 b''  the same with the chemistry: ONE rule graph object at several positions of the rule list (the only way the identity-keyed
    cache ever hits inside a fit: substrate graphs are made per entry and per fit), templates chosen among those that convert
    one pivot substrate of the batch; all lists to length 3 (thorough 4) over two such objects x dedupe x cache, random lists,
    follow-up fits (same / permuted / rotated / doubled / other direction) with the same objects and the same list object.
 b-err  batches holding an entry that is no substrate (unparsable SMILES, non-string, dict without the key / without a
    `host_key`) and rule lists holding a non-rule: `fit` must raise (the member alone is an error - judged by type, key
    and RDKit, not by synkit) with an error kind one of the ill-formed members raises alone, for 1 and 2 entry workers;
    a good fit on the same reactor after a failed one == the SynReactor table.
 c  `BatchCluster.fit` for every batch size 1..N vs one shot, partitions compared as partitions,
    and against the Lean model fed with isomorphism classes from the proven `isoDecide` engine
    (also `templates=None`, and batch_size 0 / -1 -> ValueError).
 c' the same with a NON-empty initial template library (the single-batch `cluster` branch of `fit`; theorem
    `batched_cluster_eq_oneshot_templates`): labels of the initial library are compared exactly, new classes as a
    partition; returned library: initial part kept, labels as the model's.
 c-rep / c'-rep  c and c' with the pre-filter attribute SPELLED differently from record to record: values that are equal under
    `==` (4 / 4.0 / numpy.int64(4) / numpy.float32(4.0), 0 / -0.0, 'ab' / numpy.str_('ab'), key absent / None, [4, 3.0] /
    [4.0, 3]) are ONE value for the model (the code is the graphio encoding of the object handed to the implementation), NaN
    is equal to nothing; multi-digit and falsy values; graphs as relabelled, re-typed copies carrying unselected extra
    attributes; one BatchCluster instance / one list of record dicts used for all batch sizes, in several call orders.
 d  `validate_smiles` / `dicts_balance_check` with n_jobs 1 vs 4.
 d' the same through every documented input form (DataFrame / list; single string / list of strings and dicts, other
    column names), per-pair options (check_method, ignore_aromaticity, ignore_tautomers), unparsable rows, empty and
    ill-typed inputs: outcome (value or error kind) equal for every worker count and equal to the serial evaluation.
 e  `SynCRN.build(parallel=True)` vs `parallel=False`.
 e' the same over strategy / use_frontier / de-duplication flags / keep_aam / component and task caps / a three-component
    rule / unusable and repeated seeds, max_workers 1..4 and default, `SynCRN(...).build` and `build_syncrn_from_smarts`.

Process start-up, pickling and scheduling of worker processes are runtime behaviour the model
cannot exhibit: for those C14 is *partial* and streams b, b' (with workers), d, e are exploration of
the implementation only.
"""
import contextlib
import itertools
import json
import os

from ..core import ROOT, build_and_audit
from ..shrink import shrink_seq
from .. import graphio

THEOREMS = [
    "SynKit.BatchCache.cache_transparent_if_pinned",
    "SynKit.BatchCache.cache_transparent_outs",
    "SynKit.BatchCache.cache_stale_witness",
    "SynKit.BatchCache.cache_zero_raises",
    "SynKit.BatchCache.batch_eq_single",
    "SynKit.BatchCache.worker_eq_single",
    "SynKit.BatchCache.freshAlloc_valid",
    "SynKit.BatchCache.lowestAlloc_valid",
    "SynKit.BatchCache.dedupe_order_stable",
    "SynKit.BatchCache.batched_cluster_eq_oneshot",
    "SynKit.BatchCache.batched_cluster_eq_oneshot_templates",
    "SynKit.BatchCache.oneshot_default_matcher_witness",
    "SynKit.BatchCache.parallel_map_eq",
    "SynKit.BatchCache.c14_full",
]

CLASS_ONESHOT = "batchcluster_oneshot_default_matcher"
BIG = 32768


# ====================================================================== helpers
@contextlib.contextmanager
def quiet_stderr():
    """Worker processes inherit fd 2; synkit logs at INFO from freshly started interpreters."""
    import sys
    sys.stderr.flush()
    saved = os.dup(2)
    devnull = os.open(os.devnull, os.O_WRONLY)
    try:
        os.dup2(devnull, 2)
        yield
    finally:
        os.dup2(saved, 2)
        os.close(saved)
        os.close(devnull)


def shutdown_workers():
    try:
        from joblib.externals.loky import get_reusable_executor
        get_reusable_executor().shutdown(wait=True, kill_workers=True)
    except Exception:
        pass


def load_corpus():
    T = json.loads((ROOT / "corpus" / "c14_templates.json").read_text())["templates"]
    S = json.loads((ROOT / "corpus" / "c14_substrates.json").read_text())["substrates"]
    R = json.loads((ROOT / "corpus" / "c14_reactions.json").read_text())["reactions"]
    global TEMPLATE_WEIGHTS
    TEMPLATE_WEIGHTS = [1 + int(t.get("hits_in_selection_matrix", 0)) for t in T]
    return [t["rsmi"] for t in T], [s["smiles"] for s in S], R


TEMPLATE_WEIGHTS = None


def std_rsmi(r):
    """Atom-map-free canonical reaction SMILES (RDKit), fragments sorted; None if unparsable."""
    from rdkit import Chem

    def side(s):
        out = []
        for frag in s.split("."):
            if not frag:
                continue
            m = Chem.MolFromSmiles(frag)
            if m is None:
                return None
            for a in m.GetAtoms():
                a.SetAtomMapNum(0)
            m = Chem.RemoveHs(m)
            out.append(Chem.MolToSmiles(m))
        return ".".join(sorted(out))
    try:
        a, b = r.split(">>")
        sa, sb = side(a), side(b)
        if sa is None or sb is None:
            return "?" + r
        return sa + ">>" + sb
    except Exception:
        return "?" + r


# ====================================================================== stream a: heap histories
def impl_heap_run(cache_on, cache_max, prog, nslots=6):
    """Run a slot-level program on the real _RuleApplier.  Returns the realised history
    (abstract ids = first-seen numbering of real addresses) with the outcome, the cache keys and
    the held ids after every executed op."""
    import networkx as nx
    import synkit.Synthesis.Reactor.batch_reactor as br

    def stub(sub, rule, inv, engine, **kw):
        return [[sub.graph["c"], rule.graph["c"], bool(inv)]]

    saved = br._apply_rule_raw
    br._apply_rule_raw = stub
    try:
        ap = br._RuleApplier("syn", strategy="bt", explicit_h=True, implicit_temp=False,
                             cache_enabled=cache_on, cache_maxsize=cache_max)
        slots = [None] * nslots
        amap = {}
        dead = []          # released addresses, most recent last
        steps = []

        def aid(addr):
            return amap.setdefault(addr, len(amap))

        def keys():
            c = ap._cache
            if c is None:
                return []
            out = []
            for k in c.keys():
                if isinstance(k, tuple):
                    out.append([amap.get(x, -1) if (isinstance(x, int) and not isinstance(x, bool)) else x for x in k])
                else:
                    out.append(repr(k))
            return out

        for op in prog:
            o = op["op"]
            if o == "alloc":
                i = op["slot"]
                if slots[i] is not None:
                    continue
                g = None
                if op.get("reuse") and dead:
                    want = set(dead)
                    keep = []
                    for _ in range(48):
                        h = nx.Graph()
                        if id(h) in want:
                            g = h
                            break
                        keep.append(h)
                    if g is None:
                        g = keep.pop()
                    del keep
                else:
                    g = nx.Graph()
                g.graph["c"] = op["c"]
                if id(g) in dead:
                    dead.remove(id(g))
                slots[i] = g
                real = {"op": "alloc", "id": aid(id(g)), "c": op["c"]}
                out = "ok"
                del g
            elif o == "free":
                i = op["slot"]
                if slots[i] is None:
                    continue
                a = id(slots[i])
                real = {"op": "free", "id": aid(a)}
                slots[i] = None
                dead.append(a)
                out = "ok"
            elif o == "call":
                s, r = slots[op["s"]], slots[op["r"]]
                if s is None or r is None:
                    continue
                real = {"op": "call", "sid": aid(id(s)), "rid": aid(id(r)), "inv": bool(op["inv"])}
                try:
                    res = ap(s, r, bool(op["inv"]))
                    out = res[0] if isinstance(res, list) and len(res) == 1 else repr(res)
                except StopIteration:
                    out = "StopIteration"
                except Exception as e:  # noqa
                    out = type(e).__name__
                del s, r
            else:
                raise AssertionError(o)
            steps.append({"real": real, "out": out, "keys": keys(),
                          "held": sorted(aid(id(x)) for x in slots if x is not None), "src": op})
        return steps
    finally:
        br._apply_rule_raw = saved


def heap_requests(cache_on, cache_max, steps, pin=True):
    return {"cmd": "cache.run", "cache_on": cache_on, "cache_max": cache_max, "pin": pin,
            "ops": [s["real"] for s in steps]}


def heap_compare(steps, model):
    """-> (kind, t, text): kind 'spec' (a call returned something else than f(contents)),
    'model' (impl and model differ although the spec holds so far), or None."""
    first_model = None
    for t, (a, b) in enumerate(zip(steps, model["steps"])):
        if b["exp"] is not None and a["out"] != b["exp"]:
            return "spec", t, f"call returned {a['out']!r}, the property demands {b['exp']!r}"
        if first_model is None:
            if a["out"] != b["out"]:
                first_model = (t, f"outcome impl={a['out']!r} model={b['out']!r}")
            elif a["keys"] != b["keys"]:
                first_model = (t, f"cache keys (FIFO order) impl={a['keys']!r} model={b['keys']!r}")
            elif a["held"] != b["held"]:
                first_model = (t, f"held ids impl={a['held']!r} model={b['held']!r}")
    if first_model:
        return "model", first_model[0], first_model[1]
    return None


def heap_alphabet():
    A = [{"op": "alloc", "slot": 0, "c": 1, "reuse": True}, {"op": "alloc", "slot": 0, "c": 2, "reuse": True},
         {"op": "alloc", "slot": 1, "c": 3, "reuse": True}, {"op": "free", "slot": 0}, {"op": "free", "slot": 1},
         {"op": "call", "s": 0, "r": 5, "inv": False}, {"op": "call", "s": 0, "r": 5, "inv": True},
         {"op": "call", "s": 1, "r": 5, "inv": False}]
    return A


PREFIX = [{"op": "alloc", "slot": 5, "c": 100, "reuse": False}, {"op": "alloc", "slot": 0, "c": 1, "reuse": False}]


def heap_random(rnd, length):
    prog = [{"op": "alloc", "slot": 5, "c": 100, "reuse": False}, {"op": "alloc", "slot": 4, "c": 101, "reuse": False}]
    occupied = {4, 5}
    last = {}
    for _ in range(length):
        x = rnd.random()
        free_slots = [i for i in range(6) if i not in occupied]
        if (x < 0.28 and free_slots) or len(occupied) < 3:
            i = rnd.choice(free_slots)
            c = rnd.choice([100, 101, 102]) if i >= 4 else rnd.randint(1, 6)
            prog.append({"op": "alloc", "slot": i, "c": c, "reuse": rnd.random() < 0.8})
            occupied.add(i)
        elif x < 0.48:
            i = rnd.choice(sorted(occupied))
            if i >= 4 and rnd.random() < 0.7:
                i = rnd.choice(sorted(occupied))
            prog.append({"op": "free", "slot": i})
            occupied.discard(i)
        else:
            s = rnd.choice(sorted(occupied))
            rules = [i for i in occupied if i >= 4] or sorted(occupied)
            r = rnd.choice(rules) if rnd.random() < 0.9 else rnd.choice(sorted(occupied))
            inv = rnd.random() < 0.35
            if s in last and last[s][0] in occupied and rnd.random() < 0.6:
                r, inv = last[s]                          # repeat the last call made through this slot
            last[s] = (r, inv)
            prog.append({"op": "call", "s": s, "r": r, "inv": inv})
    return prog


def heap_nontrivial(steps):
    calls = [s for s in steps if s["real"]["op"] == "call"]
    ids = [s["real"]["id"] for s in steps if s["real"]["op"] == "alloc"]
    reused = len(ids) != len(set(ids))
    return len(calls) >= 2 and (reused or any(s["real"]["op"] == "free" for s in steps))


def run_heap(ctx, cases, tag):
    """cases: list of (cache_on, cache_max, prog)."""
    runs = [impl_heap_run(on, mx, prog) for on, mx, prog in cases]
    models = ctx.lean().ok([heap_requests(on, mx, st) for (on, mx, _), st in zip(cases, runs)], shards=8)
    nspec, pending = 0, []
    for (on, mx, prog), steps, model in zip(cases, runs, models):
        ids = [s["real"]["id"] for s in steps if s["real"]["op"] == "alloc"]
        ctx.count("a:alloc_reusing_an_identity", len(ids) - len(set(ids)))
        ctx.count("a:calls", sum(1 for s in steps if s["real"]["op"] == "call"))
        hits = 0
        prev = None
        for s in steps:
            if s["real"]["op"] == "call" and on and prev is not None and s["keys"] == prev:
                hits += 1
            prev = s["keys"]
        ctx.count("a:cache_hits", hits)
        ctx.count(f"a:cache_{'on' if on else 'off'}")
        ctx.case(["heap", on, mx, [s["real"] for s in steps]], heap_nontrivial(steps),
                 sample={"stream": "a:" + tag, "cache_on": on, "cache_max": mx, "history": [s["real"] for s in steps]}
                 if 3 <= len(steps) <= 7 and want_sample(ctx, "a:", 2) else None)
        d = heap_compare(steps, model)
        if d is None:
            continue
        kind, t, text = d
        if kind == "spec":
            nspec += 1
            if nspec > 2:
                continue

            def fails(cand):
                st = impl_heap_run(on, mx, cand)
                if not st:
                    return False
                m = ctx.lean().ok([heap_requests(on, mx, st)])[0]
                dd = heap_compare(st, m)
                return dd is not None and dd[0] == "spec"
            small = shrink_seq(prog, fails, budget=150)
            st = impl_heap_run(on, mx, small)
            m = ctx.lean().ok([heap_requests(on, mx, st)])[0]
            dd = heap_compare(st, m)
            aw = ctx.lean().ok([heap_requests(on, mx, st, pin=False)])[0]
            ctx.violation(
                "a cached rule application returned something else than the rule applied to the objects passed (stale or mis-keyed cache entry, e.g. the identity of a released substrate/rule was reused)",
                {"stream": "heap", "cache_on": on, "cache_max": mx, "prog": small},
                {"divergence": dd[2] if dd else text, "realised_history": [s["real"] for s in st],
                 "impl_outcomes": [s["out"] for s in st],
                 "model_of_pinned_tree_predicts_same_outcomes": [s["out"] for s in st] == [x["out"] for x in aw["steps"]],
                 "stream": tag})
        elif len(pending) < 2:
            pending.append((on, mx, prog, t, text))
    ctx.count("a:histories_with_a_wrong_call_result", nspec)
    if nspec == 0:
        # impl and model differ although every call returned f(contents): the model is no longer the code
        for on, mx, prog, t, text in pending:
            ctx.violation("correspondence a (heap histories on _RuleApplier vs Lean model of the repaired cache) broke; "
                          "every call still returned f(contents)",
                          {"stream": "heap", "cache_on": on, "cache_max": mx, "prog": prog},
                          {"first_divergence": text, "step": t, "stream": tag}, no_input=True)


# ====================================================================== stream b: BatchReactor.fit
SEM_DEFAULT = (True, False, "bt")          # (explicit_h, implicit_temp, strategy): BatchReactor's defaults
SEMS = [(True, False, "bt"), (True, False, "all"), (True, False, "comp"), (False, True, "bt")]
PRE_FILTERS = ["turbo", "sing", "nx"]


def case_sem(case):
    return tuple(case.get("sem") or SEM_DEFAULT)


def eff_rule_jobs(case):
    """worker processes `_apply_bulk` uses for the rules of one entry (1 = the serial loop)"""
    rj = max(1, int(case.get("rule_n_jobs", 1)))
    ej = max(1, int(case["n_jobs"]))
    if case.get("parallel_rules") and rj > 1 and (case.get("allow_nested") or ej == 1):
        return rj
    return 1


def uses_workers(case):
    return max(1, int(case["n_jobs"])) > 1 or eff_rule_jobs(case) > 1


class FitWorld:
    def __init__(self, rules_rsmi, subs):
        self.rules_rsmi = rules_rsmi
        self.subs = subs
        self._ref_rules = {}
        self._cells = {}
        self._alone = {}
        self._alone_rules = {}
        self._hits = {}
        self.codes = {}
        self.strings = []

    def code(self, s):
        if s not in self.codes:
            self.codes[s] = len(self.strings)
            self.strings.append(s)
        return self.codes[s]

    def ref_rule(self, t):
        from synkit.IO import rsmi_to_its
        if t not in self._ref_rules:
            self._ref_rules[t] = rsmi_to_its(self.rules_rsmi[t], core=True)
        return self._ref_rules[t]

    def cell(self, s, t, inv, sem=SEM_DEFAULT):
        """SynReactor applied alone: one substrate graph, one rule, one direction."""
        sem = tuple(sem)
        k = (s, t, inv) if sem == SEM_DEFAULT else (s, t, inv, sem)
        if k not in self._cells:
            from synkit.IO import smiles_to_graph
            from synkit.Synthesis.Reactor.syn_reactor import SynReactor
            g = smiles_to_graph(self.subs[s], drop_non_aam=False, use_index_as_atom_map=False)
            try:
                out = list(SynReactor(substrate=g, template=self.ref_rule(t), invert=inv, strategy=sem[2],
                                      explicit_h=sem[0], implicit_temp=sem[1]).smarts_list)
            except Exception:
                out = []
            self._cells[k] = [self.code(x) for x in out]
        return self._cells[k]

    def hits(self, inv, sem=SEM_DEFAULT):
        """template -> substrates on which it alone gives products (direction, semantic options)"""
        k = (inv, tuple(sem))
        if k not in self._hits:
            h = {}
            for t in range(len(self.rules_rsmi)):
                ss = [s for s in range(len(self.subs)) if self.cell(s, t, inv, sem)]
                if ss:
                    h[t] = ss
            self._hits[k] = h
        return self._hits[k]

    def alone(self, s, rules, inv, dedupe, sem=SEM_DEFAULT, pre_filter=None):
        """The property's own right-hand side, by the implementation: a one-entry batch holding only this
        substrate, a fresh reactor, one process, no cache; rule graphs parsed once for this reference only
        (never handed to a reactor under test).  -> list of strings | {'error': name}"""
        sem = tuple(sem)
        k = (s, tuple(rules), inv, dedupe, sem, pre_filter)
        if k not in self._alone:
            from synkit.IO import rsmi_to_its
            from synkit.Synthesis.Reactor.batch_reactor import BatchReactor
            try:
                for t in rules:
                    if t not in self._alone_rules:
                        self._alone_rules[t] = rsmi_to_its(self.rules_rsmi[t], core=True)
                br = BatchReactor([self.subs[s]], cache_enabled=False, dedupe=dedupe, explicit_h=sem[0], implicit_temp=sem[1],
                                  strategy=sem[2], pre_filter_engine=pre_filter, enable_logging=False)
                o = br.fit([self._alone_rules[t] for t in rules], invert=inv)[0]
                self._alone[k] = list(o["syn_bw" if inv else "syn_fw"])
            except Exception as e:  # noqa
                self._alone[k] = {"error": type(e).__name__}
        return self._alone[k]


def fit_impl(world, case):
    """-> list (one per fit of case['seq']) of per-entry {'out': [...strings], 'count': n, 'key': k} or {'error': name}."""
    from synkit.IO import rsmi_to_its
    from synkit.Synthesis.Reactor.batch_reactor import BatchReactor
    data = [world.subs[i] for i in case["subs"]]
    if case.get("as_dict"):
        data = [{"smi": x, "n": j} for j, x in enumerate(data)]
        if case.get("entries_shared"):         # a repeated substrate is the SAME dict object at every position it occupies
            one = {}
            data = [one.setdefault(i, {"smi": world.subs[i], "n": 0}) for i in case["subs"]]
    kw = {}
    for k in ("rule_n_jobs", "parallel_rules", "allow_nested"):     # absent -> the constructor's defaults
        if k in case:
            kw[k] = case[k]
    if case.get("sem"):
        kw.update(explicit_h=case["sem"][0], implicit_temp=case["sem"][1], strategy=case["sem"][2])
    if case.get("pre_filter"):
        kw["pre_filter_engine"] = case["pre_filter"]
    workers = uses_workers(case)
    shared = {}                                # rules_as == "graph_shared": one graph object per template for the whole case
    lists = {}                                 # reuse_rule_list: one list object per distinct rule list for the whole case
    res = []
    try:
        br = BatchReactor(data, host_key="smi" if case.get("as_dict") else None, cache_enabled=case["cache_on"],
                          cache_maxsize=case["cache_max"], dedupe=case["dedupe"], entry_n_jobs=case["n_jobs"],
                          enable_logging=False, **kw)
    except Exception as e:  # noqa
        return [{"error": "constructor:" + type(e).__name__} for _ in case["seq"]]
    for f in case["seq"]:
        rules = [world.rules_rsmi[t] for t in f["rules"]]
        if case["rules_as"] == "graph":
            rules = [rsmi_to_its(r, core=True) for r in rules]
        elif case["rules_as"] == "graph_shared":
            for t in f["rules"]:
                if t not in shared:
                    shared[t] = rsmi_to_its(world.rules_rsmi[t], core=True)
            rules = [shared[t] for t in f["rules"]]
        elif case["rules_as"] == "mixed":
            rules = [rsmi_to_its(r, core=True) if j % 2 else r for j, r in enumerate(rules)]
        elif case["rules_as"] == "mixed_shared":   # the shared graph object at even positions, the rule's string at odd ones
            for t in f["rules"]:
                if t not in shared:
                    shared[t] = rsmi_to_its(world.rules_rsmi[t], core=True)
            rules = [world.rules_rsmi[t] if j % 2 else shared[t] for j, t in enumerate(f["rules"])]
        if case.get("reuse_rule_list") and case["rules_as"] in ("str", "graph_shared", "mixed_shared"):
            # the caller keeps ONE list object per distinct rule list and hands it to every fit that uses it
            rules = lists.setdefault(tuple(f["rules"]), rules)
        # `fit(rules: Iterable)`: one-shot iterables and a tuple are documented inputs as much as a list
        form = case.get("rules_iter")
        if form == "gen":
            rules = (r for r in rules)
        elif form == "iter":
            rules = iter(rules)
        elif form == "map":
            rules = map(lambda r: r, rules)
        elif form == "tuple":
            rules = tuple(rules)
        try:
            if workers:
                with quiet_stderr():
                    out = br.fit(rules, invert=f["inv"])
            else:
                out = br.fit(rules, invert=f["inv"])
        except BaseException as e:  # StopIteration is not an Exception subclass issue, but be safe
            if isinstance(e, (KeyboardInterrupt, SystemExit)):
                raise
            res.append({"error": type(e).__name__})
            continue
        key = "syn_bw" if f["inv"] else "syn_fw"
        res.append([{"out": list(o.get(key, [])), "count": o.get("count"), "has_key": key in o, "n_keys": len(o)} for o in out])
    return res


def fit_model_requests(world, case):
    reqs = []
    for f in case["seq"]:
        table = []
        for s in sorted(set(case["subs"])):
            for t in sorted(set(f["rules"])):
                table.append([s, t, f["inv"], world.cell(s, t, f["inv"], case_sem(case))])
        reqs.append({"cmd": "batch.fit", "cache_on": case["cache_on"], "cache_max": case["cache_max"], "pin": True,
                     "dedupe": case["dedupe"], "alloc": "lowest", "inv": f["inv"], "batch": case["subs"],
                     "rules": f["rules"], "table": table})
    return reqs


def fit_compare(world, case, impl, models, ctx=None):
    """-> None or (text, detail)"""
    for fi, (f, got, mod) in enumerate(zip(case["seq"], impl, models)):
        if isinstance(got, dict):
            return f"fit #{fi} raised {got['error']}", {"fit": fi}
        if "ok" not in mod["fit"]:
            return f"model fit #{fi} errs {mod['fit']}", {"fit": fi}
        want = mod["fit"]["ok"]
        if mod["single"] != want and ctx is not None:
            ctx.count("b:model_fit_differs_from_model_single")  # cannot happen (theorem)
        if len(got) != len(want):
            return f"fit #{fi} returned {len(got)} entries for {len(want)} substrates", {"fit": fi}
        for ei, (g, w) in enumerate(zip(got, want)):
            wstr = [world.strings[c] for c in w]
            sub = world.subs[case["subs"][ei]]
            if not g["has_key"] or g["n_keys"] != 2:
                return f"fit #{fi} entry {ei}: result dict keys unexpected", {"fit": fi, "entry": ei}
            if g["count"] != len(g["out"]):
                return f"fit #{fi} entry {ei}: count {g['count']} != len(out) {len(g['out'])}", {"fit": fi, "entry": ei}
            if g["out"] == wstr:
                if ctx is not None:
                    ctx.count("b:entries_equal_as_lists")
                continue
            if sorted(g["out"]) == sorted(wstr):
                if ctx is not None:
                    ctx.count("b:entries_equal_as_multisets_only")
                continue
            sg, sw = sorted(std_rsmi(x) for x in g["out"]), sorted(std_rsmi(x) for x in wstr)
            if sg == sw:   # multisets, also with dedupe on: the model de-duplicates the raw strings exactly as the code does
                if ctx is not None:
                    ctx.count("b:entries_equal_after_standardisation_only")
                continue
            return (f"fit #{fi} entry {ei} ({sub}): batch result differs from the rules applied to this substrate alone",
                    {"fit": fi, "entry": ei, "substrate": sub, "batch": sg[:12], "alone": sw[:12],
                     "only_in_batch": sorted(set(sg) - set(sw))[:6], "only_alone": sorted(set(sw) - set(sg))[:6]})
    return None


def same_results(got, want):
    """-> 'list' | 'multiset' | 'standardised' | None.  The gate is the multiset of standardised reaction
    SMILES (what the property fixes); equality as lists / as raw multisets is only counted."""
    if got == want:
        return "list"
    if sorted(got) == sorted(want):
        return "multiset"
    if sorted(std_rsmi(x) for x in got) == sorted(std_rsmi(x) for x in want):
        return "standardised"
    return None


def alone_compare(world, case, impl, ctx=None):
    """Every entry of every fit against `world.alone`: the same rule list applied by a fresh one-entry,
    one-process, cache-less reactor with the same semantic options.  Independent of the Lean model, of the
    batch, of earlier fits and of every operational option.  -> None or (text, detail)"""
    sem, pf = case_sem(case), case.get("pre_filter")
    for fi, (f, got) in enumerate(zip(case["seq"], impl)):
        if isinstance(got, dict):
            return f"fit #{fi} raised {got['error']}", {"fit": fi}
        if len(got) != len(case["subs"]):
            return f"fit #{fi} returned {len(got)} entries for {len(case['subs'])} substrates", {"fit": fi}
        for ei, g in enumerate(got):
            si = case["subs"][ei]
            want = world.alone(si, f["rules"], f["inv"], case["dedupe"], sem, pf)
            if isinstance(want, dict):
                return (f"fit #{fi} entry {ei}: the batch returned a result, the substrate alone raises {want['error']}",
                        {"fit": fi, "entry": ei, "substrate": world.subs[si]})
            if not g["has_key"] or g["n_keys"] != 2:
                return f"fit #{fi} entry {ei}: result dict keys unexpected", {"fit": fi, "entry": ei}
            if g["count"] != len(g["out"]):
                return f"fit #{fi} entry {ei}: count {g['count']} != len(out) {len(g['out'])}", {"fit": fi, "entry": ei}
            how = same_results(g["out"], want)
            if how is not None:
                if ctx is not None:
                    ctx.count("b':entries_equal_to_alone_as_" + how)
                continue
            sg, sw = sorted(std_rsmi(x) for x in g["out"]), sorted(std_rsmi(x) for x in want)
            return (f"fit #{fi} entry {ei} ({world.subs[si]}): batch result differs from a one-entry, one-process, cache-less "
                    f"BatchReactor holding only this substrate (same rules, same direction)",
                    {"fit": fi, "entry": ei, "substrate": world.subs[si], "n_batch": len(sg), "n_alone": len(sw),
                     "batch": sg[:12], "alone": sw[:12],
                     "only_in_batch": sorted(set(sg) - set(sw))[:6], "only_alone": sorted(set(sw) - set(sg))[:6]})
    return None


def fit_check(world, case, impl, models, ctx=None):
    """All gates of one fit case.  `models` is None when the case has a pre-filter (the Lean fit model takes
    the per-rule table of SynReactor alone, which does not know rule pre-filtering)."""
    d = fit_compare(world, case, impl, models, ctx) if models is not None else None
    if d is None and case.get("alone"):
        d = alone_compare(world, case, impl, ctx)
    return d


def fit_eval(ctx, world, case):
    impl = fit_impl(world, case)
    models = None if case.get("pre_filter") else ctx.lean().ok(fit_model_requests(world, case))
    return fit_check(world, case, impl, models)


def productive(world, case):
    """number of distinct non-empty per-entry reference results of the first fit"""
    f = case["seq"][0]
    outs = set()
    for s in case["subs"]:
        o = tuple(sorted(c for t in f["rules"] for c in world.cell(s, t, f["inv"], case_sem(case))))
        if o:
            outs.add(o)
    return len(outs)


def gen_fit_case_productive(rnd, world, look_pairs, need, **kw):
    """resample (bounded) until >= `need` entries have pairwise different non-empty results"""
    best = None
    for _ in range(12):
        c = gen_fit_case(rnd, len(world.subs), len(world.rules_rsmi), look_pairs, **kw)
        p = productive(world, c)
        if best is None or p > best[0]:
            best = (p, c)
        if p >= need:
            break
    return best[1]


def rules_iter_form(subs, seq):
    """How the rule list of a fit case is handed over (list / tuple / one-shot iterable).  A fixed function of the case
    (no draw from the PRNG: the populations of the older streams stay what they were for every seed)."""
    h = (sum(subs) + 3 * sum(seq[0]["rules"]) + len(subs)) % 7
    return [None, "gen", None, "iter", None, "tuple", "map"][h]


def gen_fit_case(rnd, nS, nT, look_pairs, n_jobs=1, max_batch=7, min_batch=1):
    n = rnd.randint(min_batch, max_batch)
    subs = []
    while len(subs) < n:
        x = rnd.random()
        if x < 0.25 and subs:
            subs.append(rnd.choice(subs))                  # repeated substrate
        elif x < 0.55:
            subs.extend(rnd.choice(look_pairs))            # look-alike pair: same composition
        else:
            subs.append(rnd.randrange(nS))
    subs = subs[:max(n, 1)]
    rnd.shuffle(subs)
    seq = []
    for _ in range(1 if rnd.random() < 0.6 else 2):
        k = rnd.randint(1, 4)
        rules = [rnd.choices(range(nT), weights=TEMPLATE_WEIGHTS)[0] for _ in range(k)]
        if rnd.random() < 0.3:
            rules.append(rnd.choice(rules))                # repeated rule -> duplicates for dedupe
        seq.append({"rules": rules, "inv": rnd.random() < 0.35})
    return {"stream": "fit", "subs": subs, "seq": seq, "cache_on": rnd.random() < 0.8,
            "cache_max": rnd.choice([1, 1, 2, 2, 3, BIG]), "dedupe": rnd.random() < 0.6,
            "rules_as": rnd.choice(["str", "graph"]), "n_jobs": n_jobs, "as_dict": rnd.random() < 0.2,
            "rules_iter": rules_iter_form(subs, seq)}


def ref_entry(world, case, f, s, rules=None):
    """reference result (codes, sorted) of one entry: cells concatenated in rule order, de-duplicated if the case says so"""
    flat = [c for t in (f["rules"] if rules is None else rules) for c in world.cell(s, t, f["inv"], case_sem(case))]
    if case["dedupe"]:
        flat = list(dict.fromkeys(flat))
    return sorted(flat)


def rules_that_matter(world, case):
    """(#positions of the first fit's rule list whose removal changes the reference result of some entry, #positions)"""
    f = case["seq"][0]
    full = {s: ref_entry(world, case, f, s) for s in set(case["subs"])}
    n = 0
    for j in range(len(f["rules"])):
        rest = f["rules"][:j] + f["rules"][j + 1:]
        if any(ref_entry(world, case, f, s, rest) != full[s] for s in full):
            n += 1
    return n, len(f["rules"])


def run_fit(ctx, world, cases, tag):
    # phase 1: the implementation, case by case, in the order given (worker pools are reused between neighbours)
    impls = [fit_impl(world, case) for case in cases]
    # phase 2: the Lean fit model, every fit from the empty state (pure: independent of history), one driver call
    reqs, where = [], []
    for ci, case in enumerate(cases):
        if case.get("pre_filter"):
            continue
        rr = fit_model_requests(world, case)
        where.append((ci, len(reqs), len(rr)))
        reqs.extend(rr)
    ans = ctx.lean().ok(reqs, shards=8) if reqs else []
    models_of = {ci: ans[a:a + n] for ci, a, n in where}
    # phase 3: gates
    for ci, (case, impl) in enumerate(zip(cases, impls)):
        models = models_of.get(ci)
        same = case.get("group") == "same-object"
        opt = bool(case.get("alone")) and not same
        pre = "b'':" if same else "b':" if opt else "b:"
        if models is not None:
            nonempty = sum(1 for m in models if "ok" in m["fit"] for e in m["fit"]["ok"] if e)
        else:
            nonempty = sum(1 for got in impl if isinstance(got, list) for g in got if g["out"])
        ctx.count(f"{pre}n_jobs={case['n_jobs']}")
        ctx.count(f"{pre}cache_{'on' if case['cache_on'] else 'off'}")
        ctx.count(f"{pre}cache_max={case['cache_max'] if case['cache_max'] < BIG else 'big'}")
        ctx.count(f"{pre}dedupe_{'on' if case['dedupe'] else 'off'}")
        ctx.count(f"{pre}fits", len(case["seq"]))
        ctx.count(f"{pre}rules_handed_over_as={case.get('rules_iter') or 'list'}")
        ctx.count(f"{pre}entries", len(case["subs"]) * len(case["seq"]))
        ctx.count(f"{pre}entries_with_products", nonempty)
        if len(set(case["subs"])) < len(case["subs"]):
            ctx.count(f"{pre}batches_with_repeated_substrate")
        nontrivial = nonempty >= 1 and len(case["subs"]) >= 2
        if opt:
            ej = eff_rule_jobs(case)
            k = len(case["seq"][0]["rules"])
            ctx.count(f"b':group={case.get('group', '?')}")
            ctx.count(f"b':effective_rule_workers={ej}")
            ctx.count(f"b':rule_n_jobs={case.get('rule_n_jobs', 'default')}")
            ctx.count(f"b':parallel_rules={case.get('parallel_rules', 'default')},allow_nested={case.get('allow_nested', 'default')}")
            ctx.count(f"b':first_rule_list_length={k}")
            ctx.count(f"b':sem={'/'.join(map(str, case_sem(case)))}")
            ctx.count(f"b':pre_filter={case.get('pre_filter')}")
            ctx.count(f"b':rules_as={case['rules_as']}")
            if ej > 1 and k > ej and k % ej:
                ctx.count("b':rule_list_longer_than_and_not_a_multiple_of_the_rule_workers")
            m, n = rules_that_matter(world, case)
            ctx.count("b':rule_positions", n)
            ctx.count("b':rule_positions_that_matter_for_some_entry", m)
            nontrivial = n >= 1 and m == n
        if same:
            nontrivial = same_object_counts(ctx, world, case)
        ctx.case(["fit", case], nontrivial,
                 sample={"stream": pre + tag, **{k: case[k] for k in ("subs", "seq", "cache_on", "cache_max", "dedupe", "n_jobs")},
                         **{k: case[k] for k in ("rule_n_jobs", "parallel_rules", "allow_nested", "sem", "pre_filter", "rules_as",
                                                 "entries_shared", "reuse_rule_list") if k in case and (same or k not in ("rules_as",))},
                         "substrates": [world.subs[i] for i in case["subs"]]}
                 if len(case["subs"]) <= 3 and want_sample(ctx, pre, 2) else None)
        d = fit_check(world, case, impl, models, ctx)
        if d is None:
            continue

        def fails(c):
            if not c["subs"] or any(not f["rules"] for f in c["seq"]):
                return False
            return fit_eval(ctx, world, c) is not None
        small = dict(case)
        b_subs, b_rules = (25, 15) if not uses_workers(case) else (8, 12)
        small["subs"] = shrink_seq(case["subs"], lambda ss: fails({**small, "subs": ss}), budget=b_subs)
        for i in range(len(small["seq"])):
            def with_rules(rr, i=i):
                seq = [dict(f) for f in small["seq"]]
                seq[i]["rules"] = rr
                return {**small, "seq": seq}
            rr = shrink_seq(small["seq"][i]["rules"], lambda r: fails(with_rules(r)), budget=b_rules)
            small = with_rules(rr)
        d2 = fit_eval(ctx, world, small) or d
        ctx.violation("BatchReactor.fit result for an entry differs from applying the rules to that substrate alone",
                      {**small, "substrates": [world.subs[i] for i in small["subs"]],
                       "rules_rsmi": [[world.rules_rsmi[t] for t in f["rules"]] for f in small["seq"]]},
                      {"what": d2[0], **d2[1], "stream": tag,
                       "options": {k: small.get(k) for k in ("n_jobs", "rule_n_jobs", "parallel_rules", "allow_nested", "cache_on",
                                                             "cache_max", "dedupe", "rules_as", "sem", "pre_filter", "as_dict",
                                                             "entries_shared", "reuse_rule_list", "rules_iter")},
                       "effective_rule_workers": eff_rule_jobs(small),
                       "rule_list_lengths": [len(f["rules"]) for f in small["seq"]]})
        if nviol(ctx) >= 4:
            return


# ---------------------------------------------------------------------- stream b-err: entries / rules that are no substrate / no rule
BAD_SMILES = ["C(C", "xyz", "CC.", "[Xx]", "C1CC", "CC>>CC", "c1ccc1("]
NON_STR = [5, None, 1.5, ["CCO"], True]


def entry_value(world, e, host_key):
    """the Python object handed to BatchReactor for one entry spec (JSON-able spec -> object)"""
    k = e["kind"]
    if k == "ok":
        return world.subs[e["s"]]
    if k == "ok_dict":
        return {host_key: world.subs[e["s"]], "n": 0}
    if k == "bad_smiles":
        return e["text"]
    if k == "bad_smiles_dict":
        return {host_key: e["text"]}
    if k == "non_str":
        return e["value"]
    if k == "dict_missing_key":
        return {"not_the_key": world.subs[e["s"]]}
    if k == "dict_non_str":
        return {host_key: e["value"]}
    raise AssertionError(k)


def entry_is_substrate(world, e, host_key):
    """Independent of synkit: does the entry denote a molecule at all?  (type, key, RDKit parse)"""
    from rdkit import Chem
    k = e["kind"]
    if k == "ok":
        return True
    if k == "ok_dict":
        return host_key is not None
    if k in ("bad_smiles", "bad_smiles_dict"):
        return (k == "bad_smiles" or host_key is not None) and Chem.MolFromSmiles(e["text"]) is not None
    return False


def gen_fit_err_case(rnd, world, n_jobs=1):
    sem = SEM_DEFAULT
    inv = rnd.random() < 0.3
    if not world.hits(inv, sem):
        inv = not inv
    rl = gen_rule_list(rnd, world, rnd.randint(1, 3), inv, sem)
    H = world.hits(inv, sem)
    host_key = rnd.choice([None, "smi", "smi"])
    n = rnd.randint(1, 4)
    entries = []
    for _ in range(n):
        s = rnd.choice(H[rnd.choice(rl)]) if rnd.random() < 0.7 else rnd.randrange(len(world.subs))
        entries.append({"kind": "ok_dict" if (host_key and rnd.random() < 0.5) else "ok", "s": s})
    what = rnd.choices(["entry", "rule", "rule_then_good"], weights=[6, 2, 2])[0]
    case = {"stream": "fit_err", "host_key": host_key, "entries": entries, "rules": rl, "inv": inv, "bad_rule": None,
            "then_good": False, "n_jobs": n_jobs, "cache_on": rnd.random() < 0.7, "cache_max": rnd.choice([1, 2, BIG]),
            "dedupe": rnd.random() < 0.5, "rule_opts": rnd.choice([{}, {}, {"parallel_rules": True, "rule_n_jobs": 1}])}
    if what == "entry":
        for _ in range(1 if rnd.random() < 0.7 else 2):
            kind = rnd.choice(["bad_smiles", "bad_smiles", "non_str", "dict_missing_key", "dict_non_str", "ok_dict", "bad_smiles_dict"])
            if host_key is None and kind in ("dict_missing_key", "dict_non_str", "bad_smiles_dict"):
                kind = "ok_dict"                                     # a dict entry without a host_key: no substrate either
            e = {"kind": kind}
            if kind in ("bad_smiles", "bad_smiles_dict"):
                e["text"] = rnd.choice(BAD_SMILES)
            elif kind in ("non_str", "dict_non_str"):
                e["value"] = rnd.choice(NON_STR)
            else:
                e["s"] = rnd.randrange(len(world.subs))
            pos = rnd.randint(0, len(entries))
            if len(entries) >= 2 and rnd.random() < 0.4:
                entries[min(pos, len(entries) - 1)] = e               # replaces a good entry
            else:
                entries.insert(pos, e)                                # first / middle / last
    else:
        case["bad_rule"] = {"pos": rnd.randint(0, len(rl)), "value": rnd.choice([5, None, 2.5, ["x"], "C(C>>CC", "CC", ""])}
        case["then_good"] = what == "rule_then_good"
    return case


def fit_err_eval(world, case):
    """-> dict: outcome of the batch, outcome of every entry alone (one-entry, one-process, cache-less reactor), and of
    the good fit that follows a failed one on the same reactor"""
    from synkit.Synthesis.Reactor.batch_reactor import BatchReactor
    hk = case["host_key"]
    data = [entry_value(world, e, hk) for e in case["entries"]]
    rules = [world.rules_rsmi[t] for t in case["rules"]]
    good = list(rules)
    if case["bad_rule"] is not None:
        rules.insert(case["bad_rule"]["pos"], case["bad_rule"]["value"])
    key = "syn_bw" if case["inv"] else "syn_fw"

    def shape(out):
        return [{"out": list(o.get(key, [])), "count": o.get("count")} for o in out]
    res = {}
    br = BatchReactor(list(data), hk, cache_enabled=case["cache_on"], cache_maxsize=case["cache_max"], dedupe=case["dedupe"],
                      entry_n_jobs=case["n_jobs"], enable_logging=False, **case.get("rule_opts", {}))
    with quiet_stderr():
        res["batch"] = outcome(lambda: shape(br.fit(list(rules), invert=case["inv"])))
        if case["then_good"]:
            res["good_after_error"] = outcome(lambda: shape(br.fit(list(good), invert=case["inv"])))
    # the members alone: every ill-formed entry (and, for an ill-formed rule list, the first entry); the well-formed entries of
    # the other streams have their own references, here `None` = not evaluated
    valid = [entry_is_substrate(world, e, hk) for e in case["entries"]]
    res["alone"] = []
    for j, x in enumerate(data):
        if valid[j] and not (case["bad_rule"] is not None and j == 0):
            res["alone"].append(None)
            continue
        one = BatchReactor([x], hk, cache_enabled=False, dedupe=case["dedupe"], enable_logging=False)
        res["alone"].append(outcome(lambda: shape(one.fit(list(rules), invert=case["inv"]))))
    return res


def fit_err_check(world, case, res):
    """-> None | text"""
    hk = case["host_key"]
    valid = [entry_is_substrate(world, e, hk) for e in case["entries"]]
    must_fail = case["bad_rule"] is not None or not all(valid)
    b = res["batch"]
    if must_fail:
        if "ok" in b:
            why = "a rule of the list is no rule" if case["bad_rule"] is not None else \
                f"entry {valid.index(False)} is no substrate (applying the rules to it alone is an error)"
            return f"fit returned results although {why}"
        alone_err = [a["error"] for a in res["alone"] if a is not None and "error" in a]
        if not alone_err:
            return f"the batch raised {b['error']} although its ill-formed members alone (same rules) return a result"
        if b["error"] not in alone_err:
            return f"the batch raised {b['error']}; the ill-formed members alone raise {sorted(set(alone_err))}"
    elif "error" in b:
        return f"the batch raised {b['error']} although every entry is a substrate and every rule a rule"
    if case["then_good"]:
        g = res.get("good_after_error", {})
        if "ok" not in g:
            return f"the fit with the good rules after the failed fit raised {g.get('error')}"
        f = {"rules": case["rules"], "inv": case["inv"]}
        pseudo = {"dedupe": case["dedupe"]}
        if len(g["ok"]) != len(case["entries"]):
            return "the fit after the failed fit returned a different number of entries"
        for ei, (e, o) in enumerate(zip(case["entries"], g["ok"])):
            flat = [c for t in f["rules"] for c in world.cell(e["s"], t, f["inv"])]
            if pseudo["dedupe"]:
                flat = list(dict.fromkeys(flat))
            if o["count"] != len(o["out"]) or same_results(o["out"], [world.strings[c] for c in flat]) is None:
                return f"after a failed fit, entry {ei} of the next fit differs from the rules applied to that substrate alone (SynReactor)"
    return None


def run_fit_errors(ctx, world, cases, tag):
    for case in cases:
        res = fit_err_eval(world, case)
        bad_kinds = sorted({e["kind"] for e in case["entries"] if not entry_is_substrate(world, e, case["host_key"])})
        ctx.count(f"b-err:n_jobs={case['n_jobs']}")
        ctx.count("b-err:what=" + ("bad_rule_then_good_fit" if case["then_good"] else "bad_rule" if case["bad_rule"] is not None
                                   else "bad_entry" if bad_kinds else "all_well_formed"))
        for k in bad_kinds:
            ctx.count(f"b-err:entry_kind={k}" + (",no_host_key" if case["host_key"] is None and "dict" in k else ""))
        if case["bad_rule"] is not None:
            ctx.count(f"b-err:bad_rule_type={type(case['bad_rule']['value']).__name__}")
        ctx.count("b-err:batch_outcome=" + ("value" if "ok" in res["batch"] else res["batch"]["error"]))
        pos = [i for i, e in enumerate(case["entries"]) if not entry_is_substrate(world, e, case["host_key"])]
        if pos:
            ctx.count("b-err:first_bad_entry_" + ("first" if pos[0] == 0 else "last" if pos[0] == len(case["entries"]) - 1 else "middle"))
        ctx.case(["fit_err", case], len(case["entries"]) >= 2 or case["bad_rule"] is not None,
                 sample={**case, "stream": "b-err:" + tag, "batch_outcome": res["batch"] if "error" in res["batch"] else "value"}
                 if want_sample(ctx, "b-err:", 1) else None)
        d = fit_err_check(world, case, res)
        if d is None:
            continue
        small = case
        if case["bad_rule"] is None and len(case["entries"]) > 1:          # minimise: drop entries while it still fails
            cur = list(case["entries"])
            for i in range(len(cur) - 1, -1, -1):
                cand = {**case, "entries": cur[:i] + cur[i + 1:]}
                if cand["entries"] and fit_err_check(world, cand, fit_err_eval(world, cand)) is not None:
                    cur = cand["entries"]
            small = {**case, "entries": cur}
        r2 = fit_err_eval(world, small)
        ctx.violation("BatchReactor.fit on a batch / rule list with an ill-formed member does not behave as on the members alone",
                      {**small, "data": [repr(entry_value(world, e, small["host_key"])) for e in small["entries"]]},
                      {"what": fit_err_check(world, small, r2) or d, "batch": r2["batch"], "alone": r2["alone"],
                       "good_after_error": r2.get("good_after_error"), "stream": tag})
        if nviol(ctx) >= 4:
            return


# ---------------------------------------------------------------------- stream b': the option space of BatchReactor
def gen_rule_list(rnd, world, k, inv, sem, within=None):
    """k templates that give products (direction, options) - on some corpus substrate, or on one of `within`;
    distinct while the supply lasts, then repeats; random order, so every template can be the trailing one"""
    H = world.hits(inv, sem)
    cands = sorted(t for t in H if within is None or any(s in within for s in H[t]))
    if not cands:
        return []
    rl = rnd.sample(cands, k) if k <= len(cands) else cands + rnd.choices(cands, k=k - len(cands))
    rnd.shuffle(rl)
    return rl


def gen_opt_case(rnd, world, look_pairs, k, opts, full_sems=False):
    """One batch built so that EVERY rule of the (first) rule list matters for some entry: for each template
    a substrate it converts is in the batch.  `opts`: the operational options of the reactor."""
    sem = rnd.choices(SEMS, weights=[6, 2, 2, 2] if full_sems else [6, 0, 3, 2])[0]
    inv = rnd.random() < 0.35
    if not world.hits(inv, sem):
        inv = not inv
    rl = gen_rule_list(rnd, world, k, inv, sem)
    H = world.hits(inv, sem)
    subs = []
    for t in dict.fromkeys(rl):
        if any(s in subs for s in H[t]) and rnd.random() < 0.4:
            continue
        subs.append(rnd.choice(H[t]))
    x = rnd.random()
    if x < 0.25:
        subs.append(rnd.choice(subs))                       # repeated substrate
    elif x < 0.45:
        subs.extend(rnd.choice(look_pairs))                 # look-alike pair: same composition
    elif x < 0.55:
        subs.append(rnd.randrange(len(world.subs)))         # most likely inert
    rnd.shuffle(subs)
    seq = [{"rules": rl, "inv": inv}]
    y = rnd.random()
    for _ in range(0 if y < 0.45 else (1 if y < 0.85 else 2)):
        how = rnd.choice(["perm", "rot", "drop_last", "same", "flip", "fresh", "fresh"])
        r2, i2 = list(seq[-1]["rules"]), seq[-1]["inv"]
        if how == "perm":
            rnd.shuffle(r2)
        elif how == "rot":
            r2 = r2[1:] + r2[:1]
        elif how == "drop_last" and len(r2) > 1:
            r2 = r2[:-1]
        elif how == "flip":
            i2 = not i2
        elif how == "fresh":
            i2 = rnd.random() < 0.35
            r2 = gen_rule_list(rnd, world, rnd.randint(1, 7), i2, sem, within=set(subs)) or r2
        seq.append({"rules": r2, "inv": i2})
    case = {"stream": "fit", "alone": True, "subs": subs, "seq": seq,
            "cache_on": rnd.random() < 0.7, "cache_max": rnd.choice([1, 2, 3, BIG, BIG]), "dedupe": rnd.random() < 0.5,
            "rules_as": rnd.choice(["str", "graph", "graph_shared", "graph_shared", "mixed"]),
            "as_dict": rnd.random() < 0.15, "sem": list(sem), "rules_iter": rules_iter_form(subs, seq)}
    if rnd.random() < 0.2:
        case["pre_filter"] = rnd.choice(PRE_FILTERS)
    case.update(opts)
    return case


def gen_opt_cases(rnd, world, look_pairs, quick):
    """The constructor's operational options: entry_n_jobs x (parallel_rules, rule_n_jobs, allow_nested) x cache x dedupe,
    crossed with rule-list lengths 1..7.  Ordered so that neighbouring cases use the same worker pool."""
    cases = []
    # G1  rule-level workers only: every (length, workers) pair
    for rj in (2, 3, 4):
        for k in range(1, 8):
            for _ in range(2 if quick else 8):
                cases.append(gen_opt_case(rnd, world, look_pairs, k, {
                    "group": "rule-workers", "n_jobs": rnd.choice([1, 1, 1, 0]), "parallel_rules": True, "rule_n_jobs": rj,
                    "allow_nested": rnd.random() < 0.5}, not quick))
    # G2  nested: entry-level workers that start rule-level workers
    for ej, rj in ([(2, 2), (2, 3)] if quick else [(2, 2), (2, 3), (3, 2), (3, 3), (2, 4)]):
        for _ in range(2 if quick else 4):
            cases.append(gen_opt_case(rnd, world, look_pairs, rnd.randint(rj + 1, 7), {
                "group": "nested", "n_jobs": ej, "parallel_rules": True, "rule_n_jobs": rj, "allow_nested": True}, not quick))
    # G3  entry-level workers with the rule-level request switched off by one of the flags
    for ej in ((2,) if quick else (2, 3, 4)):
        for _ in range(3 if quick else 6):
            flags = rnd.choice([{"parallel_rules": True, "rule_n_jobs": rnd.choice([2, 3]), "allow_nested": False},
                                {"parallel_rules": False, "rule_n_jobs": rnd.choice([2, 3]), "allow_nested": True},
                                {"parallel_rules": True, "rule_n_jobs": 1, "allow_nested": True}])
            cases.append(gen_opt_case(rnd, world, look_pairs, rnd.randint(1, 7), {"group": "entry-workers", "n_jobs": ej, **flags}, not quick))
    # G4  one process whatever the flags say (parallel_rules off, or a worker count that max(1, .) turns into 1)
    for _ in range(50 if quick else 700):
        flags = rnd.choice([{"parallel_rules": False, "rule_n_jobs": rnd.choice([2, 3, 4, 8])},
                            {"parallel_rules": False, "rule_n_jobs": rnd.choice([2, 4]), "allow_nested": True},
                            {"parallel_rules": True, "rule_n_jobs": rnd.choice([1, 0, -1])},
                            {"parallel_rules": True, "rule_n_jobs": 1, "allow_nested": True},
                            {}])
        cases.append(gen_opt_case(rnd, world, look_pairs, rnd.randint(1, 7), {"group": "one-process", "n_jobs": rnd.choice([1, 1, 0, -1]), **flags}, not quick))
    return cases


# ---------------------------------------------------------------------- stream b'': ONE object at several positions of an input list
# The rule-application cache is keyed by object identity and substrate graphs are made per entry and per fit: inside `fit`
# the cache can only ever HIT when the caller's rule list holds the same rule graph object more than once.  The streams above
# repeat templates (fresh graph per position, or distinct templates sharing objects between fits) but hardly ever put one
# OBJECT twice into one list.  Here every rule list does, on batches in which the repeated rule (and its neighbours in the
# list) give products, so that whatever a hit hands back - and whatever is done to the list it hands back - shows in the
# entry's result.  The reference is as everywhere: per entry, the per-rule SynReactor table through the Lean fit model.
SAME_PATTERNS = ["aa", "aaa", "aba", "abab", "abba", "aab", "abb", "baa", "abca", "abcabc", "abac", "aabb", "abcba", "abaa", "aaaa"]
SAME_FOLLOW = ["same", "same", "perm", "rot", "flip", "doubled", "drop_last", "drop_first"]


def co_hits(world, inv, sem):
    """substrate -> sorted templates that alone give products on it (direction, semantic options)"""
    T = {}
    for t, ss in world.hits(inv, sem).items():
        for s in ss:
            T.setdefault(s, []).append(t)
    return {s: sorted(ts) for s, ts in T.items()}


def same_follow_up(rnd, f):
    how = rnd.choice(SAME_FOLLOW)
    r2, i2 = list(f["rules"]), f["inv"]
    if how == "perm":
        rnd.shuffle(r2)
    elif how == "rot":
        r2 = r2[1:] + r2[:1]
    elif how == "flip":
        i2 = not i2
    elif how == "doubled" and len(r2) <= 4:
        r2 = r2 * 2
    elif how == "drop_last" and len(r2) > 1:
        r2 = r2[:-1]
    elif how == "drop_first" and len(r2) > 1:
        r2 = r2[1:]
    return {"rules": r2, "inv": i2}


def gen_same_case(rnd, world, look_pairs, opts=None, max_len=7):
    """A rule list in which some template occupies >= 2 positions (with rules_as graph_shared / mixed_shared: ONE graph object
    at all of them), templates chosen among those that convert one `pivot` substrate of the batch (so that the results of
    neighbouring rules of one entry are non-empty and different), plus a substrate for every template that does not."""
    sem = rnd.choices(SEMS, weights=[8, 0, 2, 1])[0]
    inv = rnd.random() < 0.4
    if not world.hits(inv, sem):
        inv = not inv
    H, T = world.hits(inv, sem), co_hits(world, inv, sem)
    rich = sorted(s for s in T if len(T[s]) >= 2)
    pivot = rnd.choice(rich) if rich and rnd.random() < 0.85 else rnd.choice(sorted(T))
    if rnd.random() < 0.6:
        pat = list(rnd.choice([p for p in SAME_PATTERNS if len(p) <= max_len]))
    else:
        m = rnd.randint(1, 3)
        letters = "abc"[:m]
        pat = list(letters) + [rnd.choice(letters) for _ in range(rnd.randint(m + 1, max_len) - m)]
        rnd.shuffle(pat)
    letters = list(dict.fromkeys(pat))
    pool = list(T[pivot])
    rnd.shuffle(pool)
    others = [t for t in sorted(H) if t not in pool]
    rnd.shuffle(others)
    if rnd.random() < 0.25 and others and len(pool) > 1:          # one template that needs its own substrate
        pool = pool[:len(letters) - 1] + others[:1] + pool[len(letters) - 1:]
    tpl = (pool + others)[:len(letters)]
    while len(tpl) < len(letters):
        tpl.append(rnd.choice(tpl))
    if rnd.random() < 0.5:
        rnd.shuffle(tpl)
    rl = [tpl[letters.index(ch)] for ch in pat]
    subs = [pivot] + [rnd.choice(H[t]) for t in dict.fromkeys(tpl) if pivot not in H[t]]
    x = rnd.random()
    if x < 0.35:
        subs.append(rnd.choice(subs))                       # repeated substrate
    elif x < 0.5:
        subs.extend(rnd.choice(look_pairs))                 # look-alike pair: same composition
    elif x < 0.6:
        subs.append(rnd.randrange(len(world.subs)))         # most likely inert
    rnd.shuffle(subs)
    seq = [{"rules": rl, "inv": inv}]
    y = rnd.random()
    for _ in range(0 if y < 0.5 else (1 if y < 0.85 else 2)):
        seq.append(same_follow_up(rnd, seq[-1]))
    case = {"stream": "fit", "group": "same-object", "subs": subs, "seq": seq, "n_jobs": rnd.choice([1, 1, 1, 0]),
            "cache_on": rnd.random() < 0.85, "cache_max": rnd.choice([1, 2, 3, BIG, BIG, BIG]), "dedupe": rnd.random() < 0.35,
            "rules_as": rnd.choice(["graph_shared"] * 6 + ["mixed_shared"] * 2 + ["graph", "str", "mixed"]),
            "as_dict": rnd.random() < 0.25, "sem": list(sem),
            "rules_iter": rnd.choice([None, None, None, "tuple", "gen", "iter", "map"])}
    if case["as_dict"] and rnd.random() < 0.6:
        case["entries_shared"] = True
    if rnd.random() < 0.5:
        case["reuse_rule_list"] = True
    if rnd.random() < 0.3:
        case["alone"] = True                                # second reference: the one-entry, one-process, cache-less reactor
    if rnd.random() < 0.08:
        case["pre_filter"] = rnd.choice(PRE_FILTERS)
        case["alone"] = True
    case.update(opts or {})
    return case


def gen_same_exhaustive(rnd, world, max_len, alphabet=2, caches=None):
    """ALL rule lists of length 1..max_len over `alphabet` shared rule objects that convert one pivot substrate,
    x dedupe x cache {big, size 1, off}; batch = pivot and a second substrate.  (Pivot and templates are drawn among
    those with at most 4 products per rule: the number of cases is what matters here, not the size of the result lists.)"""
    cands = []
    for inv in (False, True):
        T = co_hits(world, inv, SEM_DEFAULT)
        for s in sorted(T):
            small = [t for t in T[s] if len(world.cell(s, t, inv)) <= 4]
            if len(small) >= alphabet:
                cands.append((inv, s, small))
    if not cands:
        return []
    inv, pivot, small = rnd.choice(cands)
    T = co_hits(world, inv, SEM_DEFAULT)
    tpl = rnd.sample(small, alphabet)
    second = rnd.choice(sorted(s for s in T if s != pivot and sum(len(world.cell(s, t, inv)) for t in tpl) <= 8))
    cases = []
    for n in range(1, max_len + 1):
        for rl in itertools.product(tpl, repeat=n):
            for dd in (False, True):
                for on, mx in (caches or ((True, BIG), (True, 1), (False, BIG))):
                    cases.append({"stream": "fit", "group": "same-object", "subs": [pivot, second],
                                  "seq": [{"rules": list(rl), "inv": inv}], "n_jobs": 1, "cache_on": on, "cache_max": mx,
                                  "dedupe": dd, "rules_as": "graph_shared", "as_dict": False, "sem": list(SEM_DEFAULT),
                                  "rules_iter": None})
    return cases


def same_object_counts(ctx, world, case):
    """input distribution of stream b''; -> nontrivial: in the first fit some rule OBJECT occupies >= 2 positions and gives
    products on some entry of the batch (with the cache on and large enough: a hit that returns a non-empty list)"""
    f = case["seq"][0]
    sem = case_sem(case)
    shared_pos = {}
    for j, t in enumerate(f["rules"]):
        if case["rules_as"] == "graph_shared" or (case["rules_as"] == "mixed_shared" and j % 2 == 0):
            shared_pos.setdefault(t, []).append(j)
    rep = {t: ps for t, ps in shared_pos.items() if len(ps) >= 2}
    live = {t: ps for t, ps in rep.items() if any(world.cell(s, t, f["inv"], sem) for s in set(case["subs"]))}
    ctx.count(f"b'':rules_as={case['rules_as']}")
    ctx.count(f"b'':first_rule_list_length={len(f['rules'])}")
    ctx.count(f"b'':effective_rule_workers={eff_rule_jobs(case)}")
    ctx.count("b'':first_lists_with_a_rule_object_at_several_positions", 1 if rep else 0)
    ctx.count("b'':...and_that_rule_gives_products_on_an_entry", 1 if live else 0)
    if any(ps[0] == 0 and ps[-1] >= 2 for ps in live.values()):
        ctx.count("b'':...at_position_0_and_again_at_position>=2")
    if any(ps[-1] - ps[0] >= 2 and any(world.cell(s, t, f["inv"], sem) and any(world.cell(s, u, f["inv"], sem)
                                                                               for u in f["rules"][ps[0] + 1:ps[-1]] if u != t)
                                       for s in set(case["subs"])) for t, ps in live.items()):
        ctx.count("b'':...with_another_productive_rule_of_the_same_entry_in_between")
    if case.get("entries_shared") and len(set(case["subs"])) < len(case["subs"]):
        ctx.count("b'':batches_with_one_entry_dict_object_at_several_positions")
    if case.get("reuse_rule_list") and len({tuple(g["rules"]) for g in case["seq"]}) < len(case["seq"]):
        ctx.count("b'':one_rule_list_object_handed_to_several_fits")
    if case["cache_on"] and case["cache_max"] >= len(f["rules"]) and not case["dedupe"] and live and eff_rule_jobs(case) == 1:
        ctx.count("b'':serial,cache_keeps_the_entry,dedupe_off,live_repeat")
    return bool(live)


# ---------------------------------------------------------------------- stream b-free: the real fit over a FREE result function
# `BatchReactor.fit` / `worker` / `_apply_bulk` / `_RuleApplier` / `_dedupe` as they are, with only `_apply_rule_raw` (one
# SynReactor run) replaced by a table `f(substrate content, rule content, direction)` - the free `f` of the Lean theorems
# `batch_eq_single` / `cache_transparent_if_pinned`.  A case costs a millisecond, so the space the chemistry streams can only
# sample is enumerated: every rule list to length 4 (thorough: 5) over three rule OBJECTS (two of them equal in content) x
# dedupe x cache {off, 1, 2, big}; random call sequences (several fits on one reactor, diagnostic methods in between, lists up
# to 12 positions, one list / one entry dict object used repeatedly, one-shot iterables) and lists of more than 256 positions.
FREE_SMILES = ["C", "CC", "CO", "CCO", "CN", "O", "CCC", "N"]
FREE_DIAG = ["describe", "repr", "help", "len", "iter", "getitem"]
_FREE_KEYS = {}


def free_key(g):
    return tuple(sorted((str(d.get("element")), int(d.get("hcount", 0))) for _, d in g.nodes(data=True)))


def free_keys():
    """content of a substrate graph (as `_to_graph` makes it) -> index into FREE_SMILES"""
    if not _FREE_KEYS:
        from synkit.IO import smiles_to_graph
        for i, s in enumerate(FREE_SMILES):
            _FREE_KEYS[free_key(smiles_to_graph(s, drop_non_aam=False, use_index_as_atom_map=False))] = i
        if len(_FREE_KEYS) != len(FREE_SMILES):
            raise AssertionError("adapter: FREE_SMILES are not told apart by (element, hcount)")
    return _FREE_KEYS


def free_one_process(case):
    o = case.get("opts") or {}
    return max(1, int(o.get("entry_n_jobs", 1))) == 1 and not (o.get("parallel_rules") and max(1, int(o.get("rule_n_jobs", 1))) > 1)


@contextlib.contextmanager
def mem_guard(extra=1 << 29):
    """Address-space cap (current size + `extra`) while a case with very long rule lists runs: a breakage that makes the result
    grow geometrically with the list length then ends in a MemoryError of that fit (reported as a violation), not in the OOM killer."""
    import resource
    try:
        with open("/proc/self/statm") as fh:
            cur = int(fh.read().split()[0]) * resource.getpagesize()
        old = resource.getrlimit(resource.RLIMIT_AS)
        lim = cur + extra
        if old[1] != resource.RLIM_INFINITY:
            lim = min(lim, old[1])
        resource.setrlimit(resource.RLIMIT_AS, (lim, old[1]))
    except Exception:
        old = None
    try:
        yield
    finally:
        if old is not None:
            resource.setrlimit(resource.RLIMIT_AS, old)


def free_impl(case):
    """-> per fit: list of per-entry {'out', 'count', 'has_key', 'n_keys'} | {'error': name}"""
    import networkx, synkit.Synthesis.Reactor.batch_reactor  # noqa: F401  (loaded before the cap: BLAS reserves its buffers at import)
    free_keys()
    with mem_guard():
        return free_impl_unguarded(case)


def free_impl_unguarded(case):
    import networkx as nx
    import synkit.Synthesis.Reactor.batch_reactor as br
    if not free_one_process(case):
        raise AssertionError("adapter: the stubbed result function does not reach worker processes")
    table = {(s, c, bool(i)): v for s, c, i, v in case["table"]}
    keys = free_keys()

    def stub(sub, rule, inv, engine, **kw):
        return ["p%d" % x for x in table.get((keys[free_key(sub)], rule.graph["c"], bool(inv)), [])]

    saved = br._apply_rule_raw
    br._apply_rule_raw = stub
    try:
        objs = [nx.Graph(c=c) for c in case["objs"]]
        data = [FREE_SMILES[i] for i in case["data"]]
        if case.get("as_dict"):
            data = [{"smi": x, "n": j} for j, x in enumerate(data)]
            if case.get("entries_shared"):
                one = {}
                data = [one.setdefault(i, {"smi": FREE_SMILES[i], "n": 0}) for i in case["data"]]
        try:
            r = br.BatchReactor(data, host_key="smi" if case.get("as_dict") else None, cache_enabled=case["cache_on"],
                                cache_maxsize=case["cache_max"], dedupe=case["dedupe"], enable_logging=False, **(case.get("opts") or {}))
        except Exception as e:  # noqa
            return [{"error": "constructor:" + type(e).__name__} for _ in case["seq"]]
        res, lists = [], {}
        for f in case["seq"]:
            try:
                for m in f.get("before", []):       # public methods that report; they must not disturb what follows
                    if m == "describe":
                        r.describe()
                    elif m == "repr":
                        repr(r)
                    elif m == "help":
                        r.help()
                    elif m == "len":
                        len(r)
                    elif m == "iter":
                        list(r)
                    elif m == "getitem":
                        r[0]
                rules = [objs[k] for k in f["rules"]]
                if case.get("reuse_rule_list"):
                    rules = lists.setdefault(tuple(f["rules"]), rules)
                form = f.get("form")
                if form == "gen":
                    rules = (x for x in rules)
                elif form == "iter":
                    rules = iter(rules)
                elif form == "map":
                    rules = map(lambda x: x, rules)
                elif form == "tuple":
                    rules = tuple(rules)
                out = r.fit(rules, invert=f["inv"])
                key = "syn_bw" if f["inv"] else "syn_fw"
                got = [{"out": list(o.get(key, [])), "count": o.get("count"), "has_key": key in o, "n_keys": len(o)} for o in out]
                del out
            except BaseException as e:
                if isinstance(e, (KeyboardInterrupt, SystemExit)):
                    raise
                out = got = None
                res.append({"error": type(e).__name__})
                continue
            res.append(got)
        return res
    finally:
        br._apply_rule_raw = saved


def free_model_requests(case):
    return [{"cmd": "batch.fit", "cache_on": case["cache_on"], "cache_max": case["cache_max"], "pin": True, "dedupe": case["dedupe"],
             "alloc": "lowest", "inv": f["inv"], "batch": case["data"], "rules": [case["objs"][k] for k in f["rules"]],
             "table": case["table"]} for f in case["seq"]]


def free_compare(case, impl, models, ctx=None):
    """-> None | (text, detail).  Gate: per entry the multiset of results (and count == len); list order is counted only."""
    for fi, (f, got, mod) in enumerate(zip(case["seq"], impl, models)):
        if isinstance(got, dict):
            return f"fit #{fi} raised {got['error']}", {"fit": fi}
        if "ok" not in mod["fit"]:
            return f"model fit #{fi} errs {mod['fit']}", {"fit": fi}
        want = mod["single"]                       # the property's right-hand side: the rules applied to each substrate alone
        if mod["fit"]["ok"] != want and ctx is not None:
            ctx.count("b-free:model_fit_differs_from_model_single")    # cannot happen (theorem batch_eq_single)
        if len(got) != len(want):
            return f"fit #{fi} returned {len(got)} entries for {len(want)} substrates", {"fit": fi}
        for ei, (g, w) in enumerate(zip(got, want)):
            ws = ["p%d" % c for c in w]
            if not g["has_key"] or g["n_keys"] != 2:
                return f"fit #{fi} entry {ei}: result dict keys unexpected", {"fit": fi, "entry": ei}
            if g["count"] != len(g["out"]):
                return f"fit #{fi} entry {ei}: count {g['count']} != len(out) {len(g['out'])}", {"fit": fi, "entry": ei}
            if g["out"] == ws:
                if ctx is not None:
                    ctx.count("b-free:entries_equal_as_lists")
                continue
            if sorted(g["out"]) == sorted(ws):
                if ctx is not None:
                    ctx.count("b-free:entries_equal_as_multisets_only")
                continue
            return (f"fit #{fi} entry {ei} ({FREE_SMILES[case['data'][ei]]}): batch result differs from the rules applied to this substrate alone",
                    {"fit": fi, "entry": ei, "substrate": FREE_SMILES[case["data"][ei]], "batch": g["out"][:24], "alone": ws[:24],
                     "n_batch": len(g["out"]), "n_alone": len(ws)})
    return None


def free_eval(ctx, case):
    return free_compare(case, free_impl(case), ctx.lean().ok(free_model_requests(case)))


def free_table(rnd, nsubs, contents, dense):
    """f as rows [substrate, rule content, direction, result codes]: lists of 0..3 codes from a small alphabet, so that
    different rules of one entry share products (de-duplication matters) and a rule may give one product twice"""
    rows = []
    for s in nsubs:
        for c in contents:
            for inv in (False, True):
                n = rnd.choice([1, 1, 2, 2, 3]) if rnd.random() < dense else 0
                rows.append([s, c, inv, [rnd.randint(0, 5) for _ in range(n)]])
    return rows


def gen_free_exhaustive(rnd, max_len):
    """ALL rule lists of length 1..max_len over three rule objects A, B, A' (A' equal to A in content, another object)
    x dedupe x cache {off, 1, 2, big}; batch: a substrate both rules convert, one only B converts, the first again."""
    s0, s1 = rnd.sample(range(len(FREE_SMILES)), 2)
    inv = rnd.random() < 0.5
    table = free_table(rnd, [s0], [0, 1], 1.0) + [[s1, 0, False, []], [s1, 0, True, []],
                                                   [s1, 1, inv, [rnd.randint(0, 5)]], [s1, 1, not inv, []]]
    cases = []
    for n in range(1, max_len + 1):
        for rl in itertools.product(range(3), repeat=n):
            for dd in (False, True):
                for on, mx in ((True, BIG), (True, 1), (True, 2), (False, BIG)):
                    cases.append({"stream": "fit_free", "objs": [0, 1, 0], "data": [s0, s1, s0], "table": table,
                                  "seq": [{"rules": list(rl), "inv": inv}], "cache_on": on, "cache_max": mx, "dedupe": dd})
    return cases


def gen_free_case(rnd, big=False):
    nobj = rnd.randint(1, 5)
    objs = [rnd.randint(0, 3) for _ in range(nobj)]
    if rnd.random() < 0.5:
        objs = list(range(nobj))                               # all contents different
    pool = rnd.sample(range(len(FREE_SMILES)), rnd.randint(1, 4))
    data = [rnd.choice(pool) for _ in range(rnd.randint(1, 5))]
    table = free_table(rnd, sorted(set(data)), sorted(set(objs)), 0.75)
    seq = []
    for _ in range(rnd.choice([1, 1, 2, 2, 3, 4])):
        if seq and rnd.random() < 0.4:
            f = same_follow_up(rnd, seq[-1])
        else:
            x = rnd.random()
            if big:
                rl = [rnd.randrange(nobj) for _ in range(rnd.randint(257, 330))]     # positions beyond CPython's small ints
            elif x < 0.3:
                base = [rnd.randrange(nobj) for _ in range(rnd.randint(1, 4))]
                rl = base * rnd.randint(2, 3)                       # [a, b] * 2
            elif x < 0.5:
                base = [rnd.randrange(nobj) for _ in range(rnd.randint(1, 4))]
                rl = base + base[::-1][1:]                          # [a, b, a]
            else:
                rl = [rnd.randrange(nobj) for _ in range(rnd.randint(1, 12))]
            f = {"rules": rl, "inv": rnd.random() < 0.35}
        f = dict(f)
        f["form"] = rnd.choice([None, None, None, "tuple", "gen", "iter", "map"])
        f["before"] = [rnd.choice(FREE_DIAG) for _ in range(rnd.choice([0, 0, 1, 2]))]
        seq.append(f)
    case = {"stream": "fit_free", "objs": objs, "data": data, "table": table, "seq": seq,
            "cache_on": rnd.random() < 0.85, "cache_max": rnd.choice([1, 1, 2, 2, 3, 4, 7, BIG, BIG]), "dedupe": rnd.random() < 0.45}
    if rnd.random() < 0.25:
        case["as_dict"] = True
        if rnd.random() < 0.6:
            case["entries_shared"] = True
    if rnd.random() < 0.5:
        case["reuse_rule_list"] = True
    if rnd.random() < 0.3:        # option settings that all mean: one process
        case["opts"] = rnd.choice([{"entry_n_jobs": 0}, {"entry_n_jobs": -1}, {"parallel_rules": False, "rule_n_jobs": 3},
                                   {"parallel_rules": True, "rule_n_jobs": 1}, {"parallel_rules": True, "rule_n_jobs": 0, "allow_nested": True}])
    return case


def free_counts(ctx, case):
    """input distribution; -> nontrivial: in some fit a rule OBJECT occupies >= 2 positions and gives results on some entry"""
    table = {(s, c, bool(i)): v for s, c, i, v in case["table"]}
    live = first_again = False
    for f in case["seq"]:
        pos = {}
        for j, k in enumerate(f["rules"]):
            pos.setdefault(k, []).append(j)
        for k, ps in pos.items():
            if len(ps) >= 2 and any(table.get((s, case["objs"][k], bool(f["inv"]))) for s in set(case["data"])):
                live = True
                first_again |= ps[0] == 0 and ps[-1] >= 2
        ctx.count("b-free:rule_positions", len(f["rules"]))
        ctx.count(f"b-free:rules_handed_over_as={f.get('form') or 'list'}")
        ctx.count("b-free:diagnostic_calls_before_a_fit", len(f.get("before", [])))
        if len(f["rules"]) > 256:
            ctx.count("b-free:rule_lists_longer_than_256")
    ctx.count("b-free:fits", len(case["seq"]))
    ctx.count(f"b-free:cache_{'on' if case['cache_on'] else 'off'}")
    ctx.count(f"b-free:cache_max={case['cache_max'] if case['cache_max'] < BIG else 'big'}")
    ctx.count(f"b-free:dedupe_{'on' if case['dedupe'] else 'off'}")
    ctx.count("b-free:cases_with_a_live_repeated_rule_object", 1 if live else 0)
    ctx.count("b-free:...at_position_0_and_again_at_position>=2", 1 if first_again else 0)
    if len(set(case["objs"])) < len(case["objs"]):
        ctx.count("b-free:cases_with_two_rule_objects_of_equal_content")
    if case.get("entries_shared") and len(set(case["data"])) < len(case["data"]):
        ctx.count("b-free:batches_with_one_entry_dict_object_at_several_positions")
    if case.get("reuse_rule_list") and len({tuple(g["rules"]) for g in case["seq"]}) < len(case["seq"]):
        ctx.count("b-free:one_rule_list_object_handed_to_several_fits")
    return live


def run_fit_free(ctx, cases, tag):
    impls = [free_impl(c) for c in cases]
    reqs, where = [], []
    for c in cases:
        rr = free_model_requests(c)
        where.append((len(reqs), len(rr)))
        reqs.extend(rr)
    ans = ctx.lean().ok(reqs, shards=8) if reqs else []
    for case, impl, (a, n) in zip(cases, impls, where):
        models = ans[a:a + n]
        nontrivial = free_counts(ctx, case)
        ctx.case(["fit_free", case], nontrivial,
                 sample={**{k: v for k, v in case.items() if k != "table"}, "stream": "b-free:" + tag,
                         "substrates": [FREE_SMILES[i] for i in case["data"]]}
                 if nontrivial and len(case["seq"]) >= 2 and want_sample(ctx, "b-free:", 1) else None)
        d = free_compare(case, impl, models, ctx)
        if d is None:
            continue

        def fails(c):
            if not c["data"] or not c["seq"] or any(not f["rules"] for f in c["seq"]):
                return False
            return free_eval(ctx, c) is not None
        small = dict(case)
        small["seq"] = shrink_seq(case["seq"], lambda ss: fails({**small, "seq": ss}), budget=20)
        small["data"] = shrink_seq(small["data"], lambda dd: fails({**small, "data": dd}), budget=20)
        for i in range(len(small["seq"])):
            def with_rules(rr, i=i):
                seq = [dict(f) for f in small["seq"]]
                seq[i]["rules"] = rr
                return {**small, "seq": seq}
            small = with_rules(shrink_seq(small["seq"][i]["rules"], lambda r: fails(with_rules(r)),
                                          budget=60 if len(small["seq"][i]["rules"]) <= 64 else 25))
        used = {(s, small["objs"][k]) for s in small["data"] for f in small["seq"] for k in f["rules"]}
        small["table"] = [row for row in small["table"] if (row[0], row[1]) in used and row[3]]
        if not fails(small):
            small = case
        d2 = free_eval(ctx, small) or d
        ctx.violation("BatchReactor.fit result for an entry differs from applying the rules to that substrate alone "
                      "(result function of one rule application replaced by a table; fit, worker, _apply_bulk, the cache and _dedupe are the real code)",
                      {**small, "substrates": [FREE_SMILES[i] for i in small["data"]]},
                      {"what": d2[0], **d2[1], "stream": tag,
                       "reading": "objs[k] = content code of rule object k; rules = object indices (an index listed twice is ONE graph "
                                  "object at two positions); table rows = [substrate index, rule content, invert, results of that rule alone]"})
        if nviol(ctx) >= 4:
            return


def run_dedupe(ctx, rnd, n):
    """`_dedupe` itself: duplicate-free, same elements (what C14 needs of it); order as coded vs the Lean model."""
    from synkit.Synthesis.Reactor.batch_reactor import _dedupe
    lists = [[rnd.randint(0, 6) for _ in range(rnd.randint(0, 12))] for _ in range(n)]
    model = ctx.lean().ok([{"cmd": "batch.dedupe", "xs": xs} for xs in lists])
    for xs, m in zip(lists, model):
        got = list(_dedupe(list(xs)))
        ctx.count("b:dedupe_lists")
        ctx.case(["dedupe", xs], len(set(xs)) < len(xs))
        if len(set(got)) != len(got) or set(got) != set(xs):
            ctx.violation("_dedupe does not return the distinct elements of its input exactly once", {"stream": "dedupe", "xs": xs},
                          {"impl": got, "model": m})
            return
        if got != m:
            ctx.violation("correspondence b (_dedupe order: first occurrences in order, as coded) broke; the output is still the set of "
                          "distinct elements", {"stream": "dedupe", "xs": xs}, {"impl": got, "model": m}, no_input=True)
            return


# ====================================================================== stream c: BatchCluster
class ClusterWorld:
    def __init__(self, ctx, reactions):
        from synkit.IO import rsmi_to_its
        self.rsmi = reactions
        self.graphs = [rsmi_to_its(r, core=True) for r in reactions]
        self.cls_default = self._classes(ctx, ["element", "charge"])
        self.cls_elem = self._classes(ctx, ["element"])
        self.sig = ["".join(sorted(d.get("element", "*") for _, d in g.nodes(data=True))) for g in self.graphs]

    def _classes(self, ctx, node_keys):
        """isomorphism classes by the proven Lean engine (greedy against class representatives)"""
        enc = [graphio.graph(g, node_keys=set(node_keys), edge_keys={"order"},
                             node_id=(lambda m: (lambda n: m[n]))({n: i for i, n in enumerate(g.nodes())}))
               for g in self.graphs]
        # one driver call for all pairs; classes = greedy against class representatives
        pairs = [(i, j) for j in range(len(enc)) for i in range(j)]
        ans = ctx.lean().ok([{"cmd": "match.iso", "host": enc[i], "pattern": enc[j], "node_keys": node_keys,
                              "edge_keys": ["order"], "hcount": False} for i, j in pairs], shards=8)
        iso = {p: bool(a) for p, a in zip(pairs, ans)}
        reps, cls = [], []
        for j in range(len(enc)):
            c = next((k for k, r in enumerate(reps) if iso[(r, j)]), None)
            if c is None:
                c = len(reps)
                reps.append(j)
            cls.append(c)
        return cls


_CW = {}


def cluster_world(ctx, reactions):
    key = tuple(reactions)
    if key not in _CW:
        _CW[key] = ClusterWorld(ctx, reactions)
    return _CW[key]


def partition(labels):
    groups = {}
    for i, c in enumerate(labels):
        groups.setdefault(c if c is not None else ("none", i), []).append(i)
    return sorted(groups.values())


def cluster_attr(cw, i, attr_mode):
    return cw.sig[i] if attr_mode == "sig" else str(cw.graphs[i].number_of_nodes())


# ---- attribute / graph REPRESENTATION (streams c-rep, c'-rep).  `attr_mode` is either one of the strings "none" / "sig" /
# "size" (the attribute is a function of the corpus index, always a str) or a JSON-able dict
#   {"rep": {"data": [spec per position], "templates": [spec per template]},
#    "graphs": {"data": [gspec | None per position], "templates": [...]},          (optional)
#    "opts": {"reuse_instance": bool, "reuse_records": bool, "call_order": "asc" | "desc" | "mid"}}   (optional)
# spec = {"v": canonical value (int | str | sorted list of ints | None), "as": kind[, "el": [kind per element]]}.  Values that are
# equal under Python `==` (4, 4.0, numpy.int64(4), numpy.float32(4.0), -0.0 / 0; 'ab' / numpy.str_('ab'); [1, 2] / [1.0, 2];
# a missing key / None) get the SAME model code - the code is the graphio encoding of the value actually handed to the
# implementation; NaN (equal to nothing, itself included) gets a fresh code per occurrence.
NUM_KINDS = ["int", "float", "np.int64", "np.int32", "np.float64", "np.float32"]
NUM_WEIGHTS = [4, 4, 2, 1, 2, 1]
NAN_KINDS = ("nan", "math.nan", "np.nan")


def num_as(x, kind):
    import numpy as np
    if x != int(x):                                  # half-integral (aromatic order 1.5): float kinds only
        kind = {"int": "float", "np.int64": "np.float64", "np.int32": "np.float32"}.get(kind, kind)
    if kind == "int":
        return int(x)
    if kind == "float":
        return float(x)
    if kind == "neg_zero":
        if x != 0:
            raise AssertionError("neg_zero spells 0 only")
        return -0.0
    return getattr(np, kind[3:])(x)


def rep_value(spec):
    """-> (key present in the record, value)"""
    import numpy as np
    k, v = spec["as"], spec["v"]
    if k == "missing":
        return False, None
    if k == "none":
        return True, None
    if k == "nan":
        return True, float("nan")                    # a fresh object per record
    if k == "math.nan":
        import math
        return True, math.nan                        # ONE object shared by all records that carry it (as pandas / numpy data do)
    if k == "np.nan":
        return True, np.nan                          # likewise (a module constant of type float)
    if k == "str":
        return True, str(v)
    if k == "np.str_":
        return True, np.str_(v)
    if k == "list":
        if list(v) != sorted(v):
            raise AssertionError("list-valued attributes are generated in sorted order (see assumptions)")
        return True, [num_as(x, e) for x, e in zip(v, spec["el"])]
    return True, num_as(v, k)


def rep_key(spec, role, pos):
    """model code key of one attribute value: the graphio encoding of the object handed to the implementation"""
    if spec["as"] in NAN_KINDS:
        return json.dumps(["nan", role, pos])
    _, value = rep_value(spec)
    enc = json.dumps(graphio.val(value), sort_keys=True)
    if enc != json.dumps(graphio.val(spec["v"]), sort_keys=True):
        raise AssertionError(f"adapter: {value!r} is not encoded as its canonical value {spec['v']!r}")
    return enc


def attr_name(attr_mode):
    return attr_mode if isinstance(attr_mode, str) else "rep"


def attr_opts(attr_mode):
    return {} if isinstance(attr_mode, str) else (attr_mode.get("opts") or {})


def attr_spec(attr_mode, role, pos):
    return attr_mode["rep"][role][pos]


def attr_key(cw, i, attr_mode, role, pos):
    if isinstance(attr_mode, str):
        return 0 if attr_mode == "none" else cluster_attr(cw, i, attr_mode)
    return rep_key(attr_spec(attr_mode, role, pos), role, pos)


def attr_drop(attr_mode, role, pos):
    """the attribute mode of the input with position `pos` of `role` removed"""
    if isinstance(attr_mode, str):
        return attr_mode
    out = json.loads(json.dumps(attr_mode))
    del out["rep"][role][pos]
    if (out.get("graphs") or {}).get(role):
        del out["graphs"][role][pos]
    return out


def graph_variant(g, gs):
    """A relabelled, re-typed copy of `g`: isomorphic to `g` under every `==`-based matcher.  gs (JSON-able):
    offset / reverse (node ids and insertion order), charge / order / element: kinds cycled over the nodes / edge-tuple
    members (so that one graph mixes them), extras: attributes no matcher of BatchCluster selects."""
    import networkx as nx
    import numpy as np
    nodes = list(g.nodes())
    if gs.get("reverse"):
        nodes.reverse()
    ren = {n: int(gs.get("offset", 0)) + j for j, n in enumerate(nodes)}
    ck, ok, ek = gs.get("charge") or ["int"], gs.get("order") or ["float"], gs.get("element") or ["str"]
    H = nx.Graph()
    for j, n in enumerate(nodes):
        d = dict(g.nodes[n])
        if "charge" in d:
            d["charge"] = num_as(d["charge"], ck[j % len(ck)])
        if "element" in d and ek[j % len(ek)] == "np.str_":
            d["element"] = np.str_(d["element"])
        if gs.get("extras"):
            d.update(label=0, name="", id=j % 2)
        H.add_node(ren[n], **d)
    edges = list(g.edges(data=True))
    if gs.get("reverse"):
        edges.reverse()
    c = 0
    for j, (u, v, d) in enumerate(edges):
        d = dict(d)
        o = d.get("order")
        if isinstance(o, tuple):
            d["order"] = tuple(num_as(x, ok[(c + t) % len(ok)]) for t, x in enumerate(o))
            c += len(o)
        elif o is not None:
            d["order"] = num_as(o, ok[c % len(ok)])
            c += 1
        if gs.get("extras"):
            d.update(weight=1.0 + j, capacity=0, label="x", name=j % 2)
        if gs.get("reverse"):
            u, v = v, u
        H.add_edge(ren[u], ren[v], **d)
    # adapter self-check: under the renaming the graphio encodings (what the Lean engine classified) coincide
    nk, ekeys = {"element", "charge"}, {"order"}
    a = graphio.graph(g, node_keys=nk, edge_keys=ekeys, node_id=lambda n: ren[n])
    b = graphio.graph(H, node_keys=nk, edge_keys=ekeys)
    norm = lambda e: (sorted(json.dumps(x, sort_keys=True) for x in e["nodes"]),
                      sorted(json.dumps([min(u, v), max(u, v), dd], sort_keys=True) for u, v, dd in e["edges"]))
    if norm(a) != norm(b):
        raise AssertionError("adapter: graph_variant changed the encoded graph")
    return H


def cluster_graph(cw, i, attr_mode, role, pos):
    if isinstance(attr_mode, str):
        return cw.graphs[i]
    gl = (attr_mode.get("graphs") or {}).get(role)
    gs = gl[pos] if gl else None
    return cw.graphs[i] if not gs else graph_variant(cw.graphs[i], gs)


def cluster_records(cw, pairs, attr_mode, role):
    """pairs: [(corpus index, class label | None)] -> fresh record dicts"""
    out = []
    for pos, (i, lab) in enumerate(pairs):
        d = {"g": cluster_graph(cw, i, attr_mode, role, pos), "idx": i}
        if lab is not None:
            d["class"] = lab
        if isinstance(attr_mode, str):
            if attr_mode != "none":
                d["sig"] = cluster_attr(cw, i, attr_mode)
        else:
            present, value = rep_value(attr_spec(attr_mode, role, pos))
            if present:
                d["sig"] = value
        out.append(d)
    return out


def make_cluster(cfg):
    from synkit.Graph.Matcher.batch_cluster import BatchCluster
    return BatchCluster() if cfg == "default" else BatchCluster(node_label_names=["element"], node_label_default=["*"])


def cluster_impl(cw, items, attr_mode, cfg, k, templates=None, none_templates=False, full=False, bc=None, records=None):
    """`templates`: initial library as [(corpus index, class label), ...] (fresh dicts for every call: `fit`
    appends to the list it is given and writes into the entries).  `none_templates`: pass `templates=None`
    (documented as "no templates") instead of [].  full=True -> (labels, [[corpus index, label], ...] returned library).
    `bc` / `records`: a BatchCluster instance / the record dicts of an earlier call, used again (history must not matter)."""
    data = records if records is not None else cluster_records(cw, [(i, None) for i in items], attr_mode, "data")
    tl = None if none_templates else cluster_records(cw, [tuple(t) for t in (templates or [])], attr_mode, "templates")
    if bc is None:
        bc = make_cluster(cfg)
    try:
        out, tout = bc.fit(data, tl, rule_key="g", attribute_key=None if attr_mode == "none" else "sig", batch_size=k)
    except ValueError:
        return "ValueError"
    except IndexError:
        return "IndexError"
    if [d["idx"] for d in out] != items:
        return "reordered"
    labels = [d.get("class") for d in out]
    if full:
        return labels, [[d.get("idx"), d.get("class")] for d in tout]
    return labels


def cluster_call_order(ks, attr_mode):
    how = attr_opts(attr_mode).get("call_order", "asc")
    if how == "desc":
        return list(reversed(ks))                              # the one-shot call comes last
    if how == "mid":
        return ks[1:1 + len(ks) // 2] + ks[:1] + ks[1 + len(ks) // 2:]
    return list(ks)


def cluster_impl_all(cw, items, attr_mode, cfg, ks, **kw):
    """every batch size of one case; with opts.reuse_instance / reuse_records on ONE BatchCluster / ONE list of record dicts"""
    opts = attr_opts(attr_mode)
    bc = make_cluster(cfg) if opts.get("reuse_instance") else None
    recs = cluster_records(cw, [(i, None) for i in items], attr_mode, "data") if opts.get("reuse_records") else None
    impl = {}
    for k in cluster_call_order(ks, attr_mode):
        impl[k] = cluster_impl(cw, items, attr_mode, cfg, k, bc=bc, records=recs, **kw)
    return impl


def cluster_row(cw, i, attr_mode, cfg, repaired, amap, role="data", pos=0):
    a = attr_key(cw, i, attr_mode, role, pos)
    a = amap.setdefault(a, len(amap))
    c = cw.cls_default[i] if cfg == "default" else cw.cls_elem[i]
    c1 = c if repaired else cw.cls_default[i]
    return [a, c, c1]


def cluster_model_req(cw, items, attr_mode, cfg, k, repaired, templates=None):
    amap = {}
    rows = [cluster_row(cw, i, attr_mode, cfg, repaired, amap, "data", pos) for pos, i in enumerate(items)]
    req = {"cmd": "batchcluster.fit", "items": rows, "batch_size": k}
    if templates:
        req["templates"] = [cluster_row(cw, i, attr_mode, cfg, repaired, amap, "templates", pos) + [lab]
                            for pos, (i, lab) in enumerate(templates)]
    return req


def cluster_ks(n):
    return [None] + list(range(1, n + 2)) + [0, -1]          # batch_size < 1: ValueError by `batch_dicts`, on every input


def cluster_model_reqs(cw, items, attr_mode, cfg, ks):
    return [cluster_model_req(cw, items, attr_mode, cfg, k, True) for k in ks] + \
           [cluster_model_req(cw, items, attr_mode, cfg, k, False) for k in ks]


def cluster_judge(cw, items, attr_mode, cfg, ks, impl, ans, ctx=None):
    """-> None | (batch size, impl partition, expected partition, known-finding classes)"""
    mod_rep = dict(zip(ks, ans[:len(ks)]))
    mod_coded = dict(zip(ks, ans[len(ks):]))
    one = impl[None]
    for k in ks:
        got = impl[k]
        gp = partition(got) if isinstance(got, list) else got
        wrep = mod_rep[k]
        wp = partition(wrep["ok"]) if "ok" in wrep else wrep["err"]
        if gp == wp:
            if ctx is not None and isinstance(got, list) and got == wrep.get("ok"):
                ctx.count("c:labels_equal_too")
            continue
        wcod = mod_coded[k]
        wcp = partition(wcod["ok"]) if "ok" in wcod else wcod["err"]
        classes = [CLASS_ONESHOT] if (gp == wcp and cfg != "default") else []
        return (k, gp, wp, classes)
    if isinstance(one, list):
        # impl vs impl, independent of the model: every batch size gives the one-shot partition
        for k in ks[1:]:
            if isinstance(impl[k], list) and partition(impl[k]) != partition(one):
                return (k, partition(impl[k]), partition(one), [])
        # `templates=None` is the documented spelling of "no templates": same answers as `[]`
        for k in (None, 2):
            got = cluster_impl(cw, items, attr_mode, cfg, k, none_templates=True)
            if ctx is not None:
                ctx.count("c:fit_calls_with_templates_None")
            if not isinstance(got, list) or partition(got) != partition(one):
                return (k, partition(got) if isinstance(got, list) else got, partition(one), [])
    return None


def cluster_eval(ctx, cw, items, attr_mode, cfg):
    ks = cluster_ks(len(items))
    impl = cluster_impl_all(cw, items, attr_mode, cfg, ks)
    ans = ctx.lean().ok(cluster_model_reqs(cw, items, attr_mode, cfg, ks))
    return impl, cluster_judge(cw, items, attr_mode, cfg, ks, impl, ans)


def rep_visible_pairs(cw, items, attr_mode, cfg, role="data", graphs=True):
    """number of position pairs of one model class whose attribute values are equal (same model code) but PRINT differently,
    or whose graphs are differently typed / labelled copies: a classification that looks at the representation splits them"""
    if isinstance(attr_mode, str):
        return 0
    cls = cw.cls_default if cfg == "default" else cw.cls_elem
    gl = (attr_mode.get("graphs") or {}).get(role) or [None] * len(items)
    n = 0
    for q in range(len(items)):
        for p in range(q):
            if cls[items[p]] != cls[items[q]]:
                continue
            sp, sq = attr_spec(attr_mode, role, p), attr_spec(attr_mode, role, q)
            if rep_key(sp, role, p) != rep_key(sq, role, q):
                continue
            if repr(rep_value(sp)) != repr(rep_value(sq)):
                n += 1
            elif graphs and gl[p] != gl[q]:
                n += 1
    return n


def run_cluster(ctx, cw, cases, tag):
    """cases: (items, attr_mode, cfg)"""
    pre = "c:" if tag != "representation" else "c-rep:"
    # phase 1: the implementation, case by case; phase 2: the (pure) Lean model of all cases in one driver call; phase 3: gates
    evald, reqs = [], []
    for items, attr_mode, cfg in cases:
        ks = cluster_ks(len(items))
        impl = cluster_impl_all(cw, items, attr_mode, cfg, ks)
        rr = cluster_model_reqs(cw, items, attr_mode, cfg, ks)
        evald.append((ks, impl, len(reqs), len(rr)))
        reqs.extend(rr)
    answers = ctx.lean().ok(reqs, shards=8) if reqs else []
    for (items, attr_mode, cfg), (ks, impl, off, nreq) in zip(cases, evald):
        n = len(items)
        one = impl[None]
        ncls = len(partition(one)) if isinstance(one, list) else 0
        ctx.count(f"{pre}config={cfg}")
        ctx.count(f"{pre}attr={attr_name(attr_mode)}")
        ctx.count(f"{pre}fit_calls", len(ks))
        nontrivial = n >= 3 and 2 <= ncls < n
        if not isinstance(attr_mode, str):
            vis = rep_visible_pairs(cw, items, attr_mode, cfg)
            visa = rep_visible_pairs(cw, items, attr_mode, cfg, graphs=False)
            ctx.count("c-rep:cases_with_equal_values_of_different_print_in_one_class", 1 if visa else 0)
            ctx.count("c-rep:position_pairs_equal_value_different_print_same_class", visa)
            ctx.count("c-rep:position_pairs_same_class_differently_typed_graph_copies", vis - visa)
            for sp in attr_mode["rep"]["data"]:
                ctx.count(f"c-rep:value_kind={sp['as']}")
            for kk, vv in sorted(attr_opts(attr_mode).items()):
                ctx.count(f"c-rep:{kk}={vv}")
            if (attr_mode.get("graphs") or {}).get("data"):
                ctx.count("c-rep:cases_with_retyped_relabelled_graph_copies")
            ctx.count(f"c-rep:base={attr_mode.get('base', '?')}")
            nontrivial = nontrivial and vis >= 1
        ctx.case(["cluster", items, attr_mode, cfg], nontrivial,
                 sample={"stream": pre + tag, "items": items, "attr": attr_mode, "config": cfg,
                         "one_shot_classes": one} if n <= 5 and want_sample(ctx, pre, 1) else None)
        bad = cluster_judge(cw, items, attr_mode, cfg, ks, impl, answers[off:off + nreq], ctx)
        if bad is None:
            continue
        k, gp, wp, classes = bad
        small_items, small_attr = list(items), attr_mode
        if not classes:
            # minimise: drop positions while the case still fails (any unclassified failure)
            budget = 40
            pos = len(small_items) - 1
            while pos >= 0 and len(small_items) > 1 and budget > 0:
                cand_items = small_items[:pos] + small_items[pos + 1:]
                cand_attr = attr_drop(small_attr, "data", pos)
                budget -= 1
                try:
                    _, b2 = cluster_eval(ctx, cw, cand_items, cand_attr, cfg)
                except Exception:  # noqa: a candidate the adapters reject is no candidate
                    b2 = None
                if b2 is not None and not b2[3]:
                    small_items, small_attr = cand_items, cand_attr
                pos -= 1
            if not isinstance(small_attr, str):          # ... and the parts of the mode that are not needed
                for drop in ("graphs", "opts"):
                    if small_attr.get(drop):
                        cand_attr = {kk: vv for kk, vv in small_attr.items() if kk != drop}
                        _, b2 = cluster_eval(ctx, cw, small_items, cand_attr, cfg)
                        if b2 is not None and not b2[3]:
                            small_attr = cand_attr
            if small_items != list(items) or small_attr != attr_mode:
                impl, b2 = cluster_eval(ctx, cw, small_items, small_attr, cfg)
                if b2 is not None:
                    k, gp, wp, classes = b2
                    one = impl[None]
                else:                                    # not reproducible on the reduced input: report the original
                    small_items, small_attr = list(items), attr_mode
        case = {"stream": "cluster", "items": small_items, "attr": small_attr, "config": cfg,
                "reactions": [cw.rsmi[i] for i in small_items]}
        if not isinstance(small_attr, str):
            case["attribute_values"] = [repr(rep_value(sp)[1]) if rep_value(sp)[0] else "<key absent>" for sp in small_attr["rep"]["data"]]
        ctx.violation("batched clustering and one-shot clustering give different partitions" if classes else
                      "BatchCluster.fit partition differs from the model (classes by the proven isomorphism engine)",
                      case,
                      {"batch_size": k, "impl_partition": gp, "expected_partition": wp,
                       "one_shot_partition": partition(one) if isinstance(one, list) else one,
                       "batch_size_1_partition": partition(impl[1]) if isinstance(impl[1], list) else impl[1],
                       "batch_sizes_whose_partition_differs_from_one_shot":
                           [kk for kk in impl if kk is not None and isinstance(impl[kk], list) and isinstance(one, list)
                            and partition(impl[kk]) != partition(one)], "stream": tag},
                      classes=classes)
        if len([v for v in ctx.violations if not v["classes"]]) >= 4:
            return


# ---------------------------------------------------------------------- streams c-rep / c'-rep: representation of attribute values and graphs
REP_BASES = ["size", "size", "big", "zero", "coarse", "sig", "empty", "pair", "none", "cls", "free", "free"]
FREE_VALUES = [0, 0, 1, 2, 10, 2500, "", "0", "a", None]     # "free": no function of the graph - class mates get different values


def rep_base_value(cw, i, base):
    g = cw.graphs[i]
    if base == "size":
        return g.number_of_nodes()
    if base == "big":                                  # multi-digit, beyond the small alphabet
        return 2500 * g.number_of_nodes() + 50 * g.number_of_edges() + 1
    if base == "zero":                                 # falsy but legal
        return 0
    if base == "coarse":                               # does not separate the classes much
        return g.number_of_nodes() // 3
    if base == "cls":                                  # 0 for the first class: falsy for some records only
        return cw.cls_default[i]
    if base == "sig":
        return cw.sig[i]
    if base == "empty":
        return ""
    if base == "pair":
        return sorted([g.number_of_nodes(), g.number_of_edges()])
    if base == "none":
        return None
    raise AssertionError(base)


def rep_spec(rnd, v, plain=0.35, nan=0.0):
    """one spelling of the canonical value v"""
    if v is None:
        return {"v": None, "as": rnd.choice(["none", "missing"])}
    if isinstance(v, str):
        return {"v": v, "as": "str" if rnd.random() < 0.6 else "np.str_"}
    if isinstance(v, list):
        return {"v": v, "as": "list", "el": [rnd.choice(["int", "float", "np.int64", "np.float64"]) for _ in v]}
    if rnd.random() < nan:
        return {"v": None, "as": rnd.choice(["nan", "math.nan", "math.nan", "np.nan"])}
    kinds, w = list(NUM_KINDS), list(NUM_WEIGHTS)
    if v == 0:
        kinds.append("neg_zero")
        w.append(2)
    return {"v": v, "as": "int" if rnd.random() < plain else rnd.choices(kinds, weights=w)[0]}


def rep_gspec(rnd):
    return {"offset": rnd.choice([0, 0, 1, 100]), "reverse": rnd.random() < 0.5,
            "charge": [rnd.choice(["int", "float", "np.int64", "np.float64"]) for _ in range(rnd.randint(1, 3))],
            "order": [rnd.choice(["float", "int", "np.float64", "np.float32", "np.int64"]) for _ in range(rnd.randint(1, 3))],
            "element": [rnd.choice(["str", "np.str_"]) for _ in range(rnd.randint(1, 2))],
            "extras": rnd.random() < 0.5}


def rep_attr_mode(rnd, cw, items, templates=(), base=None):
    base = base or rnd.choice(REP_BASES)
    nan = 0.3 if (base in ("size", "coarse", "zero", "free") and rnd.random() < 0.3) else 0.0
    value = (lambda i: rnd.choice(FREE_VALUES)) if base == "free" else (lambda i: rep_base_value(cw, i, base))
    mode = {"base": base,
            "rep": {"data": [rep_spec(rnd, value(i), nan=nan) for i in items],
                    "templates": [rep_spec(rnd, value(i)) for i, _ in templates]},
            "opts": {"reuse_instance": rnd.random() < 0.4, "reuse_records": rnd.random() < 0.3,
                     "call_order": rnd.choice(["asc", "asc", "desc", "mid"])}}
    if rnd.random() < 0.4:
        mode["graphs"] = {"data": [rep_gspec(rnd) if rnd.random() < 0.7 else None for _ in items],
                          "templates": [rep_gspec(rnd) if rnd.random() < 0.7 else None for _ in templates]}
    return mode


def gen_cluster_rep_case(rnd, cw, nR, max_n=8):
    """items with look-alikes: members of one isomorphism class at several positions (repeats and class mates), so that
    two equal attribute values of different print meet inside one class"""
    cfg = "default" if rnd.random() < 0.75 else "element"
    cls = cw.cls_default if cfg == "default" else cw.cls_elem
    members = {}
    for i, c in enumerate(cls):
        members.setdefault(c, []).append(i)
    n = rnd.randint(3, max_n)
    items = []
    while len(items) < n:
        x = rnd.random()
        if items and x < 0.3:
            items.append(rnd.choice(items))                                 # the same reaction centre again
        elif items and x < 0.55:
            items.append(rnd.choice(members[cls[rnd.choice(items)]]))       # a class mate
        else:
            items.append(rnd.randrange(nR))
    rnd.shuffle(items)
    return (items, rep_attr_mode(rnd, cw, items), cfg)


def gen_cluster_t_rep_case(rnd, cw, nR):
    """a c' case (initial template library) whose attribute is re-spelled per record and per template"""
    case = gen_cluster_t_case(rnd, cw, nR)
    base = {"none": "none", "sig": "sig", "size": rnd.choice(["size", "big"])}[case["attr"]]
    if rnd.random() < 0.25:
        base = "free"
    case["attr"] = rep_attr_mode(rnd, cw, case["items"], [tuple(t) for t in case["templates"]], base=base)
    case["attr"]["opts"] = {}                                              # c' builds fresh records for every call
    return case


# ---------------------------------------------------------------------- stream c': fit with an initial template library
def canon_labels(seq, keep):
    """Class labels up to what the property fixes: a label of the initial library stays itself (the item was put into
    that existing class), every other label is a NEW class and only its pattern of repeats counts."""
    first, out = {}, []
    for pos, l in enumerate(seq):
        if l is None:
            out.append(["none", pos])
        elif l in keep:
            out.append(["t", l])
        else:
            out.append(["n", first.setdefault(l, len(first))])
    return out


def gen_cluster_t_case(rnd, cw, nR):
    n = 0 if rnd.random() < 0.08 else rnd.randint(1, 7)
    base = [rnd.randrange(nR) for _ in range(n)]
    items = [rnd.choice(base) for _ in range(n)] if (n and rnd.random() < 0.5) else base
    attr_mode = rnd.choice(["none", "sig", "size"])
    cfg = "default" if rnd.random() < 0.7 else "element"
    cls = cw.cls_default if cfg == "default" else cw.cls_elem
    akey = lambda i: None if attr_mode == "none" else cluster_attr(cw, i, attr_mode)
    shape = rnd.choices(["library", "redundant", "foreign"], weights=[70, 15, 15])[0]
    m = rnd.randint(1, 4)
    pool = sorted(set(items))
    cands = []
    for _ in range(4 * m + 4):
        cands.append(rnd.choice(pool) if (pool and shape != "foreign" and rnd.random() < 0.65) else rnd.randrange(nR))
    seen, tidx = set(), []
    for i in cands:
        kk = (akey(i), cls[i])
        if kk in seen or (shape == "foreign" and i in pool):
            continue
        seen.add(kk)
        tidx.append(i)
        if len(tidx) == m:
            break
    if not tidx:
        tidx = [rnd.randrange(nR)]
    if shape == "redundant":
        tidx.insert(rnd.randint(0, len(tidx)), rnd.choice(tidx))      # a second representative of one class, other label
    labels = list(range(len(tidx))) if rnd.random() < 0.4 else rnd.sample(range(0, 13), len(tidx))
    rnd.shuffle(labels)
    return {"stream": "cluster_t", "items": items, "attr": attr_mode, "config": cfg, "shape": shape,
            "templates": [[i, l] for i, l in zip(tidx, labels)]}


def run_cluster_templates(ctx, cw, cases, tag):
    """`BatchCluster.fit(data, templates, batch_size=k)` with a NON-empty initial library: one shot (batch_size=None:
    the single-batch `cluster` branch of `fit`) vs every batch size, vs the Lean model (`batched_cluster_eq_oneshot_templates`)."""
    for case in cases:
        items, attr_mode, cfg = case["items"], case["attr"], case["config"]
        templates = [tuple(t) for t in case["templates"]]
        keep = {l for _, l in templates}
        n = len(items)
        ks = [None] + list(range(1, n + 2)) + [0]
        impl = {k: cluster_impl(cw, items, attr_mode, cfg, k, templates=templates, full=True) for k in ks}
        ans = ctx.lean().ok([cluster_model_req(cw, items, attr_mode, cfg, k, True, templates) for k in ks])
        model = dict(zip(ks, ans))

        def view(x):
            if isinstance(x, str):
                return x
            labels, tout = x
            return {"labels": canon_labels(list(labels) + [l for _, l in tout], keep)[:len(labels)],
                    "library_labels": canon_labels(list(labels) + [l for _, l in tout], keep)[len(labels):],
                    "initial_library_kept": [list(t) for t in tout[:len(templates)]] == [list(t) for t in templates]}

        def mview(m):
            if "ok" not in m:
                return m["err"]
            tl = [t[3] for t in (m.get("templates") or [])]
            c = canon_labels(list(m["ok"]) + tl, keep)
            return {"labels": c[:len(m["ok"])], "library_labels": c[len(m["ok"]):], "initial_library_kept": True}
        vi = {k: view(impl[k]) for k in ks}
        vm = {k: mview(model[k]) for k in ks}
        one = vm[None]
        hit = sum(1 for x in one["labels"] if x[0] == "t") if isinstance(one, dict) else 0
        new = len({x[1] for x in one["labels"] if x[0] == "n"}) if isinstance(one, dict) else 0
        ctx.count(f"c':config={cfg}")
        ctx.count(f"c':attr={attr_name(attr_mode)}")
        vis = 0
        if not isinstance(attr_mode, str):
            # an item and the template of its class whose equal attribute values print differently, or two such items
            cls = cw.cls_default if cfg == "default" else cw.cls_elem
            for p_, i in enumerate(items):
                sp = attr_spec(attr_mode, "data", p_)
                for q_, (j, _) in enumerate(templates):
                    sq = attr_spec(attr_mode, "templates", q_)
                    if cls[i] == cls[j] and rep_key(sp, "data", p_) == rep_key(sq, "templates", q_) and \
                            repr(rep_value(sp)) != repr(rep_value(sq)):
                        vis += 1
            vis += rep_visible_pairs(cw, items, attr_mode, cfg)
            ctx.count("c'-rep:cases", 1)
            ctx.count("c'-rep:cases_with_equal_values_of_different_print_in_one_class", 1 if vis else 0)
            ctx.count(f"c'-rep:base={attr_mode.get('base', '?')}")
            for sp in attr_mode["rep"]["data"] + attr_mode["rep"]["templates"]:
                ctx.count(f"c'-rep:value_kind={sp['as']}")
        ctx.count(f"c':library_shape={case.get('shape', '?')}")
        ctx.count(f"c':library_size={len(templates)}")
        ctx.count(f"c':data_size={n if n < 2 else ('2-4' if n <= 4 else '5-7')}")
        ctx.count("c':fit_calls", len(ks))
        ctx.count("c':items_put_into_a_class_of_the_initial_library", hit)
        ctx.count("c':new_classes", new)
        ctx.case(["cluster_t", items, attr_mode, cfg, case["templates"]],
                 n >= 2 and hit >= 1 and new >= 1 and (isinstance(attr_mode, str) or vis >= 1),
                 sample={"stream": "c':" + tag, **{k: case[k] for k in ("items", "attr", "config", "templates")},
                         "one_shot": impl[None] if not isinstance(impl[None], str) else impl[None]}
                 if n <= 4 and want_sample(ctx, "c':", 1) else None)
        bad = None
        for k in ks:
            if vi[k] != vi[None] and k is not None and not (k < 1):
                bad = (k, "batched call differs from the one-shot call on the same data and the same initial templates", vi[k], vi[None])
                break
        if bad is None:
            for k in ks:
                if vi[k] != vm[k]:
                    bad = (k, "BatchCluster.fit with initial templates differs from the model (classes by the proven isomorphism engine)",
                           vi[k], vm[k])
                    break
        if bad is None:
            continue
        k, what, got, want = bad
        ctx.violation(what, {**case, "reactions": [cw.rsmi[i] for i in items],
                             "template_reactions": [cw.rsmi[i] for i, _ in templates]},
                      {"batch_size": k, "impl": got, "expected": want, "raw_impl": impl[k] if isinstance(impl[k], str) else list(impl[k]),
                       "raw_one_shot": impl[None] if isinstance(impl[None], str) else list(impl[None]), "stream": tag})
        if nviol(ctx) >= 4:
            return


# ====================================================================== stream d: joblib validation / balance
def run_validation(ctx, reactions, rnd, n):
    from synkit.Chem.Reaction.aam_validator import AAMValidator
    from synkit.Chem.Reaction.balance_check import BalanceReactionCheck
    idx = [rnd.randrange(len(reactions)) for _ in range(n)]
    data = []
    for j, i in enumerate(idx):
        r = reactions[i]
        other = reactions[idx[(j + 1) % len(idx)]]
        data.append({"ground_truth": r, "same": r, "other": other if rnd.random() < 0.5 else r, "n": j})
    outs = {}
    for nj in (1, 4):
        with quiet_stderr():
            outs[nj] = AAMValidator.validate_smiles([dict(d) for d in data], ground_truth_col="ground_truth",
                                                    mapped_cols=["same", "other"], check_method="RC", n_jobs=nj)
    ser = [AAMValidator.check_pair(d, c, "ground_truth", "RC", False, True) for c in ("same", "other") for d in data]
    ctx.count("d:validate_pairs", 2 * len(data))
    ctx.count("d:validate_true", sum(1 for x in ser if x))
    ctx.case(["validate", idx], True)
    flat = lambda o: [x for m in o for x in m["results"]]
    if outs[1] != outs[4] or flat(outs[1]) != ser:
        ctx.violation("validate_smiles: n_jobs=4 result differs from n_jobs=1 / from the serial pair-by-pair check",
                      {"stream": "validate", "data": data},
                      {"n_jobs_1": outs[1], "n_jobs_4": outs[4], "serial": ser})
    rx = []
    for j, i in enumerate(idx):
        r = reactions[i]
        if rnd.random() < 0.4:                     # unbalance: drop the last product fragment
            a, b = r.split(">>")
            if "." in b:
                r = a + ">>" + ".".join(b.split(".")[:-1])
        rx.append({"reactions": r, "n": j} if rnd.random() < 0.5 else r)
    res = {}
    for nj in (1, 4):
        with quiet_stderr():
            res[nj] = BalanceReactionCheck(n_jobs=nj).dicts_balance_check(list(rx))
    serial = [BalanceReactionCheck.rsmi_balance_check(x["reactions"] if isinstance(x, dict) else x) for x in rx]
    ctx.count("d:balance_reactions", len(rx))
    ctx.count("d:balance_balanced", sum(1 for x in serial if x))
    ctx.case(["balance", rx], True)
    want_b = [{"balanced": True, **(x if isinstance(x, dict) else {"reactions": x})} for x, s in zip(rx, serial) if s]
    want_u = [{"balanced": False, **(x if isinstance(x, dict) else {"reactions": x})} for x, s in zip(rx, serial) if not s]
    if res[1] != res[4] or list(res[1]) != [want_b, want_u]:
        ctx.violation("dicts_balance_check: n_jobs=4 result differs from n_jobs=1 / from the serial reaction-by-reaction check",
                      {"stream": "balance", "data": rx}, {"n_jobs_1": res[1], "n_jobs_4": res[4]})


# ---------------------------------------------------------------------- stream d': input forms and options of the joblib front ends
def outcome(fn):
    """value, or the name of the exception (the error paths are part of 'parallel == serial' too)"""
    try:
        return {"ok": fn()}
    except Exception as e:  # noqa
        return {"error": type(e).__name__}


def remap_rsmi(rnd, r):
    """the same mapped reaction with the atom-map numbers renamed consistently (an equivalent mapping)"""
    import re
    nums = sorted({int(x) for x in re.findall(r":(\d+)\]", r)})
    perm = list(nums)
    rnd.shuffle(perm)
    ren = dict(zip(nums, perm))
    return re.sub(r":(\d+)\]", lambda m: ":%d]" % ren[int(m.group(1))], r)


BAD_RSMI = ["C(C>>CC", "", "CC", "xyz>>abc", "[CH3:1][OH:2]>>[CH3:1]("]


def gen_validate_case(rnd, reactions, form):
    method = rnd.choice(["RC", "ITS", "rc"])
    ign_arom = rnd.random() < 0.4
    ign_taut = rnd.random() < 0.6
    gt = rnd.choice(["ground_truth", "gt"])
    idx = [rnd.randrange(len(reactions)) for _ in range(rnd.randint(1, 5 if ign_taut else 3))]
    rows = []
    for j, i in enumerate(idx):
        r = reactions[i]
        rows.append({gt: r if rnd.random() < 0.9 else rnd.choice(BAD_RSMI), "same": r, "remap": remap_rsmi(rnd, r),
                     "other": reactions[idx[(j + 1) % len(idx)]], "broken": rnd.choice(BAD_RSMI) if rnd.random() < 0.5 else r,
                     "n": j})
    cols = rnd.sample(["same", "remap", "other", "broken"], rnd.randint(1, 3))
    return {"stream": "validate_opt", "form": form, "rows": [] if form == "empty" else rows, "ground_truth_col": gt, "mapped_cols": cols,
            "check_method": method, "ignore_aromaticity": ign_arom, "ignore_tautomers": ign_taut}


def eval_validate_case(ctx, case, jobs=(1, 4)):
    import pandas as pd
    from synkit.Chem.Reaction.aam_validator import AAMValidator
    form, rows, gt, cols = case["form"], case["rows"], case["ground_truth_col"], case["mapped_cols"]
    method, ign_arom, ign_taut = case["check_method"], case["ignore_aromaticity"], case["ignore_tautomers"]

    def make():
        if form == "dataframe":
            return pd.DataFrame([dict(d) for d in rows])
        if form == "tuple":
            return tuple(dict(d) for d in rows)
        return [dict(d) for d in rows]
    outs = {}
    for nj in jobs:
        with quiet_stderr():
            outs[nj] = outcome(lambda: AAMValidator.validate_smiles(make(), ground_truth_col=gt, mapped_cols=list(cols), check_method=method,
                                                                    ignore_aromaticity=ign_arom, n_jobs=nj, ignore_tautomers=ign_taut))
    ser = {c: [AAMValidator.check_pair(d, c, gt, method, ign_arom, ign_taut) for d in rows] for c in cols}
    ctx.count(f"d':validate_input={form}")
    ctx.count(f"d':validate_method={method},ignore_aromaticity={ign_arom},ignore_tautomers={ign_taut}")
    ctx.count("d':validate_pairs", len(rows) * len(cols))
    ctx.count("d':validate_true", sum(1 for c in cols for x in ser[c] if x is True))
    ctx.count("d':validate_false_or_none", sum(1 for c in cols for x in ser[c] if x is not True))
    ctx.count("d':validate_outcome=" + ("value" if "ok" in outs[jobs[0]] else outs[jobs[0]]["error"]))
    ctx.case(["validate_opt", case], True)
    bad = None
    for nj in jobs[1:]:
        if outs[nj] != outs[jobs[0]]:
            bad = f"n_jobs={nj} outcome differs from n_jobs={jobs[0]}"
    if bad is None:
        if form == "tuple" or not rows:
            if "ok" in outs[jobs[0]] and form == "tuple":
                bad = "an input that is neither a DataFrame nor a list was accepted"
        elif "ok" in outs[jobs[0]]:
            got = outs[jobs[0]]["ok"]
            if [m["mapper"] for m in got] != list(cols):
                bad = "mappers of the result differ from mapped_cols"
            elif any(list(m["results"]) != ser[m["mapper"]] for m in got):
                bad = "results differ from the serial pair-by-pair check of the same rows"
            elif any(m["accuracy"] != round(100 * (sum(ser[m["mapper"]]) / len(rows)), 2) for m in got):
                bad = "accuracy is not the share of True results"
        elif all(x is not None for c in cols for x in ser[c]):
            bad = f"raised {outs[jobs[0]]['error']} although every pair evaluates serially"
    if bad:
        ctx.violation("validate_smiles: " + bad, dict(case), {"outcomes": {str(k): v for k, v in outs.items()}, "serial": ser})


def gen_balance_case(rnd, reactions, bform, raising, force=False):
    col = rnd.choice(["reactions", "rsmi"])
    rx = []
    for j in range(rnd.randint(0 if bform == "list" else 1, 6)):
        r = reactions[rnd.randrange(len(reactions))]
        x = rnd.random()
        if x < 0.3:
            a, b = r.split(">>")
            if "." in b:
                r = a + ">>" + ".".join(b.split(".")[:-1])       # unbalanced: a product fragment dropped
        elif x < 0.45:
            r = rnd.choice(["C(C>>CC", "CC>>C(C", "xyz>>abc", "CC>>CC"])   # a side that RDKit cannot parse: formula ''
        elif raising and j == 0:
            r = "CCO"                                              # no '>>': the per-reaction check raises (in a worker)
        y = rnd.random()
        rx.append({col: r, "n": j} if y < 0.45 else ({"other_key": r} if y < 0.55 else r))
    if force:                       # every quick run holds a side RDKit cannot parse, a dict and a bare string
        rx.insert(rnd.randint(0, len(rx)), {col: rnd.choice(["C(C>>CC", "CC>>C(C"]), "n": 99})
        rx.insert(rnd.randint(0, len(rx)), reactions[rnd.randrange(len(reactions))])
    if bform == "str":
        inp = rx[0][col] if isinstance(rx[0], dict) and col in rx[0] else (rx[0] if isinstance(rx[0], str) else "CC>>CC")
    else:
        inp = rx
    return {"stream": "balance_opt", "form": bform, "input": inp, "rsmi_column": col}


def eval_balance_case(ctx, case, jobs=(1, 4)):
    from synkit.Chem.Reaction.balance_check import BalanceReactionCheck
    bform, inp, col = case["form"], case["input"], case["rsmi_column"]
    if bform == "str":
        norm = [{col: inp}]
    else:
        norm = [x if isinstance(x, dict) else {col: x} for x in inp if isinstance(x, str) or col in x]
    res = {}
    for nj in jobs:
        with quiet_stderr():
            res[nj] = outcome(lambda: BalanceReactionCheck(n_jobs=nj).dicts_balance_check(
                tuple(inp) if bform == "tuple" else (inp if isinstance(inp, str) else [dict(x) if isinstance(x, dict) else x for x in inp]),
                rsmi_column=col))
    serial = outcome(lambda: [BalanceReactionCheck.rsmi_balance_check(d[col]) for d in norm])
    ctx.count(f"d':balance_input={bform}")
    ctx.count(f"d':balance_rsmi_column={col}")
    ctx.count("d':balance_reactions", len(norm))
    ctx.count("d':balance_outcome=" + ("value" if "ok" in res[jobs[0]] else res[jobs[0]]["error"]))
    ctx.case(["balance_opt", case], True)
    bad = None
    for nj in jobs[1:]:
        if res[nj] != res[jobs[0]]:
            bad = f"n_jobs={nj} outcome differs from n_jobs={jobs[0]}"
    if bad is None:
        if bform == "tuple":
            if "ok" in res[jobs[0]]:
                bad = "an input that is neither a string nor a list was accepted"
        elif "ok" in serial:
            want_b = [{"balanced": True, **d} for d, ok in zip(norm, serial["ok"]) if ok]
            want_u = [{"balanced": False, **d} for d, ok in zip(norm, serial["ok"]) if not ok]
            if "ok" not in res[jobs[0]] or [list(x) for x in res[jobs[0]]["ok"]] != [want_b, want_u]:
                bad = "result differs from the serial reaction-by-reaction check"
        elif "ok" in res[jobs[0]]:
            bad = f"returned a result although the serial check of some reaction raises {serial['error']}"
    if bad:
        ctx.violation("dicts_balance_check: " + bad, dict(case), {"outcomes": {str(k): v for k, v in res.items()}, "serial": serial})


def run_validation_options(ctx, reactions, rnd, n_cases, jobs=(1, 4)):
    """`validate_smiles` / `dicts_balance_check` through every documented input form (list of dicts, pandas DataFrame;
    single string, list of strings / dicts, other column names), the per-pair options (check_method, ignore_aromaticity,
    ignore_tautomers), rows that cannot be parsed, empty and ill-typed inputs: every worker count gives the outcome of
    the serial pair-by-pair / reaction-by-reaction evaluation (value or raised error kind)."""
    for ci in range(n_cases):
        form = ["dataframe", "list", "dataframe", "empty", "tuple"][ci] if ci < 5 else rnd.choice(["dataframe", "dataframe", "list"])
        eval_validate_case(ctx, gen_validate_case(rnd, reactions, form), jobs)
        bform = ["str", "tuple", "list", "str"][ci] if ci < 4 else rnd.choice(["str", "list", "list", "list"])
        raising = ci == n_cases - 1 or rnd.random() < 0.04          # rare: a task that raises costs the worker pool
        eval_balance_case(ctx, gen_balance_case(rnd, reactions, bform, raising, force=(ci == 2)), jobs)


# ====================================================================== stream e: SynCRN
CRN_RULES = [
    "[CH3:1][C:2](=[O:3])[OH:4].[CH3:5][OH:6]>>[CH3:1][C:2](=[O:3])[O:6][CH3:5].[OH2:4]",
    "[CH3:1][CH2:2][OH:3]>>[CH2:1]=[CH2:2].[OH2:3]",
    "[CH2:1]=[CH2:2].[OH2:3]>>[CH3:1][CH2:2][OH:3]",
]
CRN_SEEDS = ["CC(=O)O", "CO", "CCO", "CCC(=O)O", "O", "C=C", "CCCO"]


def crn_key(G):
    lab = lambda n: G.nodes[n].get("smiles_nomap", G.nodes[n].get("smiles"))
    species = sorted(lab(n) for n, d in G.nodes(data=True) if d.get("kind") == "species")
    rx = []
    for n, d in G.nodes(data=True):
        if d.get("kind") != "rxn":
            continue
        rx.append([d.get("rule_index"), d.get("step"), sorted(lab(u) for u in G.predecessors(n)),
                   sorted(lab(v) for v in G.successors(n))])
    return {"species": species, "reactions": sorted(rx, key=json.dumps)}


def run_crn(ctx, rnd, n):
    from synkit.CRN.DAG.syncrn import SynCRN
    for _ in range(n):
        rules = rnd.sample(CRN_RULES, rnd.randint(2, 3))
        seeds = rnd.sample(CRN_SEEDS, rnd.randint(3, 5))
        repeats = rnd.randint(1, 2)
        keys = {}
        for par in (False, True):
            crn = SynCRN(rules=list(rules), repeats=repeats, implicit_temp=True, explicit_h=False)
            with quiet_stderr():
                G = crn.build(list(seeds), parallel=par, max_workers=3)
            keys[par] = crn_key(G)
        ctx.count("e:crn_builds", 2)
        ctx.count("e:crn_reaction_nodes", len(keys[False]["reactions"]))
        ctx.case(["crn", rules, seeds, repeats], len(keys[False]["reactions"]) >= 1,
                 sample={"stream": "e", "rules": rules, "seeds": seeds, "repeats": repeats,
                         "n_reactions": len(keys[False]["reactions"])} if want_sample(ctx, "e", 1) else None)
        if keys[False] != keys[True]:
            ctx.violation("SynCRN.build(parallel=True) builds a different network than parallel=False",
                          {"stream": "crn", "rules": rules, "seeds": seeds, "repeats": repeats},
                          {"serial": keys[False], "parallel": keys[True]})


# ---------------------------------------------------------------------- stream e': options, worker counts and entry points of SynCRN
CRN_RULE3 = "[CH3:1][C:2](=[O:3])[OH:4].[CH3:5][OH:6].[OH2:7]>>[CH3:1][C:2](=[O:3])[O:6][CH3:5].[OH2:4].[OH2:7]"


CRN_PRESETS = [
    {"opts": {"use_frontier": False, "strategy": "all"}, "rule3": True, "entry": "class", "seeds": ["CC(=O)O", "CO", "O", "CCO"]},
    {"opts": {"dedup_delta": False, "keep_aam": False}, "rule3": False, "entry": "function", "seeds": ["C=C", "O", "CCO", "C(C"]},
    {"opts": {"dedup_across_rules": True, "use_frontier": False, "max_components": 2}, "rule3": True, "entry": "function",
     "seeds": ["CC(=O)O", "CO", "CCO"]},
    {"opts": {"max_tasks_per_step": 3, "max_mixtures_per_rule_step": 2}, "rule3": True, "entry": "class",
     "seeds": ["CC(=O)O", "CO", "O", "CCO", "C=C"]},                       # the caps cut the task lists short
]


def gen_crn_opt_case(rnd, preset=None):
    c = gen_crn_opt_case_random(rnd)
    if preset is not None:             # quick runs always hold these option vectors; the rest of the case stays random
        c["opts"].update(preset["opts"])
        c["opts"]["repeats"] = max(2, c["opts"]["repeats"])
        c["entry"] = preset["entry"]
        c["rules"] = list(CRN_RULES) + ([CRN_RULE3] if preset["rule3"] else [])
        c["seeds"] = list(preset["seeds"])
        if "max_tasks_per_step" not in preset["opts"]:
            c["opts"].pop("max_tasks_per_step", None)
    return c


def gen_crn_opt_case_random(rnd):
    rules = rnd.sample(CRN_RULES, rnd.randint(1, 3))
    if rnd.random() < 0.35:
        rules.insert(rnd.randint(0, len(rules)), CRN_RULE3)             # three components: the k-ary mixture iterator
    seeds = list(rnd.choice([["CC(=O)O", "CO"], ["CCO"], ["C=C", "O"], ["CC(=O)O", "CO", "O"], []]))   # reactants of some rule
    seeds += [x for x in rnd.sample(CRN_SEEDS, rnd.randint(0, 4)) if x not in seeds]
    if not seeds:
        seeds = [rnd.choice(CRN_SEEDS)]
    rnd.shuffle(seeds)
    if rnd.random() < 0.3:
        seeds.insert(rnd.randint(0, len(seeds)), rnd.choice(["C(C", "xyz", ""]))   # unusable seed: skipped by _init_pool
    if rnd.random() < 0.3:
        seeds.append(rnd.choice(seeds))                                  # repeated seed
    opts = {"repeats": rnd.randint(1, 3), "implicit_temp": True, "explicit_h": False}
    if rnd.random() < 0.5:
        opts["strategy"] = rnd.choice(["all", "bt", "comp"])
    if rnd.random() < 0.35:
        opts["use_frontier"] = False
    if rnd.random() < 0.3:
        opts["dedup_delta"] = False
    if rnd.random() < 0.3:
        opts["dedup_across_rules"] = True
    if rnd.random() < 0.3:
        opts["keep_aam"] = False
    if rnd.random() < 0.2:
        opts.update(allow_empty_side=True, skip_no_change=rnd.random() < 0.5)
    if rnd.random() < 0.25:
        opts["max_components"] = rnd.choice([1, 2])
    if rnd.random() < 0.15:
        opts["max_tasks_per_step"] = rnd.choice([1, 2, 3])               # 1: a single task never starts a pool
    return {"stream": "crn_opt", "rules": rules, "seeds": seeds, "opts": opts,
            "max_workers": rnd.choice([1, 2, 2, 3, 4, None]), "entry": rnd.choice(["class", "function"])}


def crn_build(case, parallel):
    from synkit.CRN.DAG.syncrn import SynCRN, build_syncrn_from_smarts
    if case["entry"] == "function":
        return build_syncrn_from_smarts(list(case["rules"]), list(case["seeds"]), parallel=parallel,
                                        max_workers=case["max_workers"], **case["opts"])
    return SynCRN(rules=list(case["rules"]), **case["opts"]).build(list(case["seeds"]), parallel=parallel,
                                                                  max_workers=case["max_workers"])


def run_crn_options(ctx, cases, tag):
    for case in cases:
        keys = {}
        for par in (False, True):
            with quiet_stderr():
                keys[par] = outcome(lambda: crn_key(crn_build(case, par)))
        nrx = len(keys[False]["ok"]["reactions"]) if "ok" in keys[False] else 0
        ctx.count("e':crn_builds", 2)
        ctx.count("e':crn_reaction_nodes", nrx)
        ctx.count(f"e':entry={case['entry']}")
        ctx.count(f"e':max_workers={case['max_workers']}")
        for k, v in sorted(case["opts"].items()):
            if k not in ("implicit_temp", "explicit_h"):
                ctx.count(f"e':{k}={v}")
        if CRN_RULE3 in case["rules"]:
            ctx.count("e':with_a_three_component_rule")
        ctx.case(["crn_opt", case], nrx >= 1,
                 sample={**case, "stream": "e':" + tag, "n_reactions": nrx} if want_sample(ctx, "e':", 1) else None)
        if keys[False] != keys[True]:
            ctx.violation("SynCRN.build(parallel=True) builds a different network than parallel=False", dict(case),
                          {"serial": keys[False], "parallel": keys[True], "stream": tag})


# ====================================================================== run / replay
def want_sample(ctx, prefix, limit):
    return sum(1 for x in ctx.samples if str(x.get("stream", "")).startswith(prefix)) < limit


def nviol(ctx):
    """violations that no known-finding class can select"""
    return sum(1 for v in ctx.violations if not v["classes"])


def load_regress():
    d = ROOT / "regress" / "C14"
    return [json.loads(f.read_text()) for f in sorted(d.glob("*.json"))] if d.exists() else []


def look_alike_pairs(subs):
    from rdkit import Chem
    from rdkit.Chem.rdMolDescriptors import CalcMolFormula
    by = {}
    for i, s in enumerate(subs):
        by.setdefault(CalcMolFormula(Chem.MolFromSmiles(s)), []).append(i)
    pairs = [list(p) for v in by.values() if len(v) >= 2 for p in itertools.combinations(v, 2)]
    return pairs


def run_one(ctx, case, tag):
    st = case.get("stream")
    if st == "heap":
        run_heap(ctx, [(case["cache_on"], case["cache_max"], case["prog"])], tag)
    elif st == "fit":
        rules, subs, _ = load_corpus()
        run_fit(ctx, FitWorld(rules, subs), [{k: v for k, v in case.items() if k not in ("substrates", "rules_rsmi")}], tag)
    elif st == "cluster":
        _, _, R = load_corpus()
        run_cluster(ctx, cluster_world(ctx, R), [(case["items"], case["attr"], case["config"])], tag)
    elif st == "validate_opt":
        eval_validate_case(ctx, case)
    elif st == "balance_opt":
        eval_balance_case(ctx, case)
    elif st == "fit_free":
        run_fit_free(ctx, [{k: v for k, v in case.items() if k != "substrates"}], tag)
    elif st == "fit_err":
        rules, subs, _ = load_corpus()
        run_fit_errors(ctx, FitWorld(rules, subs), [{k: v for k, v in case.items() if k != "data"}], tag)
    elif st == "crn_opt":
        run_crn_options(ctx, [{k: v for k, v in case.items()}], tag)
    elif st == "cluster_t":
        _, _, R = load_corpus()
        run_cluster_templates(ctx, cluster_world(ctx, R), [{k: v for k, v in case.items() if k not in ("reactions", "template_reactions")}], tag)
    elif st == "dedupe":
        from synkit.Synthesis.Reactor.batch_reactor import _dedupe
        got = list(_dedupe(list(case["xs"])))
        ctx.case(["dedupe", case["xs"]], True)
        if len(set(got)) != len(got) or set(got) != set(case["xs"]):
            ctx.violation("_dedupe does not return the distinct elements of its input exactly once", case, {"impl": got})
    else:
        raise ValueError(f"replay of stream {st!r} is not supported (re-run the check with the recorded seed)")


def run(ctx):
    import logging
    import warnings
    warnings.filterwarnings("ignore")
    logging.disable(logging.CRITICAL)
    try:
        from rdkit import RDLogger
        RDLogger.DisableLog("rdApp.*")
    except Exception:
        pass
    ctx.trusted = [
        "Lean 4.33 kernel; axioms of the property theorems as listed in obligation_list",
        "hand-written model SynKitModel/BatchCache.lean tied to /repo by the correspondence streams a, b, c (not by translation)",
        "Driver/BatchCache.lean JSON codec, harness/props/c14.py adapters; RDKit for the standardisation of reaction SMILES "
        "(only used when raw strings differ); the proven isoDecide engine (match.iso) as isomorphism oracle of stream c",
        "PARTIAL: joblib/loky, ProcessPoolExecutor: process start-up, pickling and scheduling are not modelled; streams b (n_jobs>1), d, e "
        "explore them on the implementation only",
    ]
    ctx.assumptions = [
        "graph objects are not edited while a cache entry computed from them exists (an id-keyed cache presumes it)",
        "cache_maxsize >= 1 when the cache is enabled (size 0 raises StopIteration on both trees: recorded as an observation, not gated)",
        "BatchReactor with react_engine 'syn' (the 'mod' engine needs the external package `mod`, not installed); with a "
        "pre_filter_engine the reference is the implementation itself on the one-entry batch (the Lean fit model has no pre-filter)",
        "clustering attributes are strings, numbers (int / float / numpy scalars; NaN equal to nothing), None or absent, or "
        "lists of numbers given in sorted order (list-valued attributes are sorted by the one-shot path only; a tuple and a list "
        "with the same members are equal for the one-shot path only - not generated); bool is not mixed with int",
        "b-err: which of several ill-formed members of one batch determines the raised error is not fixed by the property (any of "
        "them is accepted); the documented error types (KeyError / TypeError / ValueError) are counted, not gated",
        "d', e' and the n_jobs>1 part of b-err have no Lean model: the reference is the property's own right-hand side (the serial "
        "pair-by-pair / reaction-by-reaction / parallel=False evaluation, the member alone) computed in-process",
        "c': a template library with two isomorphic representatives under different labels is resolved 'first in list order' by the "
        "code and by the model alike; the property itself only demands batched == one shot",
    ]
    ctx.gen_rule = (
        "regression corpus first. (a) ALL programs over an 8-op alphabet (2 substrate slots, contents, forced identity reuse, free, "
        "call fw/bw) to depth 4 (quick) / 5 (thorough) at cache sizes 1 and 8, plus random programs (<=60 ops, 6 slots, 3 rule objects, "
        "cache off / sizes 1,2,3,8,big). (b) random batches (1..7 entries; repeated and same-formula look-alike substrates from "
        "corpus/c14_substrates.json; 1..5 templates from corpus/c14_templates.json, repeated rules; 1-2 fits per reactor; both "
        "directions; rules as strings or graphs, handed over as list / tuple / generator / iter() / map()) x cache on/off x cache_maxsize {1,2,3,big} x dedupe x entry_n_jobs {1; 2,4; 8 thorough}. "
        "(b') the constructor's option space: rule lists of every length 1..7 built so that each rule converts some substrate of the "
        "batch (substrates picked from the template's hit list; repeated / look-alike / inert extras), x effective rule workers "
        "{2,3,4} (parallel_rules, entry_n_jobs in {0,1}), nested (entry_n_jobs 2-3 x rule_n_jobs 2-4, allow_nested), entry workers "
        "with the rule-level request disabled by either flag, and one-process settings of all flags (worker counts 0/-1 included) "
        "x cache on/off x cache_maxsize {1,2,3,big} x dedupe x rules as strings / fresh graphs / graph objects shared between "
        "fits / mixed x semantic options (explicit_h, implicit_temp, strategy bt/all/comp) x pre-filter {none, turbo, sing, nx}; "
        "1-3 fits per reactor (permuted, rotated, shortened, repeated, other direction, fresh list). "
        "(b-free) result function of one rule application = a random table over (substrate, rule content, direction) with 0..3 results from 6 "
        "codes; all 3^n rule lists, n <= 4 (thorough 5), over rule objects A, B, A' (A' equal to A in content) x dedupe x cache {off, 1, 2, big} on the "
        "batch [s0, s1, s0]; random: 1..5 rule objects (contents colliding or not), 1..5 entries of 8 small SMILES (repeats; 25% dicts, one "
        "dict object at several positions), 1..4 fits per reactor, rule lists [a..]*k, palindromes, random to 12 positions, follow-ups "
        "same / permuted / rotated / doubled / shortened / other direction, list / tuple / generator / iter / map, one list object for "
        "equal lists, 0..2 diagnostic calls before a fit, cache off / 1,2,3,4,7,big, one-process spellings of the worker options; "
        "2 (thorough 20) cases with 257..330 positions. (b'') pivot substrate converted by >= 2 templates, rule-list patterns aa, aba, abab, abba, "
        "abca, ... and random ones with repeats to length 5 (thorough 7), rules as shared graph objects (mostly) / shared objects mixed with "
        "strings / fresh graphs / strings, cache on 85%, dedupe off 65%, 1..3 fits; all lists to length 3 (thorough 4, and 3 objects) over two "
        "shared objects x dedupe x cache {big, 1; thorough also off}; thorough: the same with rule / entry / nested workers. "
        "(c) random item lists (3..9 reaction centres of corpus/c14_reactions.json, with repeats) x attribute {none, element signature, "
        "size} x matcher config {default, element-only}, every batch size 1..N+1, 0, -1 and one shot; templates [] and None. "
        "(c-rep) 3..8 (thorough: also ..14) items built from repeats and isomorphism-class mates x attribute base {node count, "
        "2500*nodes+50*edges+1, 0, nodes//3, class number, element signature, '', sorted [nodes, edges], None, free = drawn per "
        "record from {0, 1, 2, 10, 2500, '', '0', 'a', None} so that class mates carry different values} with every record's value "
        "spelled independently {int, float, numpy int64/int32/float64/float32, -0.0; str, numpy.str_; key absent, None; list members "
        "int/float/numpy}, some NaN; 40%: graphs as relabelled / reversed copies with charge, bond-order members and element re-typed "
        "per node / edge and unselected extra attributes (label, name, id, weight, capacity); one BatchCluster instance and/or one "
        "record list used for all batch sizes, call order asc / desc / one shot in the middle. (c'-rep) the c' cases with data and "
        "template attributes re-spelled the same way. "
        "(b-err) batches of 1..6 entries (valid corpus substrates as strings / dicts) with 1-2 ill-formed members {unparsable SMILES, "
        "non-string, dict without key, dict with non-string value, dict without host_key} at first / middle / last position, or a rule list "
        "with a non-rule (int, None, float, list, unparsable / arrow-less / empty string) at a random position, optionally followed by a good "
        "fit; entry_n_jobs 1 (mostly) and 2. (c') 0..7 items x library of 1..5 templates (70% one representative per class, 15% with a "
        "redundant representative, 15% foreign to the data; labels contiguous or sparse) x attribute x matcher config, every batch size. "
        "(d) n_jobs 1 vs 4. (d') input forms {DataFrame, list, empty, tuple} x check_method {RC, ITS, rc} x ignore_aromaticity x "
        "ignore_tautomers x column names, rows with unparsable ground truth / mapped SMILES, remapped-but-equivalent mappings; balance "
        "input {single string, list of strings/dicts incl. dicts without the column, tuple} x rsmi_column, unparsable sides, a reaction "
        "without '>>'. (e) parallel vs serial. (e') option vectors as listed in the docstring, seeds containing the reactants of a rule.")
    ctx.nontrivial_rule = ("(a) >=2 calls and a release or an identity reuse; (b) >=2 entries and >=1 entry with products; (b') removing any single position of the first rule list changes the "
                           "reference result of some entry; (b-free), (b'') in some fit one rule OBJECT occupies >= 2 positions "
                           "and that rule alone gives results on some entry of the batch; (c) >=3 items, "
                           "2 <= #classes < #items; (c-rep) as (c) and two positions of one class whose attribute values are equal but print "
                           "differently (or whose graphs are differently typed copies); (c'-rep) as (c') and such a pair among items / templates; (b-err) >=2 entries or an ill-formed rule list; (c') >=2 items, >=1 item put into a class of "
                           "the initial library and >=1 new class; (d),(d'),(e) every case; (e') >=1 reaction node; distinct as JSON values")
    build_and_audit(ctx, ["SynKitProofs.Props.C14"], "SynKitProofs/Audit/C14.lean", THEOREMS)

    import time
    walls = {}
    t_mark = [ctx.t0]

    def lap(name):
        walls[name] = round(time.time() - t_mark[0], 1)
        t_mark[0] = time.time()
        ctx.extra["stream_wall_s"] = dict(walls)
    lap("build+audit")
    rules, subs, reactions = load_corpus()
    rnd = ctx.rnd
    # ---- regressions
    reg = load_regress()
    try:
        for c in reg:
            run_one(ctx, c, "regress")
    finally:
        shutdown_workers()
    ctx.count("regress_cases", len(reg))
    ctx.obligation("regression corpus regress/C14 replays clean", nviol(ctx) == 0)

    lap("regress")
    # ---- a
    alpha = heap_alphabet()
    depth = 4 if ctx.quick else 5
    cases = []
    for d in range(1, depth + 1):
        for seq in itertools.product(alpha, repeat=d):
            for mx in (1, 8):
                cases.append((True, mx, PREFIX + list(seq)))
    nrand = 400 if ctx.quick else 4000
    for _ in range(nrand):
        on = rnd.random() < 0.85
        cases.append((on, rnd.choice([1, 1, 2, 2, 3, 8, BIG]), heap_random(rnd, rnd.randint(6, 60))))
    run_heap(ctx, cases, "exhaustive+random")
    ctx.extra["exhaustive"] = False
    ctx.extra["exhaustive_part"] = f"stream a: all 8^d programs for d<={depth} at cache sizes 1 and 8"
    ctx.obligation("correspondence a: heap histories on _RuleApplier == Lean model of the repaired cache; every call == f(contents)",
                   nviol(ctx) == 0)
    # ungated observation: cache_maxsize=0
    try:
        st = impl_heap_run(True, 0, PREFIX + [alpha[5]])
        ctx.extra["observation_cache_maxsize_0"] = f"call outcome with cache_enabled=True, cache_maxsize=0: {st[-1]['out']!r} (model: StopIteration)"
    except Exception as e:  # noqa
        ctx.extra["observation_cache_maxsize_0"] = f"not evaluated: {e!r}"

    lap("a")
    # ---- b
    nb = nviol(ctx)
    b_ok = False
    world = FitWorld(rules, subs)
    pairs = look_alike_pairs(subs)
    ctx.count("b:look_alike_pairs_available", len(pairs))
    run_dedupe(ctx, rnd, 150 if ctx.quick else 1500)
    try:
        fcases = [gen_fit_case_productive(rnd, world, pairs, 1) if i % 3 else gen_fit_case(rnd, len(subs), len(rules), pairs)
                  for i in range(36 if ctx.quick else 400)]
        run_fit(ctx, world, fcases, "sequential")
        par = [2, 4, 2] if ctx.quick else [2, 4, 8, 2, 4, 8, 2, 4, 2, 4, 2, 4]
        pcases = [gen_fit_case_productive(rnd, world, pairs, 2, n_jobs=nj, max_batch=5, min_batch=3) for nj in par]
        if nviol(ctx) == nb:
            run_fit(ctx, world, pcases, "parallel")
        b_ok = nviol(ctx) == nb
        lap("b")
        nbe = nviol(ctx)
        ecases = [gen_fit_err_case(rnd, world, n_jobs=2) for _ in range(5 if ctx.quick else 40)] + \
                 [gen_fit_err_case(rnd, world) for _ in range(26 if ctx.quick else 400)]
        run_fit_errors(ctx, world, ecases, "ill-formed")
        ctx.obligation("correspondence b-err: a batch holding an entry that is no substrate (unparsable SMILES, wrong type, dict without "
                       "the key / without host_key), or a rule list holding a non-rule, raises as that member alone does - for 1 and 2 "
                       "entry workers; a good fit after a failed one == the rules applied alone", nviol(ctx) == nbe)
    finally:
        shutdown_workers()
    ctx.obligation("correspondence b: BatchReactor.fit per entry == rules applied to the substrate alone (via the Lean fit model)",
                   b_ok)

    lap("b-err")
    # ---- b': the whole option space of the constructor, rule lists of length 1..7 in which every rule matters
    nb2 = nviol(ctx)
    try:
        ocases = gen_opt_cases(rnd, world, pairs, ctx.quick)
        run_fit(ctx, world, ocases, "options")
    finally:
        shutdown_workers()
    ctx.obligation("correspondence b': BatchReactor.fit per entry == the rules applied to that substrate alone, for every setting of "
                   "entry_n_jobs / rule_n_jobs / parallel_rules / allow_nested / cache / dedupe / semantic options / pre-filter "
                   "(Lean fit model and a one-entry one-process cache-less reactor)", nviol(ctx) == nb2)
    lap("b'")
    # ---- c
    nc = nviol(ctx)
    cw = cluster_world(ctx, reactions)
    ctx.count("c:corpus_classes_default", len(set(cw.cls_default)))
    ctx.count("c:corpus_classes_element_only", len(set(cw.cls_elem)))
    ccases = []
    for _ in range(24 if ctx.quick else 240):
        n = rnd.randint(3, 9)
        base = [rnd.randrange(len(reactions)) for _ in range(n)]
        items = [rnd.choice(base) for _ in range(n)] if rnd.random() < 0.5 else base
        ccases.append((items, rnd.choice(["none", "sig", "size"]), "default" if rnd.random() < 0.75 else "element"))
    run_cluster(ctx, cw, ccases, "random")
    ctx.obligation("correspondence c: BatchCluster.fit partitions, every batch size == one shot == Lean model",
                   nviol(ctx) == nc)
    lap("c")
    nc2 = nviol(ctx)
    tcases = [gen_cluster_t_case(rnd, cw, len(reactions)) for _ in range(20 if ctx.quick else 400)]
    run_cluster_templates(ctx, cw, tcases, "random")
    ctx.obligation("correspondence c': BatchCluster.fit with a non-empty initial template library (and templates=None, batch_size<1): "
                   "every batch size == one shot == Lean model", nviol(ctx) == nc2)

    lap("c'")
    # ---- c-rep / c'-rep: the pre-filter attribute (and the graphs) spelled differently from record to record
    nc3 = nviol(ctx)
    rcases = [gen_cluster_rep_case(rnd, cw, len(reactions)) for _ in range(180 if ctx.quick else 1800)]
    if not ctx.quick:      # just beyond the sizes of stream c
        rcases += [gen_cluster_rep_case(rnd, cw, len(reactions), max_n=14) for _ in range(60)]
    run_cluster(ctx, cw, rcases, "representation")
    trcases = [gen_cluster_t_rep_case(rnd, cw, len(reactions)) for _ in range(60 if ctx.quick else 600)]
    if nviol(ctx) == nc3:
        run_cluster_templates(ctx, cw, trcases, "representation")
    ctx.obligation("correspondence c-rep / c'-rep: BatchCluster.fit when the pre-filter attribute values that are equal under == are "
                   "spelled differently from record to record (int / float / numpy scalars / -0.0, str / numpy.str_, key absent / None, "
                   "lists of mixed numbers, NaN) and the graphs are re-typed, relabelled copies; one BatchCluster / one record list "
                   "used for all calls, calls in several orders: every batch size == one shot == Lean model", nviol(ctx) == nc3)
    lap("c-rep")
    # ---- d, e (exploration of the runtime part)
    nd = nviol(ctx)
    try:
        for _ in range(1 if ctx.quick else 6):
            run_validation(ctx, reactions, rnd, 12 if ctx.quick else 24)
        lap("d")
        run_validation_options(ctx, reactions, rnd, 5 if ctx.quick else 60)
        if not ctx.quick:
            run_validation_options(ctx, reactions, rnd, 20, jobs=(1, 2))      # one change of the pool size only
    finally:
        shutdown_workers()
    ctx.obligation("exploration d: validate_smiles / dicts_balance_check, n_jobs=4 == n_jobs=1 == serial (every input form, "
                   "per-pair option, unparsable rows, empty / ill-typed input)", nviol(ctx) == nd)
    lap("d'")
    ne = nviol(ctx)
    run_crn(ctx, rnd, 2 if ctx.quick else 12)
    lap("e")
    run_crn_options(ctx, [gen_crn_opt_case(rnd, CRN_PRESETS[i] if i < len(CRN_PRESETS) else None) for i in range(10 if ctx.quick else 120)], "options")
    lap("e'")
    ctx.obligation("exploration e: SynCRN.build(parallel=True) == build(parallel=False) (strategy / frontier / de-duplication / "
                   "keep_aam / component and task caps, max_workers 1..4 and default, class and build_syncrn_from_smarts)",
                   nviol(ctx) == ne)
    lap("e-obligation")
    # ---- b-free, b'': one object at several positions of an input list.  (Last, so that the populations of the streams above
    # are, for every seed, what they were before these streams existed.)
    nbf = nviol(ctx)
    fcs = gen_free_exhaustive(rnd, 4 if ctx.quick else 5)
    ctx.count("b-free:exhaustive_cases", len(fcs))
    fcs += [gen_free_case(rnd) for _ in range(300 if ctx.quick else 6000)]
    bigs = [gen_free_case(rnd, big=True) for _ in range(2 if ctx.quick else 20)]
    run_fit_free(ctx, fcs, "exhaustive+random")
    if nviol(ctx) == nbf:                 # only when the short lists are clean (what breaks those may grow with the list length)
        run_fit_free(ctx, bigs, ">256 positions")
    ctx.obligation("correspondence b-free: the real BatchReactor.fit over a free result function (only the single rule application is "
                   "a table) == the rules applied to each substrate alone (Lean fit model / `single`): ALL rule lists to length "
                   f"{4 if ctx.quick else 5} over three rule objects (two equal in content) x dedupe x cache off/1/2/big, random sequences "
                   "of fits on one reactor with diagnostic calls in between, lists of > 256 positions", nviol(ctx) == nbf)
    lap("b-free")
    nb3 = nviol(ctx)
    try:
        scases = gen_same_exhaustive(rnd, world, 3 if ctx.quick else 4, caches=((True, BIG), (True, 1)) if ctx.quick else None)
        if not ctx.quick:
            scases += gen_same_exhaustive(rnd, world, 4, alphabet=3)
        ctx.count("b'':exhaustive_cases", len(scases))
        scases += [gen_same_case(rnd, world, pairs, max_len=5 if ctx.quick else 7) for _ in range(24 if ctx.quick else 600)]
        run_fit(ctx, world, scases, "same-object")
        if not ctx.quick and nviol(ctx) == nb3:       # with worker processes (b' has the worker settings of the quick tier)
            wopts = [{"n_jobs": 1, "parallel_rules": True, "rule_n_jobs": 2}, {"n_jobs": 2}] * 3 + \
                    [{"n_jobs": 1, "parallel_rules": True, "rule_n_jobs": 3}, {"n_jobs": 3},
                     {"n_jobs": 2, "parallel_rules": True, "rule_n_jobs": 2, "allow_nested": True}] * 2
            run_fit(ctx, world, [gen_same_case(rnd, world, pairs, o, max_len=5) for o in wopts], "same-object,workers")
    finally:
        shutdown_workers()
    ctx.obligation("correspondence b'': BatchReactor.fit per entry == the rules applied to that substrate alone (SynReactor table via "
                   "the Lean fit model) when ONE rule graph object occupies several positions of the rule list (the only way the "
                   "identity-keyed cache hits inside a fit), one entry dict object several positions of the batch, one rule-list "
                   "object is handed to several fits: all rule lists to length 3 (thorough: 4) over two shared rule objects that "
                   "both convert one substrate x dedupe x cache, and random ones", nviol(ctx) == nb3)
    lap("b''")
    ctx.extra["partial"] = ("process start-up, pickling and scheduling of worker processes are outside the model; "
                            "covered by exploration only (streams b with n_jobs>1, d, e)")


def replay(ctx, case):
    import logging
    import warnings
    warnings.filterwarnings("ignore")
    logging.disable(logging.CRITICAL)
    try:
        run_one(ctx, case["case"] if "case" in case else case, "replay")
    finally:
        shutdown_workers()

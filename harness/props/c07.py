"""C07 — isomorphism verdicts and embeddings are correct; pre-filters never change them.

Correspondence: `GraphMatcherEngine.isomorphic / get_mappings` (incl. the class-level WL cache, run as
query histories over shared graph objects), `SubgraphMatch.subgraph_isomorphism / is_subgraph`,
`graph_morphism.subgraph_isomorphism / graph_isomorphism` (real code, in-process) against the Lean
model `SynKitModel/GraphMatcherEngine.lean`, whose answers are proved (Props/C07.lean) to be the
specification (verdict <=> a label-preserving bijection / induced / monomorphic embedding exists;
embeddings valid, non-empty iff contained; filters sound; cache transparent).

Gates (only what C07 determines):
* verdicts impl == model;
* embeddings: VF2's enumeration order is not specified, so the returned list must be duplicate-free,
  consist of pattern->host induced embeddings (members of the model's complete set) and have the
  model's length (min(max_mappings, total); 1 in the equal-size shortcut; 0 iff not contained);
* every query of a history on shared graph objects is also compared with the cache-free answer;
* filter on == filter off, relabelled copies get the same verdict, symmetric under equal/absent hcount
  (metamorphic gates on the implementation itself, mirroring the theorems).

Streams added for anchor coverage (after the original ones, so the original draws are unchanged):
* `prefilter`: `SubgraphSearchEngine.find_subgraph_mappings(pre_filter=True/False)` — the anchored
  `_quick_pre_filter` — against the Lean model `SynKit.SubgraphSearch.search` (driver `c06.search`;
  theorems `prefilter_spec`, `prefilter_zero_sound`, `prefilter_zero_lossless`, `prefilter_sound_or_large`
  of Props/C06.lean).  Gate: result *set* impl == model with the filter off and with it on; a difference
  with the filter on is a violation of C07 (input reported) unless it lies inside the documented blow-up
  guard (candidate product, computed independently here, exceeds the threshold), where it is reported as
  a broken correspondence without input.
* `sub-options`: the boolean sub-graph tests with falsy / absent `edge_attribute`, other label
  selections and defaults, explicit comparators (`eq`-equivalent, or constant-true = attribute not
  selected) — expected verdicts from the Lean model under the translated selection.
* `degenerate`: empty graphs, a graph queried against itself, `node_attrs=None`, backend spelled
  `"NX"`, unsupported backends (must raise or answer as the model does).

Streams added for representation / scale (after all the others; the earlier draws are unchanged).  The model side is
computed per query from the encoded graphs alone (the Lean model is pure); `graphio` maps every Python spelling of a
number (int / float / numpy scalars) to one `Val.num` and every `str` subclass to one `Val.str`, so re-spelling a value
never changes what the specification says.  Violation cases carry a `types` table so that a replay rebuilds the very
Python objects (`to_nx` alone would give plain ints):
* `representation`: query histories over graphs whose numeric labels are spelled as int / float / numpy.int64 / int32 /
  float64 (uniformly per graph — graph A all ints, graph B all floats — or mixed value by value inside one graph), str
  labels partly as `numpy.str_`; richer selections (up to 7 node keys: element, charge, hcount, aromatic (bool), isotope
  (multi-digit), grp (tuple-valued, (1,2) next to (2,1) and ()), name ('' / 'a' / 'A' / 'a '), label present on nodes AND
  edges; permuted key lists, keys given as tuple), bond orders as strings ('-', '=', 'SINGLE', ...), falsy labels ('' as
  element, order 0, empty tuple), charges / hydrogen counts >= 10, unselected noise attributes (`weight`, `capacity`,
  `id`, `color`) with unrelated values on nodes and edges; symmetric skeletons where one value of one extra key breaks
  the symmetry; pairs: relabelled copy, one-edit (incl. an edit of an extra key), labels permuted over the same skeleton,
  strictly smaller planted pattern; further graph objects derived from a queried one (`copy()`, a re-spelled copy, an
  induced sub-graph); the same query repeated, a second engine object with the same configuration.
* `tiny-retyped`: pairs of the tiny-exhaustive classes with the second graph re-spelled, selections containing the numeric
  keys, filter off / on, both argument orders.
* `scale`: 9-12 nodes (one to four more than the random streams), node ids up to 10^6, max_mappings in {6, 10, 100}.
* `repr-sub` / `repr-giso` / `repr-search`: the boolean sub-graph tests, `graph_isomorphism` and
  `find_subgraph_mappings(pre_filter=..)` on the inputs of their own generators, re-spelled the same way.
"""
import json

import networkx as nx

from .. import graphio, matchgen
from ..core import ROOT, build_and_audit

THEOREMS = [
    "SynKit.GME.cache_transparent",
    "SynKit.GME.get_mappings_valid",
    "SynKit.GME.get_mappings_nonempty_iff_contained_partial",
    "SynKit.GME.isomorphic_sound",
    "SynKit.GME.isomorphic_iff_partial",
    "SynKit.GME.isomorphic_false_of_size",
    "SynKit.GME.isomorphic_relabel",
    "SynKit.GME.isomorphic_symm",
    "SynKit.GME.subgraph_induced_iff",
    "SynKit.GME.subgraph_mono_iff",
    "SynKit.GME.subgraph_filter_irrelevant",
    "SynKit.GME.filter_sound_sub",
    "SynKit.GME.filter_sound_size",
    "SynKit.GME.filter_sound_wl_base",
    "SynKit.GME.preCheck_sound_partial",
    "SynKit.GME.graph_isomorphism_iff",
    "SynKit.Match.isoDecide_iff",
    "SynKit.Match.mem_allInduced",
    "SynKit.Match.isoDecide_relabel_host",
    "SynKit.Match.isoDecide_relabel_pattern",
    "SynKit.Match.isoDecide_symm",
    "SynKit.Match.isoDecide_refl",
    "SynKit.GME.wl_refined_sound",
    "SynKit.GME.preCheck_sound",
    "SynKit.GME.get_mappings_nonempty_iff_contained",
    "SynKit.GME.isomorphic_iff",
    "SynKit.SubgraphSearch.prefilter_spec",
    "SynKit.SubgraphSearch.prefilter_zero_sound",
    "SynKit.SubgraphSearch.prefilter_zero_lossless",
    "SynKit.SubgraphSearch.prefilter_estimate_upper",
    "SynKit.SubgraphSearch.prefilter_fires_iff",
    "SynKit.SubgraphSearch.prefilter_sound_or_large",
]

NODE_ATTRS = [["element"], ["element", "charge"], ["element", "charge"], []]
EDGE_ATTRS = [["order"], ["order"], []]


# ---------------------------------------------------------------- implementation adapters
def mk_engine(cfg):
    from synkit.Graph.Matcher.graph_matcher import GraphMatcherEngine

    na, ea = list(cfg["node_attrs"]), list(cfg["edge_attrs"])
    kw = {}
    if "backend" in cfg:
        kw["backend"] = cfg["backend"]
    if cfg.get("none_for_empty"):  # the documented default `None` instead of an empty selection
        na, ea = (na or None), (ea or None)
    if cfg.get("attrs_as") == "tuple":  # the selections are documented as lists; a tuple may be refused, not answered differently
        na, ea = (None if na is None else tuple(na)), (None if ea is None else tuple(ea))
    return GraphMatcherEngine(node_attrs=na, edge_attrs=ea, wl1_filter=cfg["wl1_filter"],
                              max_mappings=cfg["max_mappings"], **kw)


def backend_supported(cfg):
    """Only the spelling "nx" is taken as certainly supported: C07 says nothing about back-end names, so for any other
    name (incl. "NX", which the engine lower-cases today) raising is accepted, and an answer is judged like any other."""
    return cfg.get("backend", "nx") == "nx" and not cfg.get("attrs_as")


# ---------------------------------------------------------------- representation of attribute values
# The protocol (graphio) identifies 1, 1.0, numpy.int64(1), numpy.float64(1.0) (one `Val.num`) and 'C', numpy.str_('C')
# (one `Val.str`), exactly the values Python's `==` / `hash` identify; bool stays apart.  A case that was evaluated with
# some other spelling than `graphio.to_nx` gives back carries a table of type tags, so that a replay rebuilds the objects.
def _np():
    import numpy
    return numpy


def tag_of(x):
    """Type tag of a value, None when `graphio.unval(graphio.val(x))` already has x's type."""
    np = _np()
    if x is None or isinstance(x, (bool, np.bool_)):
        return None
    if isinstance(x, np.str_):
        return "np.str_"
    if isinstance(x, str):
        return None
    if isinstance(x, np.generic):
        return "np." + type(x).__name__
    if isinstance(x, float):
        return "float" if x == int(x) else None
    if isinstance(x, tuple):
        ts = [tag_of(y) for y in x]
        return {"t": ts} if any(t is not None for t in ts) else None
    return None


def retag(x, t):
    if t is None:
        return x
    if isinstance(t, dict):
        return tuple(retag(y, u) for y, u in zip(x, t["t"]))
    if t == "float":
        return float(x)
    return getattr(_np(), t[3:])(x)


def plain(x):
    """The spelling `graphio.to_nx` produces."""
    try:
        return graphio.unval(graphio.val(x))
    except graphio.Unsupported:
        return x


def _tags(d):
    out = {}
    for k, x in d.items():
        t = tag_of(x)
        if t is not None:
            out[str(k)] = t
    return out


def types_of(g):
    ns = [[int(v), t] for v, t in ((v, _tags(d)) for v, d in g.nodes(data=True)) if t]
    es = [[int(u), int(v), t] for u, v, t in ((u, v, _tags(d)) for u, v, d in g.edges(data=True)) if t]
    return {"nodes": ns, "edges": es} if ns or es else None


def apply_types(g, ty):
    if ty:
        for v, t in ty.get("nodes", []):
            for k, u in t.items():
                g.nodes[v][k] = retag(g.nodes[v][k], u)
        for a, b, t in ty.get("edges", []):
            for k, u in t.items():
                g[a][b][k] = retag(g[a][b][k], u)
    return g


def typed(case, **gs):
    """Add the type table of the named graphs to a case dict (nothing when every value is plain)."""
    ty = {k: types_of(g) for k, g in gs.items()}
    ty = {k: v for k, v in ty.items() if v}
    if ty:
        case["types"] = ty
    return case


def untyped(c, name):
    return apply_types(graphio.to_nx(c[name]), (c.get("types") or {}).get(name))


FORMS = ["int", "float", "np.int64", "np.float64", "np.int32"]
MODES = FORMS + ["mixed", "mixed", "mixed", "asis"]


def as_form(x, form):
    np = _np()
    integral = float(x) == int(x)
    if form == "int":
        return int(x) if integral else float(x)
    if form == "float":
        return float(x)
    if form == "np.float64" or not integral:
        return np.float64(x)
    return getattr(np, form[3:])(int(x))


def retype_val(rnd, x, mode, str_p):
    np = _np()
    if isinstance(x, tuple):
        return tuple(retype_val(rnd, y, mode, str_p) for y in x)
    if isinstance(x, str):
        return np.str_(x) if rnd.random() < str_p else str(x)
    if x is None or isinstance(x, (bool, np.bool_)) or mode == "asis":
        return x
    return as_form(x, rnd.choice(FORMS) if mode == "mixed" else mode)


def retype_graph(rnd, g, mode=None, str_p=None):
    """A new graph object, same node ids / insertion order / values, every number spelled per `mode` (one form for the
    whole graph, or "mixed": drawn value by value), strings as numpy.str_ with probability str_p."""
    mode = rnd.choice(MODES) if mode is None else mode
    str_p = rnd.choice([0.0, 0.0, 0.5, 1.0]) if str_p is None else str_p
    out = nx.Graph()
    for v, d in g.nodes(data=True):
        out.add_node(v, **{k: retype_val(rnd, x, mode, str_p) for k, x in d.items()})
    for u, v, d in g.edges(data=True):
        out.add_edge(u, v, **{k: retype_val(rnd, x, mode, str_p) for k, x in d.items()})
    if graphio.graph(out) != graphio.graph(g):
        raise AssertionError("harness: re-spelling changed the encoded graph")
    return out, mode


NOISE_KEYS = ["weight", "capacity", "id", "color"]


def add_noise(rnd, g):
    """Attributes no engine selects, with values unrelated between graphs (a library default might pick them up)."""
    keys = rnd.sample(NOISE_KEYS, rnd.randint(1, 2))
    for k in keys:
        where = rnd.choice(["edges", "edges", "nodes", "both"])
        if where != "nodes":
            for u, v in g.edges:
                g[u][v][k] = rnd.choice([0, 1, 2.5, 7, "a", ""]) if k != "color" else rnd.choice(["r", "g"])
        if where != "edges":
            for v in g.nodes:
                g.nodes[v][k] = rnd.choice([0, 1, 2.5, 7, "a", ""]) if k != "color" else rnd.choice(["r", "g"])
    return g


def impl_history(graphs, queries):
    """graphs: list of nx graphs (shared objects); queries: [{op, engine, a, b}] -> answers"""
    snap = [g.copy() for g in graphs]
    engines = {}
    out = []
    for q in queries:
        key = json.dumps(q["engine"], sort_keys=True)
        try:
            if key not in engines:
                engines[key] = mk_engine(q["engine"])
            e = engines[key]
            if q["op"] == "iso":
                out.append({"verdict": bool(e.isomorphic(graphs[q["a"]], graphs[q["b"]]))})
            else:
                res = e.get_mappings(graphs[q["a"]], graphs[q["b"]])
                lst = [graphio.mapping(m) for m in res]
                out.append({"maps": sorted(lst), "n": len(lst), "dups": len(lst) - len({json.dumps(m) for m in lst})})
        except Exception as ex:
            out.append({"error": type(ex).__name__ + ": " + str(ex)[:200]})
    mutated = any(not matchgen.graphs_equal(a, b) for a, b in zip(graphs, snap))
    return out, mutated


def judge_answer(q, impl, mod):
    if "error" in impl:
        return "raised " + impl["error"]
    if q["op"] == "iso":
        if impl["verdict"] != mod["verdict"]:
            return f"verdict {impl['verdict']}; a label-preserving bijection {'exists' if mod['verdict'] else 'does not exist'}"
        return None
    if impl["dups"]:
        return "embeddings contain duplicates"
    allm = {json.dumps(m) for m in mod["all"]}
    bad = [m for m in impl["maps"] if json.dumps(m) not in allm]
    if bad:
        return f"returned mapping {bad[0]} is not a pattern->host induced embedding"
    if impl["n"] != mod["n"]:
        return (f"{impl['n']} embedding(s) returned, the property demands {mod['n']} "
                f"({len(allm)} exist; max_mappings={q['engine']['max_mappings']})")
    return None


def hist_request(graphs, queries):
    return {"cmd": "c07.history", "graphs": [graphio.graph(g) for g in graphs], "queries": queries}


def hist_case(graphs, queries):
    c = {"kind": "history", "graphs": [graphio.graph(g) for g in graphs], "queries": queries}
    ty = [types_of(g) for g in graphs]
    if any(ty):
        c["types"] = ty
    return c


def _cmp_eq(a, b):
    return a == b


def _cmp_true(a, b):
    return True


CMPS = {None: None, "eq": _cmp_eq, "true": _cmp_true}


def impl_sub(which, child, parent, cfg):
    from synkit.Graph.Matcher.subgraph_matcher import SubgraphMatch
    from synkit.Graph.Matcher import graph_morphism

    kw = dict(node_label_names=list(cfg["names"]), node_label_default=[graphio.unval(d) for d in cfg["defaults"]],
              edge_attribute=cfg["edge_attr"], use_filter=cfg["use_filter"],
              check_type="induced" if cfg["induced"] else "monomorphism")
    if which != "is_subgraph":  # is_subgraph has no comparator parameters
        if cfg.get("node_cmp"):
            kw["node_comparator"] = CMPS[cfg["node_cmp"]]
        if cfg.get("edge_cmp"):
            kw["edge_comparator"] = CMPS[cfg["edge_cmp"]]
    c0, p0 = child.copy(), parent.copy()
    try:
        if which == "SubgraphMatch":
            r = SubgraphMatch.subgraph_isomorphism(child, parent, **kw)
        elif which == "is_subgraph":
            r = SubgraphMatch.is_subgraph(child, parent, **kw, backend=cfg.get("backend", "nx"))
        else:
            r = graph_morphism.subgraph_isomorphism(child, parent, **kw)
    except Exception as ex:
        return {"error": type(ex).__name__ + ": " + str(ex)[:200]}
    return {"verdict": bool(r), "mutated": not (matchgen.graphs_equal(child, c0) and matchgen.graphs_equal(parent, p0))}


def model_sub_cfg(cfg):
    """The selection the model is asked about: a constant-true comparator compares nothing, i.e. the
    attribute is not selected (only generated with use_filter=False: the filter compares with `!=`)."""
    names, defaults, edge_attr = list(cfg["names"]), list(cfg["defaults"]), cfg["edge_attr"]
    if cfg.get("node_cmp") == "true":
        names, defaults = [], []
    if cfg.get("edge_cmp") == "true":
        edge_attr = None
    return {"names": names, "defaults": defaults, "edge_attr": edge_attr, "use_filter": cfg["use_filter"], "induced": cfg["induced"]}


def sub_variants(cfg):
    """Which of the three entry points take this configuration."""
    out = []
    if cfg["edge_attr"] is not None:  # SubgraphMatch documents `edge_attribute: str`; None is accepted by graph_morphism only
        out.append("SubgraphMatch")
    out.append("graph_morphism")
    if cfg["edge_attr"] is not None and not cfg.get("node_cmp") and not cfg.get("edge_cmp"):
        out.append("is_subgraph")
    return out


def sub_request(child, parent, cfg):
    return {"cmd": "c07.sub", "child": graphio.graph(child), "parent": graphio.graph(parent), **model_sub_cfg(cfg)}


def impl_giso(g1, g2, use_defaults):
    from synkit.Graph.Matcher.graph_morphism import graph_isomorphism

    try:
        return {"verdict": bool(graph_isomorphism(g1, g2, use_defaults=use_defaults))}
    except Exception as ex:
        return {"error": type(ex).__name__ + ": " + str(ex)[:200]}


# ---------------------------------------------------------------- evaluation
TYPED_STREAMS = ("representation", "tiny-retyped", "scale")


def eval_histories(ctx, cases, tag):
    """cases: list of (graphs, queries, shape)"""
    if not cases:
        return
    mods = ctx.lean().ok([hist_request(g, q) for g, q, _ in cases], shards=8)
    for (graphs, queries, shape), mod in zip(cases, mods):
        ctx.count("stream:" + tag)
        ctx.count("shape:" + shape)
        impl, mutated = impl_history(graphs, queries)
        pos = sum(1 for a in mod["answers"] if a.get("verdict") or a.get("n"))
        for q, a in zip(queries, mod["answers"]):
            ctx.count("query:" + q["op"] + ("+wl" if q["engine"]["wl1_filter"] else ""))
            if tag == "degenerate":
                ctx.count("degenerate:" + ("same-object" if q["a"] == q["b"] else "empty-graph" if 0 in (len(graphs[q["a"]]), len(graphs[q["b"]]))
                                           else "single-node" if 1 in (len(graphs[q["a"]]), len(graphs[q["b"]])) else "other")
                          + (":attrs=None" if q["engine"].get("none_for_empty") else "")
                          + (":backend=" + q["engine"]["backend"] if "backend" in q["engine"] else ""))
            if q["op"] == "iso":
                ctx.count("iso:" + ("true" if a["verdict"] else "false"))
            else:
                ctx.count("maps:" + ("0" if a["n"] == 0 else "1" if a["n"] == 1 else "many")
                          + ("/proper" if len(graphs[q["b"]]) < len(graphs[q["a"]]) else ""))
        canonical = [[graphio.graph(g) for g in graphs], queries]
        if tag in TYPED_STREAMS:  # the spelling of the values is part of what makes two of these cases different
            canonical.append([types_of(g) for g in graphs])
            for g in graphs:
                ctx.count("spelling:" + spelling_class(g))
            if len(queries) >= 2:
                ctx.count("queries_repeated:" + ("yes" if len({json.dumps(q, sort_keys=True) for q in queries}) < len(queries) else "no"))
            for q in queries:
                ctx.count(f"selection:{len(q['engine']['node_attrs'])}node+{len(q['engine']['edge_attrs'])}edge keys")
        ctx.case(canonical, pos >= 1 and max(len(g) for g in graphs) >= 2,
                 sample={"stream": tag, **hist_case(graphs, queries)} if max(len(g) for g in graphs) <= 3 and len(queries) <= 2 else None)
        if mod["answers"] != mod["pure"]:
            ctx.violation("model: history answers differ from cache-free answers (theorem cache_transparent contradicted)",
                          hist_case(graphs, queries), None, no_input=True)
        why, at = None, None
        if mutated:
            why, at = "an input graph was modified", len(queries) - 1
        for i, (q, a, m) in enumerate(zip(queries, impl, mod["answers"])):
            if not backend_supported(q["engine"]):
                ctx.count(("backend:" + str(q["engine"]["backend"]) if "backend" in q["engine"] else "attrs_as:" + str(q["engine"].get("attrs_as")))
                          + (":raised" if "error" in a else ":answered"))
                if "error" in a:  # no answer given: nothing for the property to judge
                    continue
            w = judge_answer(q, a, m)
            if w:
                why, at = w, i
                break
        if why is None:
            continue
        report_history(ctx, graphs, queries[:at + 1], why, tag)
        if len(ctx.violations) >= 5:
            return


def history_fails(ctx, graphs, queries):
    mod = ctx.lean().ok([hist_request(graphs, queries)])[0]
    impl, mutated = impl_history([g.copy() for g in graphs], queries)
    if mutated:
        return "an input graph was modified"
    if "error" in impl[-1] or any("error" in a for a in impl):
        return None  # while shrinking, an exception is a different failure: do not follow it
    # only the LAST query is the observed one; earlier ones are the history
    return judge_answer(queries[-1], impl[-1], mod["answers"][-1])


def spelling_class(g):
    tags = set()
    for d in [d for _, d in g.nodes(data=True)] + [d for _, _, d in g.edges(data=True)]:
        for x in d.values():
            for y in (x if isinstance(x, tuple) else (x,)):
                if y is not None and not isinstance(y, (bool, _np().bool_)):
                    tags.add("str" if type(y) is str else type(y).__name__)
    nums = sorted(t for t in tags if t not in ("str", "str_"))
    return ("no-number" if not nums else nums[0] if len(nums) == 1 else "mixed-numbers") + ("+numpy.str_" if "str_" in tags else "")


def simplify_repr(graphs, idxs, queries, fails, budget=80):
    """Greedy, while `fails(graphs)` holds: remove attributes no query selects, then give values their plain spelling."""
    selected = {"hcount"} | {k for q in queries for k in q["engine"]["node_attrs"]} | {k for q in queries for k in q["engine"]["edge_attrs"]}
    graphs = list(graphs)
    n = 0

    def attempt(i, cand):
        nonlocal n
        n += 1
        gs = list(graphs)
        gs[i] = cand
        try:
            ok = fails(gs)
        except Exception:
            ok = False
        if ok:
            graphs[i] = cand
        return ok

    for i in idxs:
        g = graphs[i]
        extra = sorted({k for _, d in g.nodes(data=True) for k in d} | {k for _, _, d in g.edges(data=True) for k in d})
        for k in extra:
            if k in selected or n >= budget:
                continue
            h = graphs[i].copy()
            for v in h.nodes:
                h.nodes[v].pop(k, None)
            for u, v in h.edges:
                h[u][v].pop(k, None)
            attempt(i, h)
    for i in idxs:  # whole graph plain first, then value by value
        if n >= budget or not types_of(graphs[i]):
            continue
        h = graphs[i].copy()
        for v in h.nodes:
            h.nodes[v].update({k: plain(x) for k, x in h.nodes[v].items()})
        for u, v in h.edges:
            h[u][v].update({k: plain(x) for k, x in h[u][v].items()})
        if attempt(i, h):
            continue
        for v in list(graphs[i].nodes):
            for k, x in list(graphs[i].nodes[v].items()):
                if tag_of(x) is not None and n < budget:
                    h = graphs[i].copy()
                    h.nodes[v][k] = plain(x)
                    attempt(i, h)
        for u, v in list(graphs[i].edges):
            for k, x in list(graphs[i][u][v].items()):
                if tag_of(x) is not None and n < budget:
                    h = graphs[i].copy()
                    h[u][v][k] = plain(x)
                    attempt(i, h)
    return graphs


def shrink_both(ga, gb, fails, budget=200):
    """Remove one node from each graph at a time while `fails` holds (a one-sided removal leaves the equal-size branch)."""
    n = 0
    changed = True
    while changed and n < budget and len(ga) > 1:
        changed = False
        for u in list(ga.nodes):
            for v in list(gb.nodes):
                n += 1
                if n > budget:
                    break
                ha, hb = ga.copy(), gb.copy()
                ha.remove_node(u)
                hb.remove_node(v)
                try:
                    bad = fails(ha, hb)
                except Exception:
                    bad = False
                if bad:
                    ga, gb, changed = ha, hb, True
                    break
            if changed or n > budget:
                break
    return ga, gb


def report_history(ctx, graphs, queries, why, tag):
    from ..shrink import shrink_seq

    last = queries[-1]
    graphs0, queries0 = list(graphs), list(queries)
    # 1. drop earlier queries
    prefix = shrink_seq(queries[:-1], lambda cand: history_fails(ctx, graphs, list(cand) + [last]) is not None)
    queries = list(prefix) + [last]
    # 2. shrink the graphs the last query looks at
    a, b = last["a"], last["b"]
    if a != b:
        def fails(ga, gb):
            gs = list(graphs)
            gs[a], gs[b] = ga, gb
            return history_fails(ctx, gs, queries) is not None
        ga, gb = matchgen.shrink_pair(graphs[a], graphs[b], fails, budget=200)
        graphs = list(graphs)
        graphs[a], graphs[b] = ga, gb
        if len(graphs[a]) == len(graphs[b]):  # equal sizes (full isomorphism branch): shrink both sides together
            ga, gb = shrink_both(graphs[a], graphs[b], fails)
            graphs[a], graphs[b] = ga, gb
    if history_fails(ctx, graphs, queries) is None:  # e.g. the original failure was an exception: report it unshrunk
        graphs, queries = graphs0, queries0
    else:  # 3. drop unselected attributes, then spell plainly every value whose spelling does not matter
        graphs = simplify_repr(graphs, sorted({q[k] for q in queries for k in ("a", "b")}), queries,
                               lambda gs: history_fails(ctx, gs, queries) is not None)
    why2 = history_fails(ctx, graphs, queries) or why
    mod = ctx.lean().ok([hist_request(graphs, queries)])[0]
    impl, _ = impl_history([g.copy() for g in graphs], queries)
    ctx.violation("GraphMatcherEngine answer departs from the specification", hist_case(graphs, queries),
                  {"clause": why2, "stream": tag, "history_dependent": len(queries) > 1,
                   "implementation": impl[-1], "specification": {k: v for k, v in mod["answers"][-1].items() if k != "all"},
                   "embeddings_that_exist": len(mod["answers"][-1].get("all", [])) if "all" in mod["answers"][-1] else None})


def eval_sub(ctx, cases, tag):
    """cases: list of (child, parent, cfg, shape)"""
    if not cases:
        return
    mods = ctx.lean().ok([sub_request(c, p, cfg) for c, p, cfg, _ in cases], shards=8)
    for (child, parent, cfg, shape), mod in zip(cases, mods):
        ctx.count("stream:" + tag)
        ctx.count("shape:" + shape)
        ctx.count("sub:" + ("induced" if cfg["induced"] else "mono") + ("+filter" if cfg["use_filter"] else "")
                  + (":true" if mod["verdict"] else ":false"))
        if cfg["use_filter"] and not mod["filter"]:
            ctx.count("sub_filter_rejected")
        if tag == "sub-options":
            ctx.count("subopt:edge_attribute=" + repr(cfg["edge_attr"]))
            ctx.count("subopt:labels=" + ",".join(cfg["names"]) + "/defaults=" + ",".join(str(graphio.unval(d)) for d in cfg["defaults"]))
            ctx.count(f"subopt:node_comparator={cfg.get('node_cmp')}:edge_comparator={cfg.get('edge_cmp')}")
        ctx.case([graphio.graph(child), graphio.graph(parent), cfg], mod["verdict"] and len(parent) >= 2)
        for which in sub_variants(cfg):
            impl = impl_sub(which, child, parent, cfg)
            why = None
            if which == "is_subgraph" and cfg.get("backend", "nx") != "nx":
                ctx.count("is_subgraph_backend:" + str(cfg["backend"]) + (":raised" if "error" in impl else ":answered"))
                if "error" in impl:  # no answer given: nothing for the property to judge
                    continue
            if "error" in impl:
                why = "raised " + impl["error"]
            elif impl["mutated"]:
                why = "an input graph was modified"
            elif impl["verdict"] != mod["verdict"]:
                kind = "induced" if cfg["induced"] else "monomorphic"
                why = f"{which}: verdict {impl['verdict']}; the child {'is' if mod['verdict'] else 'is not'} {kind}ly contained (use_filter={cfg['use_filter']})"
            if why is None:
                continue

            def fails(c, p):
                m = ctx.lean().ok([sub_request(c, p, cfg)])[0]
                r = impl_sub(which, c, p, cfg)
                return "error" not in r and r["verdict"] != m["verdict"]
            c2, p2 = matchgen.shrink_pair(child, parent, fails, budget=200)
            m2 = ctx.lean().ok([sub_request(c2, p2, cfg)])[0]
            ctx.violation("boolean sub-graph test departs from the definition of containment",
                          typed({"kind": "sub", "which": which, "child": graphio.graph(c2), "parent": graphio.graph(p2), "cfg": cfg},
                                child=c2, parent=p2),
                          {"clause": why, "stream": tag, "implementation": impl_sub(which, c2, p2, cfg), "specification": m2})
            break
        if len(ctx.violations) >= 5:
            return


def eval_giso(ctx, cases, tag):
    if not cases:
        return
    mods = ctx.lean().ok([{"cmd": "c07.giso", "g1": graphio.graph(a), "g2": graphio.graph(b), "use_defaults": d} for a, b, d, _ in cases], shards=8)
    for (g1, g2, d, shape), mod in zip(cases, mods):
        ctx.count("stream:" + tag)
        ctx.count("giso:" + ("true" if mod else "false") + ("+defaults" if "+defaults" in shape else ""))
        ctx.case([graphio.graph(g1), graphio.graph(g2), d], bool(mod))
        impl = impl_giso(g1, g2, d)
        if "error" in impl or impl["verdict"] != mod:
            ctx.violation("graph_isomorphism verdict departs from the specification",
                          typed({"kind": "giso", "g1": graphio.graph(g1), "g2": graphio.graph(g2), "use_defaults": d}, g1=g1, g2=g2),
                          {"implementation": impl, "specification": mod, "stream": tag})
            if len(ctx.violations) >= 5:
                return


# ---------------------------------------------------------------- SubgraphSearchEngine: pre_filter on / off
SEARCH_NK = [["element"], ["element", "charge"], [], ["charge", "element"], ["element", "in_ring"]]
SEARCH_EK = [["order"], ["order"], []]


def impl_search(host, pat, nk, ek, cfg):
    from synkit.Graph.Matcher.subgraph_matcher import SubgraphSearchEngine as S
    from synkit.Synthesis.Reactor.strategy import Strategy

    strat = Strategy(cfg["strategy"]) if cfg.get("as_enum") else cfg["strategy"]
    h0, p0 = host.copy(), pat.copy()
    try:
        res = S.find_subgraph_mappings(host, pat, node_attrs=list(nk), edge_attrs=list(ek), strategy=strat,
                                       max_results=None, strict_cc_count=cfg["strict"],
                                       threshold=cfg["threshold"], pre_filter=cfg["pre_filter"])
    except Exception as ex:
        return {"error": type(ex).__name__ + ": " + str(ex)[:200]}
    lst = [graphio.mapping(m) for m in res]
    return {"maps": sorted(lst), "n": len(lst), "dups": len(lst) - len({json.dumps(m) for m in lst}),
            "mutated": not (matchgen.graphs_equal(host, h0) and matchgen.graphs_equal(pat, p0))}


def cand_counts(host, pat, nk):
    """The documented candidate sets of the pre-filter, counted independently of the code under test: for every
    pattern node the host nodes with equal selected attributes, hydrogen count >= and degree >= the pattern node's."""
    out = []
    for p, pd in pat.nodes(data=True):
        out.append(sum(1 for h, hd in host.nodes(data=True)
                       if all(hd.get(k) == pd.get(k) for k in nk) and hd.get("hcount", 0) >= pd.get("hcount", 0)
                       and host.degree(h) >= pat.degree(p)))
    return out


def search_request(host, pat, nk, ek, cfgs):
    mc = [{"strategy": c["strategy"], "max_results": None, "strict": c["strict"], "threshold": c["threshold"],
           "pre_filter": c["pre_filter"]} for c in cfgs]
    # last run: probe of the zero-candidate branch alone (a threshold no candidate product reaches)
    mc.append({"strategy": "all", "max_results": None, "strict": False, "threshold": 10 ** 9, "pre_filter": True})
    return {"cmd": "c06.search", "host": graphio.graph(host), "pattern": graphio.graph(pat),
            "node_keys": list(nk), "edge_keys": list(ek), "cfgs": mc}


def search_case(host, pat, nk, ek, cfg):
    return typed({"kind": "search", "host": graphio.graph(host), "pattern": graphio.graph(pat), "node_keys": list(nk),
                  "edge_keys": list(ek), "cfg": cfg}, host=host, pattern=pat)


def judge_search(host, pat, nk, cfg, impl_off, impl_on, m_off, m_on):
    """-> (None | "spec" | "corr", text).  "spec": C07 is violated on this input; "corr": the implementation departs
    from the model only inside the documented blow-up guard (the filter may give up when the candidate product
    exceeds the threshold), which C07 does not constrain."""
    for name, impl in (("pre_filter=False", impl_off), ("pre_filter=True", impl_on)):
        if "error" in impl:
            return "spec", f"{name}: raised {impl['error']}"
        if impl["mutated"]:
            return "spec", f"{name}: an input graph was modified"
        if impl["dups"]:
            return "spec", f"{name}: embeddings contain duplicates"
    if impl_off["maps"] != m_off["result"]:
        return "spec", (f"pre_filter=False: {impl_off['n']} embedding(s) returned, the specification of the strategy "
                        f"demands {m_off['n']} (set comparison)")
    if impl_on["maps"] == m_on["result"]:
        return None, None
    counts = cand_counts(host, pat, nk)
    prod = 1
    for c in counts:
        prod *= c
    thr = 5000 if cfg["threshold"] is None else cfg["threshold"]
    if impl_on["maps"] == m_off["result"]:
        return "corr", "the modelled blow-up guard fires, the implementation returned the unfiltered result"
    if impl_on["n"] == 0 and 0 not in counts and prod > thr:
        return "corr", f"the filter gave up at candidate product {prod} (threshold {thr}); the model's guard does not fire there"
    return "spec", (f"turning the pre-filter on changed the result set: {impl_on['n']} embedding(s) with pre_filter=True, "
                    f"{m_off['n']} without (candidates per pattern node {counts}, product {prod}, threshold {thr})")


def eval_search(ctx, cases, tag):
    """cases: list of (host, pattern, node_keys, edge_keys, cfgs, shape); every cfg is evaluated with the pre-filter off and on."""
    if not cases:
        return
    def both(cfgs):
        return [{**c, "pre_filter": f} for c in cfgs for f in (False, True)]
    mods = ctx.lean().ok([search_request(h, p, nk, ek, both(cfgs)) for h, p, nk, ek, cfgs, _ in cases], shards=8)
    for (host, pat, nk, ek, cfgs, shape), mod in zip(cases, mods):
        total = mod["total"]
        counts = cand_counts(host, pat, nk)
        zero = 0 in counts
        ctx.count("stream:" + tag)
        ctx.count("shape:" + shape)
        ctx.count("search_matches:" + ("0" if total == 0 else "1" if total == 1 else "many"))
        ctx.count("search_zero_candidate_node:" + ("yes" if zero else "no"))
        ctx.case(["search", graphio.graph(host), graphio.graph(pat), nk, ek], total >= 1 and host.number_of_nodes() >= 2,
                 sample={"stream": tag, **search_case(host, pat, nk, ek, {**cfgs[0], "pre_filter": True}), "matches": total}
                 if host.number_of_nodes() <= 3 else None)
        if mod["runs"][-1]["prefilter"] != zero:
            ctx.violation("model: `_quick_pre_filter` zero-candidate branch differs from the documented candidate definition "
                          "(harness cand_counts vs SubgraphSearch.quickPreFilter)", search_case(host, pat, nk, ek, cfgs[0]),
                          {"counts": counts, "model_prefilter": mod["runs"][-1]["prefilter"]}, no_input=True)
        if zero and total:
            ctx.violation("model: a pattern node has no candidate but a monomorphism exists (theorem prefilter_zero_sound contradicted)",
                          search_case(host, pat, nk, ek, cfgs[0]), {"counts": counts, "total": total}, no_input=True)
        for i, cfg in enumerate(cfgs):
            m_off, m_on = mod["runs"][2 * i], mod["runs"][2 * i + 1]
            fired = m_on["prefilter"]
            branch = "zero" if zero else "estimate" if fired else "none"
            ctx.count(f"search:{cfg['strategy']}{'+strict' if cfg['strict'] and cfg['strategy'] != 'all' else ''}"
                      f":thr={cfg['threshold']}:filter_branch={branch}")
            if fired and not zero and m_off["n"]:
                ctx.count("search_guard_empties_nonempty_result(documented)")
            if not fired and m_on["result"] != m_off["result"]:
                ctx.violation("model: pre-filter passes but the model's answers differ (theorem prefilter_spec contradicted)",
                              search_case(host, pat, nk, ek, cfg), None, no_input=True)
            impl_off = impl_search(host, pat, nk, ek, {**cfg, "pre_filter": False})
            impl_on = impl_search(host, pat, nk, ek, {**cfg, "pre_filter": True})
            kind, why = judge_search(host, pat, nk, cfg, impl_off, impl_on, m_off, m_on)
            if kind is None:
                continue
            report_search(ctx, host, pat, nk, ek, cfg, kind, why, tag)
            break
        if len(ctx.violations) >= 5:
            return


def search_verdict(ctx, host, pat, nk, ek, cfg):
    mod = ctx.lean().ok([search_request(host, pat, nk, ek, [{**cfg, "pre_filter": False}, {**cfg, "pre_filter": True}])])[0]
    impl_off = impl_search(host, pat, nk, ek, {**cfg, "pre_filter": False})
    impl_on = impl_search(host, pat, nk, ek, {**cfg, "pre_filter": True})
    kind, why = judge_search(host, pat, nk, cfg, impl_off, impl_on, mod["runs"][0], mod["runs"][1])
    return kind, why, impl_off, impl_on, mod


def report_search(ctx, host, pat, nk, ek, cfg, kind, why, tag):
    if kind == "corr":
        ctx.violation("correspondence: `_quick_pre_filter` blow-up guard fires elsewhere than modelled (threshold * 1e4); "
                      "C07 itself is not violated on this input", search_case(host, pat, nk, ek, {**cfg, "pre_filter": True}),
                      {"clause": why, "stream": tag}, no_input=True)
        return

    def fails(h, p):
        k, w, a, b, _ = search_verdict(ctx, h, p, nk, ek, cfg)
        return k == "spec" and "error" not in a and "error" not in b

    h2, p2 = matchgen.shrink_pair(host, pat, fails, budget=120)
    k, w, impl_off, impl_on, mod = search_verdict(ctx, h2, p2, nk, ek, cfg)
    if k != "spec":
        h2, p2 = host, pat
        k, w, impl_off, impl_on, mod = search_verdict(ctx, h2, p2, nk, ek, cfg)
    ctx.violation("find_subgraph_mappings: the cheap pre-filter changes the result set / embeddings depart from the specification",
                  search_case(h2, p2, nk, ek, {**cfg, "pre_filter": True}),
                  {"clause": w or why, "stream": tag, "pre_filter=False": impl_off, "pre_filter=True": impl_on,
                   "specification": {"pre_filter=False": mod["runs"][0]["result"], "pre_filter=True": mod["runs"][1]["result"],
                                     "model_filter_gives_up": mod["runs"][1]["prefilter"]},
                   "candidates_per_pattern_node": cand_counts(h2, p2, nk), "monomorphisms_total": mod["total"]})


# ---------------------------------------------------------------- generators
def rand_engine(rnd, wl=None, mm=None):
    return {"node_attrs": rnd.choice(NODE_ATTRS), "edge_attrs": rnd.choice(EDGE_ATTRS),
            "wl1_filter": (rnd.random() < 0.5) if wl is None else wl,
            "max_mappings": rnd.choice([1, 1, None, 2, 0, 5]) if mm is None else mm}


def full_attrs(g):
    """WL hashing sorts label tuples: keep attribute types homogeneous (every node has every compared key)."""
    for v in g.nodes:
        g.nodes[v].setdefault("charge", 0)
        g.nodes[v].setdefault("element", "C")
    return g


def gen_pair(rnd):
    """-> (g1, g2, shape) for isomorphism-type questions"""
    n = rnd.randint(1, 8)
    r = rnd.random()
    if r < 0.12:
        g1 = matchgen.symmetric_family(rnd, rnd.choice(["cycle", "star", "path", "kab", "rep"]), rnd.randint(2, 7))
    elif r < 0.3:
        g1 = matchgen.multi_component(rnd, [rnd.randint(1, 3) for _ in range(rnd.randint(2, 3))], elems=["C", "C", "N"])
    else:
        g1 = matchgen.mol_like(rnd, n, elems=["C", "C", "N", "O"] if rnd.random() < 0.7 else ["C"],
                               hcount_absent_p=rnd.choice([0.0, 0.15, 1.0]))
    full_attrs(g1)
    r = rnd.random()
    if r < 0.4:
        g2, _ = matchgen.relabelled_copy(rnd, g1)
        shape = "relabelled"
    elif r < 0.8:
        g2, _ = matchgen.relabelled_copy(rnd, g1)
        g2, kind = matchgen.one_edit(rnd, g2)
        shape = "one-edit:" + kind
    elif r < 0.9:
        g2 = full_attrs(matchgen.mol_like(rnd, len(g1), ids=range(50, 50 + len(g1)), elems=["C", "N"]))
        shape = "unrelated-same-size"
    else:
        g2 = full_attrs(matchgen.mol_like(rnd, rnd.randint(1, 8), ids=range(50, 58), elems=["C", "N"]))
        shape = "unrelated"
    return g1, g2, shape


def gen_host_pattern(rnd):
    n = rnd.randint(2, 8)
    if rnd.random() < 0.15:
        host = matchgen.symmetric_family(rnd, rnd.choice(["cycle", "star", "path", "kab"]), rnd.randint(3, 7))
    else:
        host = matchgen.mol_like(rnd, n, elems=["C", "C", "N", "O"])
    full_attrs(host)
    r = rnd.random()
    if r < 0.55:
        k = rnd.randint(1, max(1, len(host) - 1))
        pat, tag = matchgen.pattern_from(rnd, host, k, 1, induced_p=0.8, edit_p=0.25)
        shape = "proper/" + tag.split(":")[0]
    elif r < 0.8:
        pat, _ = matchgen.relabelled_copy(rnd, host, base=100)
        shape = "same-size/copy"
        if rnd.random() < 0.4:
            pat, kind = matchgen.one_edit(rnd, pat)
            shape = "same-size/edit"
        for v in pat.nodes:  # host >= pattern hydrogen rule
            if "hcount" in pat.nodes[v] and rnd.random() < 0.3:
                pat.nodes[v]["hcount"] = rnd.randint(0, pat.nodes[v]["hcount"])
    else:
        pat = full_attrs(matchgen.mol_like(rnd, rnd.randint(1, 4), ids=range(100, 104), elems=["C", "N"]))
        shape = "unrelated"
    return host, full_attrs(pat), shape


def gen_histories(ctx, count):
    rnd = ctx.rnd
    out = []
    for _ in range(count):
        r = rnd.random()
        if r < 0.35:  # single isomorphism question, both argument orders, filter on and off
            g1, g2, shape = gen_pair(rnd)
            e = rand_engine(rnd, wl=False)
            qs = [{"op": "iso", "engine": e, "a": 0, "b": 1}, {"op": "iso", "engine": {**e, "wl1_filter": True}, "a": 0, "b": 1},
                  {"op": "iso", "engine": e, "a": 1, "b": 0}]
            out.append(([g1, g2], qs[: rnd.randint(1, 3)] if rnd.random() < 0.3 else qs, "iso/" + shape.split(":")[0]))
        elif r < 0.70:  # embeddings
            host, pat, shape = gen_host_pattern(rnd)
            e = rand_engine(rnd)
            qs = [{"op": "maps", "engine": e, "a": 0, "b": 1}]
            if rnd.random() < 0.5:
                qs.append({"op": "maps", "engine": {**e, "wl1_filter": not e["wl1_filter"]}, "a": 0, "b": 1})
            out.append(([host, pat], qs, "maps/" + shape))
        else:  # histories: 2-3 shared graphs, 2-6 queries, 2-3 engines with different attribute selections
            g1, g2, shape = gen_pair(rnd)
            graphs = [g1, g2]
            if rnd.random() < 0.5:
                g3, _ = matchgen.relabelled_copy(rnd, g1)
                if rnd.random() < 0.7:
                    v = rnd.choice(list(g3.nodes))
                    g3.nodes[v]["charge"] = g3.nodes[v].get("charge", 0) + 1
                graphs.append(g3)
            engines = [{"node_attrs": na, "edge_attrs": rnd.choice(EDGE_ATTRS), "wl1_filter": rnd.random() < 0.85,
                        "max_mappings": rnd.choice([1, None])}
                       # incl. a permutation of a selection (hcount is not used here: it may be absent on some
                       # nodes, and an engine with wl1_filter sorts labels, which raises on None vs int)
                       for na in rnd.sample([["element"], ["element", "charge"], [], ["charge"], ["charge", "element"]],
                                            rnd.randint(2, 4))]
            qs = []
            for _ in range(rnd.randint(2, 6)):
                a, b = rnd.sample(range(len(graphs)), 2)
                qs.append({"op": rnd.choice(["iso", "iso", "maps"]), "engine": rnd.choice(engines), "a": a, "b": b})
            out.append((graphs, qs, "history/" + shape.split(":")[0]))
    return out


def gen_sub(ctx, count):
    rnd = ctx.rnd
    out = []
    for _ in range(count):
        parent, child, shape = gen_host_pattern(rnd)
        if rnd.random() < 0.3:  # drop some attributes so that the defaults matter
            for g in (parent, child):
                for v in g.nodes:
                    if rnd.random() < 0.3:
                        g.nodes[v].pop("charge", None)
        cfg = {"names": ["element", "charge"], "defaults": [{"s": "*"}, {"n": 0}], "edge_attr": "order",
               "use_filter": rnd.random() < 0.6, "induced": rnd.random() < 0.5}
        if rnd.random() < 0.15:
            cfg["names"], cfg["defaults"] = ["element"], [{"s": "*"}]
        out.append((child, parent, cfg, "sub/" + shape))
        if rnd.random() < 0.5:  # the same question with the filter flipped
            out.append((child, parent, {**cfg, "use_filter": not cfg["use_filter"]}, "sub/" + shape))
    return out


def _search_cfgs(rnd, guard=False):
    """Configurations for one (host, pattern): every strategy with the default threshold, plus small thresholds
    (where the candidate-product guard of the pre-filter can fire).  Each is run with pre_filter off and on."""
    cfgs = [{"strategy": "all", "strict": True, "threshold": None},
            {"strategy": "comp", "strict": False, "threshold": None},
            {"strategy": "bt", "strict": rnd.random() < 0.3, "threshold": None}]
    if rnd.random() < 0.3:
        cfgs.append({"strategy": "comp", "strict": True, "threshold": None})
    for t in ([0, 1, rnd.choice([2, 3])] if guard else [rnd.choice([0, 1, 2, 3, 10])]):
        cfgs.append({"strategy": rnd.choice(["all", "all", "comp", "bt"]), "strict": False, "threshold": t})
    for c in cfgs:
        if rnd.random() < 0.3:
            c["as_enum"] = True
    return cfgs


def gen_prefilter(ctx, count):
    """Pairs aimed at the decision boundaries of `_quick_pre_filter`: attribute equality, hydrogen count >=,
    degree >=, no candidate at all, and the candidate-product guard."""
    rnd = ctx.rnd
    out = []
    for _ in range(count):
        r = rnd.random()
        nk, ek = rnd.choice(SEARCH_NK), rnd.choice(SEARCH_EK)
        guard = False
        if r < 0.30:  # planted pattern (contained): the filter has to let it through
            if rnd.random() < 0.5:
                host = matchgen.mol_like(rnd, rnd.randint(2, 8), hcount_absent_p=rnd.choice([0.0, 0.15, 0.6]))
                ncomp = 1
            else:
                host = matchgen.multi_component(rnd, [rnd.randint(1, 3) for _ in range(rnd.randint(2, 3))], elems=["C", "C", "N"],
                                                hcount_absent_p=rnd.choice([0.15, 0.6]))
                ncomp = rnd.choice([1, 2])
            pat, _ = matchgen.pattern_from(rnd, host, rnd.randint(ncomp, 5), ncomp, lower_h_p=rnd.choice([0.0, 0.5]))
            shape = "prefilter/planted"
        elif r < 0.50:  # hydrogen boundary: one pattern node at exactly / one above the hydrogen count of its image
            host = matchgen.mol_like(rnd, rnd.randint(2, 7), elems=["C", "N", "O", "S"], hcount_absent_p=rnd.choice([0.0, 0.3]))
            k = rnd.randint(1, len(host))
            pat, _ = matchgen.pattern_from(rnd, host, k, 1, lower_h_p=0.0, induced_p=1.0)
            v = rnd.choice(list(pat.nodes))
            top = max([d.get("hcount", 0) for _, d in host.nodes(data=True) if d.get("element") == pat.nodes[v].get("element")] or [0])
            if rnd.random() < 0.5:
                pat.nodes[v]["hcount"] = top
                shape = "prefilter/hcount=max"
            else:
                pat.nodes[v]["hcount"] = top + 1
                shape = "prefilter/hcount=max+1"
        elif r < 0.70:  # degree boundary: a whole component (degrees equal), or one pendant neighbour too many
            host = matchgen.mol_like(rnd, rnd.randint(2, 7), elems=["C", "C", "N"], ring_p=0.7)
            pat, _ = matchgen.relabelled_copy(rnd, host, base=100)
            if rnd.random() < 0.5:
                shape = "prefilter/degree=equal"
            else:
                top = max(d for _, d in host.degree())
                v = rnd.choice([x for x in pat.nodes if pat.degree(x) == top] if rnd.random() < 0.6 else list(pat.nodes))
                keep = set(matchgen.connected_subset(rnd, pat, rnd.randint(1, len(pat)), [v]))
                pat = pat.subgraph(keep | {v}).copy()
                w = max(pat.nodes) + 1
                pat.add_node(w, element=rnd.choice(["C", "N"]), charge=0, hcount=0)
                pat.add_edge(v, w, order=1.0)
                shape = "prefilter/degree+pendant"
        elif r < 0.82:  # one label edited (mostly unplants the pattern; the filter may or may not see it)
            host = matchgen.mol_like(rnd, rnd.randint(2, 8))
            pat, tag = matchgen.pattern_from(rnd, host, rnd.randint(1, 5), 1, edit_p=1.0)
            shape = "prefilter/" + tag.replace(":", "-")
        elif r < 0.90:  # many candidates: the candidate-product guard fires for small thresholds
            host = matchgen.symmetric_family(rnd, rnd.choice(["cycle", "star", "path", "kab", "rep"]), rnd.randint(5, 8))
            pat = matchgen.symmetric_family(rnd, rnd.choice(["path", "rep", "star"]), rnd.randint(3, 5), base=100)
            for v in pat.nodes:
                pat.nodes[v]["hcount"] = rnd.choice([0, 1])
            guard = True
            shape = "prefilter/symmetric"
        elif r < 0.95:  # few embeddings, large candidate product: only the guard can empty the result
            n = rnd.randint(5, 8)
            host = nx.Graph()
            for i in range(n):
                host.add_node(i, element="C", charge=0, hcount=2)
            for i in range(n - 1):
                host.add_edge(i, i + 1, order=float(rnd.choice([1, 2, 3])))
            pat, _ = matchgen.relabelled_copy(rnd, host, base=100)
            nk, ek, guard = ["element"], ["order"], True
            shape = "prefilter/chain-copy"
        else:  # degenerate: empty pattern / empty host / isolated nodes
            host = matchgen.multi_component(rnd, [rnd.randint(0, 2) for _ in range(rnd.randint(0, 3))], elems=["C", "N"])
            pat = matchgen.multi_component(rnd, [rnd.randint(0, 1) for _ in range(rnd.randint(0, 3))], elems=["C", "N"], base=100)
            shape = "prefilter/degenerate"
        if "in_ring" in nk:  # an attribute some nodes do not carry: `.get` gives None on both sides
            for g in (host, pat):
                for v in g.nodes:
                    if rnd.random() < 0.5:
                        g.nodes[v]["in_ring"] = rnd.random() < 0.3
        out.append((host, pat, nk, ek, _search_cfgs(rnd, guard), shape))
    return out


# ---------------------------------------------------------------- representation / scale streams
EXTRA_ALPH = {"aromatic": [False, True], "isotope": [0, 0, 12, 13, 2500], "grp": [(), (1, 2), (2, 1), (1,), (1, 2, 3)],
              "name": ["", "a", "A", "a "], "label": ["", "x", "y"], "ring": [False, True]}
ORDER_MAPS = [None, None, {1.0: "-", 2.0: "=", 3.0: "#", 1.5: ":"}, {1.0: "SINGLE", 2.0: "DOUBLE", 3.0: "TRIPLE", 1.5: "AROMATIC"},
              {2.0: "="}, {3.0: 0}, {3.0: 12, 2.0: 10}, {1.0: "1", 2.0: "2"}]


def decorate(rnd, g, symmetric=False):
    """Extra attributes on EVERY node / edge of g (so that a WL engine can sort the label tuples), other spellings of the
    bond orders, falsy / multi-digit values.  -> (extra node keys, extra edge keys).  On a symmetric skeleton every extra
    key is constant except for one value of one key."""
    nkeys = [k for k, p in (("aromatic", 0.35), ("isotope", 0.35), ("grp", 0.3), ("name", 0.3), ("label", 0.3)) if rnd.random() < p]
    ekeys = [k for k, p in (("label", 1.0 if "label" in nkeys else 0.1), ("ring", 0.25)) if rnd.random() < p]
    for k in nkeys:
        const = rnd.choice(EXTRA_ALPH[k])
        for v in g.nodes:
            g.nodes[v][k] = const if symmetric else rnd.choice(EXTRA_ALPH[k])
    for k in ekeys:
        const = rnd.choice(EXTRA_ALPH[k])
        for u, v in g.edges:
            g[u][v][k] = const if symmetric else rnd.choice(EXTRA_ALPH[k])
    if symmetric and nkeys and len(g):
        k, v = rnd.choice(nkeys), rnd.choice(list(g.nodes))
        g.nodes[v][k] = rnd.choice([x for x in EXTRA_ALPH[k] if x != g.nodes[v][k]])
    om = rnd.choice(ORDER_MAPS)
    if om:
        for u, v in g.edges:
            g[u][v]["order"] = om.get(g[u][v].get("order"), g[u][v].get("order"))
    r = rnd.random()
    if r < 0.15:  # a falsy element symbol
        for v in g.nodes:
            if g.nodes[v].get("element") == "N":
                g.nodes[v]["element"] = ""
    elif r < 0.3:  # symbols that differ only in case / length
        for v in g.nodes:
            g.nodes[v]["element"] = {"N": "Cl", "O": "c"}.get(g.nodes[v].get("element"), g.nodes[v].get("element"))
    if rnd.random() < 0.2:
        for v in g.nodes:
            g.nodes[v]["charge"] = g.nodes[v].get("charge", 0) * rnd.choice([10, 12])
    if rnd.random() < 0.15:
        for v in g.nodes:
            if "hcount" in g.nodes[v]:
                g.nodes[v]["hcount"] += 10
    return nkeys, ekeys


def edit_extra(rnd, g, nkeys, ekeys):
    """One value of one extra key changed."""
    h = g.copy()
    opts = [("n", k) for k in nkeys if len(h)] + [("e", k) for k in ekeys if h.number_of_edges()]
    if not opts:
        return matchgen.one_edit(rnd, g)
    where, k = rnd.choice(opts)
    if where == "n":
        v = rnd.choice(list(h.nodes))
        h.nodes[v][k] = rnd.choice([x for x in EXTRA_ALPH[k] if x != h.nodes[v][k]])
    else:
        u, v = rnd.choice(list(h.edges))
        h[u][v][k] = rnd.choice([x for x in EXTRA_ALPH[k] if x != h[u][v][k]])
    return h, "extra:" + k


def permute_labels(rnd, g):
    """Same skeleton, same multiset of node (or edge) labels, placed differently."""
    h = g.copy()
    if rnd.random() < 0.6 or not h.number_of_edges():
        nodes = list(h.nodes)
        ds = [dict(h.nodes[v]) for v in nodes]
        rnd.shuffle(ds)
        for v, d in zip(nodes, ds):
            h.nodes[v].clear()
            h.nodes[v].update(d)
    else:
        edges = list(h.edges)
        ds = [dict(h[u][v]) for u, v in edges]
        rnd.shuffle(ds)
        for (u, v), d in zip(edges, ds):
            h[u][v].clear()
            h[u][v].update(d)
    return h


def rich_engines(rnd, nkeys, ekeys, has_h, k, wl_ok=True):
    pool_n = ["element", "charge"] + list(nkeys) + (["hcount"] if has_h else [])
    pool_e = ["order"] + list(ekeys)
    out = []
    for _ in range(k):
        r = rnd.random()
        if r < 0.3:  # everything, in some order
            na = rnd.sample(pool_n, len(pool_n))
        elif r < 0.55:  # the defaults plus more keys
            na = ["element", "charge"] + rnd.sample(pool_n[2:], rnd.randint(0, len(pool_n) - 2))
        elif r < 0.7:  # one numeric / extra key alone
            na = [rnd.choice(pool_n[1:])]
        else:
            na = rnd.sample(pool_n, rnd.randint(0, len(pool_n)))
        ea = rnd.sample(pool_e, len(pool_e)) if rnd.random() < 0.6 else rnd.sample(pool_e, rnd.randint(0, len(pool_e)))
        e = {"node_attrs": na, "edge_attrs": ea, "wl1_filter": wl_ok and rnd.random() < 0.8,
             "max_mappings": rnd.choice([1, None, None, 2, 6, 10])}
        if rnd.random() < 0.12:
            e["attrs_as"] = "tuple"
        out.append(e)
    return out


def pair_queries(rnd, engines, ngraphs, wl_ok=True):
    """The main pair (0, 1) with the filter off and on, both argument orders, embeddings; then further queries: other graph
    objects, other engines, a query repeated verbatim, a second engine object with an equal configuration."""
    e = engines[0]
    on, off = {**e, "wl1_filter": wl_ok}, {**e, "wl1_filter": False}
    qs = [{"op": "iso", "engine": off, "a": 0, "b": 1}, {"op": "iso", "engine": on, "a": 0, "b": 1},
          {"op": "iso", "engine": on, "a": 1, "b": 0}, {"op": "maps", "engine": on, "a": 0, "b": 1},
          {"op": "maps", "engine": off, "a": 0, "b": 1}]
    for _ in range(rnd.randint(0, 4)):
        r = rnd.random()
        if r < 0.25:
            qs.append(rnd.choice(qs))
        else:
            a = rnd.randrange(ngraphs)
            b = a if rnd.random() < 0.08 else rnd.choice([x for x in range(ngraphs) if x != a])
            eng = rnd.choice(engines)
            if r < 0.45:
                eng = {**eng, "instance": rnd.randint(2, 3)}  # ignored by both sides: only makes it a separate engine object
            qs.append({"op": rnd.choice(["iso", "iso", "maps"]), "engine": eng, "a": a, "b": b})
    if rnd.random() < 0.5:
        rnd.shuffle(qs)
    return qs


def gen_representation(ctx, count):
    rnd = ctx.rnd
    out = []
    for _ in range(count):
        r = rnd.random()
        symmetric = r < 0.15
        habs = rnd.choice([0.0, 0.0, 1.0])
        if symmetric:
            g1 = matchgen.symmetric_family(rnd, rnd.choice(["cycle", "star", "path", "kab", "rep"]), rnd.randint(3, 7))
        elif r < 0.3:
            g1 = matchgen.multi_component(rnd, [rnd.randint(1, 3) for _ in range(rnd.randint(2, 3))], elems=["C", "C", "N"], hcount_absent_p=habs)
        else:
            g1 = matchgen.mol_like(rnd, rnd.randint(2, 8), elems=["C", "C", "N", "O"] if rnd.random() < 0.7 else ["C"],
                                   charge_p=rnd.choice([0.1, 0.4]), hcount_absent_p=habs)
        full_attrs(g1)
        nkeys, ekeys = decorate(rnd, g1, symmetric)
        r = rnd.random()
        if r < 0.45:
            g2, _ = matchgen.relabelled_copy(rnd, g1)
            shape = "relabelled"
        elif r < 0.6:
            g2, _ = matchgen.relabelled_copy(rnd, g1)
            g2, kind = matchgen.one_edit(rnd, g2)
            shape = "one-edit"
        elif r < 0.72:
            g2, _ = matchgen.relabelled_copy(rnd, g1)
            g2, kind = edit_extra(rnd, g2, nkeys, ekeys)
            shape = "one-edit-extra"
        elif r < 0.82:
            g2, _ = matchgen.relabelled_copy(rnd, permute_labels(rnd, g1))
            shape = "labels-permuted"
        else:
            g2, tag = matchgen.pattern_from(rnd, g1, rnd.randint(1, max(1, len(g1) - 1)), 1, induced_p=0.8, edit_p=0.2)
            shape = "proper-pattern"
        graphs = [g1, g2]
        r = rnd.random()
        if r < 0.2:  # objects derived from an object that is queried too
            graphs.append(g1.copy())
            ctx.count("repr_third_object:copy-of-queried")
        elif r < 0.35:
            keep = matchgen.connected_subset(rnd, g1, rnd.randint(1, len(g1)))
            graphs.append(g1.subgraph(keep).copy())
            ctx.count("repr_third_object:subgraph-of-queried")
        elif r < 0.45:
            g3, _ = matchgen.relabelled_copy(rnd, g2)
            graphs.append(g3)
            ctx.count("repr_third_object:relabelled-copy")
        wl_ok = True
        if rnd.random() < 0.1:  # optional attributes missing on some nodes / edges: `.get` gives None on both sides; the WL
            wl_ok = False       # engine cannot sort None next to a value (assumption), so these are asked with the filter off
            for g in graphs:
                for v in g.nodes:
                    for k in ["charge"] + nkeys:
                        if rnd.random() < 0.2:
                            g.nodes[v].pop(k, None)
                for u, v in g.edges:
                    for k in ["order"] + ekeys:
                        if rnd.random() < 0.15:
                            g[u][v].pop(k, None)
            ctx.count("repr_attributes_absent(filter off)")
        if rnd.random() < 0.5:
            ctx.count("repr_unselected_noise_attributes")
            for g in graphs:
                if rnd.random() < 0.7:
                    add_noise(rnd, g)
        for k in nkeys:
            ctx.count("repr_extra_node_key:" + k)
        for k in ekeys:
            ctx.count("repr_extra_edge_key:" + k)
        orders = {type(d.get("order")).__name__ for d in (d for _, _, d in g1.edges(data=True))}
        ctx.count("repr_orders:" + ("none" if not orders else "strings" if orders == {"str"} else "numbers" if "str" not in orders else "strings+numbers"))
        # spelling: one mode per graph object (int graph vs float graph vs value-by-value mixtures)
        graphs = [retype_graph(rnd, g)[0] for g in graphs]
        # hcount is selectable only where every node of every graph carries it (a planted pattern may have dropped it)
        has_h = all("hcount" in d for g in graphs for _, d in g.nodes(data=True))
        engines = rich_engines(rnd, nkeys, ekeys, has_h, rnd.randint(1, 3), wl_ok)
        qs = pair_queries(rnd, engines, len(graphs), wl_ok)
        out.append((graphs, qs, "repr/" + ("symmetric/" if symmetric else "") + shape))
    return out


def gen_tiny_retyped(ctx, tiny, count):
    """Pairs of tiny classes; the second graph relabelled and re-spelled; selections containing the numeric keys."""
    rnd = ctx.rnd
    by_n = {}
    for g in tiny:
        by_n.setdefault(len(g), []).append(g)
    sels = [["element", "hcount"], ["element", "charge"], ["hcount"], ["charge", "element", "hcount"], ["hcount", "element"]]
    out = []
    for i in range(count):
        a = rnd.choice(tiny)
        r = rnd.random()
        if r < 0.5:
            b = a
        elif r < 0.85:
            b = rnd.choice(by_n[len(a)])
        else:
            b = rnd.choice(tiny)
        if len(b) > len(a):
            a, b = b, a
        b2 = nx.relabel_nodes(b, {v: v + 10 for v in b.nodes})
        a2, _ = retype_graph(rnd, a, rnd.choice(["asis", "int", "mixed"]), 0.0)
        b2, _ = retype_graph(rnd, b2, FORMS[i % len(FORMS)] if i % 3 else "mixed", rnd.choice([0.0, 0.0, 1.0]))
        e0 = {"node_attrs": sels[i % len(sels)], "edge_attrs": ["order"], "wl1_filter": False, "max_mappings": None}
        e1 = {**e0, "wl1_filter": True}
        qs = [{"op": "iso", "engine": e0, "a": 0, "b": 1}, {"op": "iso", "engine": e1, "a": 1, "b": 0},
              {"op": "iso", "engine": e1, "a": 0, "b": 1}, {"op": "maps", "engine": e1, "a": 0, "b": 1},
              {"op": "maps", "engine": e0, "a": 0, "b": 1}]
        out.append(([a2, b2], qs, "tiny-retyped/" + ("same-class" if b is a else "same-size" if len(a) == len(b) else "smaller")))
    return out


def gen_scale(ctx, count):
    """One to four nodes more than the random streams use, multi-digit node ids, larger max_mappings."""
    rnd = ctx.rnd
    out = []
    for _ in range(count):
        n = rnd.randint(9, 12)
        base = rnd.choice([0, 90, 1000, 10 ** 6])
        if rnd.random() < 0.15:
            g1 = matchgen.symmetric_family(rnd, rnd.choice(["cycle", "path", "rep"]), n, base=base)
        else:
            g1 = matchgen.mol_like(rnd, n, ids=range(base, base + n), elems=["C", "C", "N", "O"], hcount_absent_p=rnd.choice([0.0, 0.15]))
        full_attrs(g1)
        r = rnd.random()
        if r < 0.4:
            g2, _ = matchgen.relabelled_copy(rnd, g1, base=rnd.choice([None, 500, 10 ** 5]))
            shape = "relabelled"
        elif r < 0.65:
            g2, _ = matchgen.relabelled_copy(rnd, g1)
            g2, _ = matchgen.one_edit(rnd, g2)
            shape = "one-edit"
        else:
            k = rnd.choice([n - 1, n - 1, n - 2, rnd.randint(1, n - 1)])
            g2, _ = matchgen.pattern_from(rnd, g1, k, 1, induced_p=0.8, edit_p=0.2)
            shape = "proper-pattern"
        graphs = [g1, full_attrs(g2)]
        if rnd.random() < 0.5:
            graphs = [retype_graph(rnd, g)[0] for g in graphs]
            shape += "+respelled"
        e = rand_engine(rnd, wl=False, mm=rnd.choice([1, 6, 10, 100, None]))
        if "hcount" not in e["node_attrs"] and all("hcount" in d for g in graphs for _, d in g.nodes(data=True)) and rnd.random() < 0.2:
            e = {**e, "node_attrs": e["node_attrs"] + ["hcount"]}
        on = {**e, "wl1_filter": True}
        qs = [{"op": "iso", "engine": e, "a": 0, "b": 1}, {"op": "iso", "engine": on, "a": 0, "b": 1},
              {"op": "iso", "engine": on, "a": 1, "b": 0}, {"op": "maps", "engine": on, "a": 0, "b": 1},
              {"op": "maps", "engine": e, "a": 0, "b": 1}]
        out.append((graphs, qs, f"scale/{shape}"))
    return out


def respell_values(rnd, graphs):
    """The same re-labelling of bond orders / element symbols in all graphs of a case (falsy, string-valued, multi-digit)."""
    om = rnd.choice(ORDER_MAPS)
    em = rnd.choice([None, None, {"N": ""}, {"N": "Cl", "O": "c"}])
    for g in graphs:
        if om:
            for u, v in g.edges:
                if "order" in g[u][v]:
                    g[u][v]["order"] = om.get(g[u][v]["order"], g[u][v]["order"])
        if em:
            for v in g.nodes:
                if "element" in g.nodes[v]:
                    g.nodes[v]["element"] = em.get(g.nodes[v]["element"], g.nodes[v]["element"])
    return ("+orders" if om else "") + ("+elements" if em else "")


def respelled(rnd, graphs, values=True):
    """-> (new graph objects, shape suffix): values re-labelled consistently, noise attributes, numbers / strings re-spelled
    independently per graph."""
    graphs = [g.copy() for g in graphs]
    sfx = respell_values(rnd, graphs) if values and rnd.random() < 0.4 else ""
    for g in graphs:
        if rnd.random() < 0.3:
            add_noise(rnd, g)
    return [retype_graph(rnd, g)[0] for g in graphs], sfx


def gen_repr_sub(ctx, n1, n2):
    cs = []
    for child, parent, cfg, shape in gen_sub(ctx, n1) + gen_sub_options(ctx, n2):
        (child, parent), sfx = respelled(ctx.rnd, [child, parent])
        cs.append((child, parent, cfg, "repr-" + shape + sfx))
    return cs


def gen_repr_giso(ctx, n):
    gi = []
    for _ in range(n):
        g1, g2, shape = gen_pair(ctx.rnd)
        (g1, g2), sfx = respelled(ctx.rnd, [g1, g2])
        gi.append((g1, g2, ctx.rnd.random() < 0.6, "repr-" + shape + sfx))
    return gi


def gen_repr_search(ctx, n):
    cs = []
    for host, pat, nk, ek, cfgs, shape in gen_prefilter(ctx, n):
        (host, pat), sfx = respelled(ctx.rnd, [host, pat])
        cs.append((host, pat, nk, ek, cfgs, "repr-" + shape + sfx))
    return cs


SUB_SELECTIONS = [(["element", "charge"], [{"s": "*"}, {"n": 0}]), (["element"], [{"s": "*"}]), ([], []), (["charge"], [{"n": 0}]),
                  (["charge", "element"], [{"n": 0}, {"s": "C"}]), (["element"], [{"s": "C"}]), (["element", "hcount"], [{"s": "*"}, {"n": 0}])]


def gen_sub_options(ctx, count):
    """The boolean sub-graph tests under the options the original stream keeps fixed: falsy / absent edge attribute,
    other label selections and defaults (with attributes missing so that defaults matter), explicit comparators."""
    rnd = ctx.rnd
    out = []
    for _ in range(count):
        parent, child, shape = gen_host_pattern(rnd)
        if rnd.random() < 0.5:  # missing attributes: defaults / None labels matter
            for g in (parent, child):
                for v in g.nodes:
                    for k in ("charge", "element", "hcount"):
                        if rnd.random() < 0.2:
                            g.nodes[v].pop(k, None)
                for u, v in g.edges:
                    if rnd.random() < 0.15:
                        g[u][v].pop("order", None)
        names, defaults = rnd.choice(SUB_SELECTIONS)
        cfg = {"names": names, "defaults": defaults, "edge_attr": rnd.choice(["order", "order", "", None, None, "bond"]),
               "use_filter": rnd.random() < 0.5, "induced": rnd.random() < 0.5}
        r = rnd.random()
        if r < 0.2:
            cfg["node_cmp"] = "eq"
            cfg["edge_cmp"] = rnd.choice([None, "eq"])
        elif r < 0.4:  # constant-true comparator = attribute not selected (filter off: the filter compares with `!=`)
            cfg["use_filter"] = False
            cfg["node_cmp"], cfg["edge_cmp"] = rnd.choice([("true", None), (None, "true"), ("true", "true"), ("true", "eq")])
        elif r < 0.5:
            cfg["backend"] = rnd.choice(["mod", "NX", "bogus"])
            if cfg["edge_attr"] is None:
                cfg["edge_attr"] = ""
        out.append((child, parent, cfg, "subopt/" + shape))
        if rnd.random() < 0.5 and cfg.get("node_cmp") != "true" and cfg.get("edge_cmp") != "true":
            out.append((child, parent, {**cfg, "use_filter": not cfg["use_filter"]}, "subopt/" + shape))
    return out


def gen_degenerate(ctx, count):
    """Engine queries the original streams never ask: empty graphs, a graph against itself, `node_attrs=None`,
    the backend spelled in upper case, unsupported backends."""
    rnd = ctx.rnd
    out = []
    for _ in range(count):
        g1, g2, shape = gen_pair(rnd)
        graphs = [g1, g2, nx.Graph()]
        if rnd.random() < 0.5:
            one = nx.Graph()
            one.add_node(rnd.randint(0, 60), element=rnd.choice(["C", "N"]), charge=0, hcount=rnd.choice([0, 1]))
            graphs.append(one)
        engines = []
        for _ in range(rnd.randint(1, 3)):
            e = rand_engine(rnd)
            r = rnd.random()
            if r < 0.3:
                e["none_for_empty"] = True
            elif r < 0.5:
                e["backend"] = rnd.choice(["NX", "Nx"])
            elif r < 0.65:
                e["backend"] = rnd.choice(["rule", "mod", "bogus"])
            engines.append(e)
        qs = []
        for _ in range(rnd.randint(2, 5)):
            a = rnd.randrange(len(graphs))
            b = a if rnd.random() < 0.3 else rnd.randrange(len(graphs))
            qs.append({"op": rnd.choice(["iso", "maps"]), "engine": rnd.choice(engines), "a": a, "b": b})
        out.append((graphs, qs, "degenerate/" + shape.split(":")[0]))
    return out


def gen_tiny(ctx):
    labels = [("C", 0), ("C", 1), ("N", 0)]
    gs = []
    for n in range(1, (3 if ctx.quick else 4) + 1):
        gs += matchgen.tiny_graphs(n, labels if n <= 3 else [("C", 0), ("N", 0)], (1, 2) if n <= 3 else (1,))
    return gs


def load_regress():
    out = []
    d = ROOT / "regress" / "C07"
    if d.exists():
        for f in sorted(d.glob("*.json")):
            out.append(json.loads(f.read_text()))
    return out


def run_case_json(ctx, c, tag):
    if c.get("kind") == "sub":
        eval_sub(ctx, [(untyped(c, "child"), untyped(c, "parent"), c["cfg"], "regress")], tag)
    elif c.get("kind") == "giso":
        eval_giso(ctx, [(untyped(c, "g1"), untyped(c, "g2"), c["use_defaults"], "regress")], tag)
    elif c.get("kind") == "search":
        cfg = {k: v for k, v in c["cfg"].items() if k != "pre_filter"}
        eval_search(ctx, [(untyped(c, "host"), untyped(c, "pattern"), c["node_keys"], c["edge_keys"], [cfg], "regress")], tag)
    else:
        ty = c.get("types") or [None] * len(c["graphs"])
        eval_histories(ctx, [([apply_types(graphio.to_nx(g), t) for g, t in zip(c["graphs"], ty)], c["queries"], "regress")], tag)


def run(ctx):
    ctx.trusted = [
        "Lean 4.33 kernel; axioms of the property theorems as listed in obligation_list",
        "hand-written model SynKitModel/GraphMatcherEngine.lean (+ Match.lean) tied to /repo by this correspondence run",
        "NetworkX VF2 (is_isomorphic, subgraph_is_isomorphic/monomorphic, *_iter) honours the node/edge closures it is given; its "
        "enumeration order is not modelled (embedding lists are gated on validity + length)",
        "Driver/GraphMatcherEngine.lean JSON codec, harness/graphio.py encoding, sorting of mapping sets",
        "representation streams: `retype_graph` only re-spells values (checked on every graph: the encoding sent to Lean is unchanged); the "
        "`types` table of a reported case + `apply_types` rebuild the same Python objects on replay",
        "stream prefilter: model SynKitModel/SubgraphSearch.lean through driver command c06.search (its theorems, incl. prefilter_spec / "
        "prefilter_zero_sound / prefilter_zero_lossless / prefilter_sound_or_large, are audited by ./check C06); harness cand_counts "
        "(the documented candidate definition, re-implemented here) only to classify a difference, cross-checked against the model on every case",
    ]
    ctx.assumptions = [
        "simple undirected graphs, non-negative integer node ids; every node carries every attribute an engine with wl1_filter compares "
        "(the WL histogram sorts label tuples, which Python cannot do for mixed None/str values)",
        "hydrogen rule as documented: the first argument of isomorphic() plays host when sizes are equal (DESIGN 5a)",
        "graph objects are not mutated between queries of a history (the cache is documented to go stale otherwise)",
        "find_subgraph_mappings(pre_filter=True): the candidate-product guard (docstring: result empty if the pre-filter guard exceeds the "
        "threshold) is the one documented way the pre-filter may change a result set; it is compared with the model as coded (product > "
        "threshold*1e4), a difference confined to products above the threshold is reported as a broken correspondence, not as a C07 violation; "
        "strict_cc_count / threshold semantics of the strategies are C06's and taken from the model as coded",
        "SubgraphMatch.subgraph_isomorphism / is_subgraph document `edge_attribute: str`: None is passed to graph_morphism.subgraph_isomorphism only "
        "(the SubgraphMatch copy raises TypeError on None — recorded, not gated); a constant-true comparator is read as 'attribute not selected' "
        "and only generated with use_filter=False",
        "a backend name other than 'nx' (incl. 'NX', which the engine lower-cases today) must raise or answer as the model does; mod is not installed, so the rule back-end itself is not exercised",
        "attribute values are compared as Python compares them (`==`): 1, 1.0, numpy.int64(1), numpy.float64(1.0) are one label, 'C' and "
        "numpy.str_('C') are one label (graphio encodes them to one Lean value); bool is kept apart from int (never mixed under one key); node ids "
        "stay plain ints; attribute selections given as a tuple instead of the documented list must raise or answer as the model does",
    ]
    ctx.gen_rule = ("regression corpus first; tiny-exhaustive: all ordered pairs of graph classes with <=3 (quick) / <=4 (thorough) nodes over "
                    "2 elements x hcount{0,1} x orders{1,2}: isomorphic() with filter off/on in both argument orders, get_mappings(max_mappings=None), "
                    "sub-graph tests induced/mono with filter off/on; random: molecule-like graphs <=8 nodes, relabelled copies, one-edit "
                    "neighbours, unrelated pairs, strictly smaller planted/edited patterns, symmetric families; max_mappings in {0,1,2,5,None}; "
                    "query histories of 2-6 queries by 2-3 engines with attribute selections from {element},{element,charge},{charge},{} on 2-3 "
                    "shared graph objects; graph_isomorphism with/without defaults. Added streams: prefilter (350 quick / 4000 thorough pairs for "
                    "find_subgraph_mappings, each with strategies all/comp/bt at the default threshold plus thresholds from {0,1,2,3,10}, "
                    "pre_filter off and on, strategy as string or enum; 30% planted patterns in molecule-like or multi-component hosts, 20% one pattern "
                    "node at / one above the largest hydrogen count of its element, 20% relabelled copy (degrees equal) or with one pendant neighbour "
                    "too many, 12% one-edit, 8% symmetric families and 5% order-labelled chains with small thresholds (candidate-product guard), 5% "
                    "empty / isolated-node graphs; selections {element},{element,charge},{},{charge,element},{element,in_ring (partly absent)}); "
                    "sub-options (300 / 3000: edge_attribute in {'order','',None,'bond'}, 7 label selections/defaults with attributes dropped, "
                    "comparators none / eq / constant-true, is_subgraph back-ends 'mod','NX','bogus'); degenerate (150 / 1500 histories over a pair, "
                    "the empty graph and a single node: same-object queries, node_attrs=None, backend 'NX'/'Nx' and unsupported names). "
                    "Representation / scale streams: representation (450 / 5000 histories of 5-9 queries on 2-3 graph objects: relabelled copy 45%, "
                    "one-edit 15%, one value of an extra key edited 12%, labels permuted over the skeleton 10%, strictly smaller planted pattern 18%; "
                    "third object = copy / induced sub-graph / relabelled copy of a queried one in 45%; numbers spelled int / float / numpy.int64 / "
                    "int32 / float64, one form per graph or value by value, strings as numpy.str_ with p in {0, .5, 1}; extra keys aromatic(bool), "
                    "isotope{0,12,13,2500}, grp(tuples (), (1,2), (2,1), (1,), (1,2,3)), name{'', 'a', 'A', 'a '}, label on nodes and edges, ring(bool) "
                    "on edges; bond orders re-labelled to symbols / words / digit strings / 0 / 10, 12 in 6 of 8 cases; element '' or 'Cl'/'c' in 30%; charges "
                    "x10/x12 in 20%, hydrogen counts +10 in 15%; unselected weight/capacity/id/color attributes in 50%; attributes dropped (filter off) "
                    "in 10%; 1-3 engines over the available keys, permuted, 12% given as tuples; the pair asked with the filter off and on in both "
                    "argument orders, plus up to 4 further queries incl. verbatim repeats and equal-configuration engine objects); tiny-retyped "
                    "(400 / 5000 pairs of tiny classes, same class 50% / same size 35%, second graph re-spelled, selections over element / charge / "
                    "hcount); scale (120 / 1200 pairs with 9-12 nodes, ids from 0 / 90 / 1000 / 10^6, max_mappings in {1,6,10,100,None}, half of them "
                    "re-spelled); repr-sub (250 / 2500), repr-giso (100 / 1000), repr-search (150 / 1500): the inputs of the sub-graph, "
                    "graph_isomorphism and pre-filter generators with values re-labelled consistently (40%), noise attributes (30%) and every graph re-spelled.")
    ctx.nontrivial_rule = "case distinct as JSON, some graph has >=2 nodes and at least one positive answer (true verdict / non-empty embeddings)"
    build_and_audit(ctx, ["SynKitProofs.Props.C07"], "SynKitProofs/Audit/C07.lean", THEOREMS)

    reg = load_regress()
    for c in reg:
        run_case_json(ctx, c, "regress")
    ctx.count("regress_cases", len(reg))

    tiny = gen_tiny(ctx)
    e0 = {"node_attrs": ["element"], "edge_attrs": ["order"], "wl1_filter": False, "max_mappings": None}
    e1 = {**e0, "wl1_filter": True}
    hist, subs = [], []
    pairs = [(a, b) for a in tiny for b in tiny if len(b) <= len(a)]
    cap = 2500 if ctx.quick else 30000
    if len(pairs) > cap:
        pairs = ctx.rnd.sample(pairs, cap)
        ctx.extra["exhaustive"] = False
    else:
        ctx.extra["exhaustive"] = True
    ctx.extra["exhaustive_part"] = f"{len(tiny)} graph classes, {len(pairs)} ordered pairs (pattern no larger than host)"
    for a, b in pairs:
        b2 = nx.relabel_nodes(b, {v: v + 10 for v in b.nodes})
        qs = [{"op": "iso", "engine": e0, "a": 0, "b": 1}, {"op": "iso", "engine": e1, "a": 1, "b": 0},
              {"op": "maps", "engine": e1, "a": 0, "b": 1}, {"op": "maps", "engine": e0, "a": 0, "b": 1}]
        hist.append(([a, b2], qs, "tiny"))
        cfg = {"names": ["element", "charge"], "defaults": [{"s": "*"}, {"n": 0}], "edge_attr": "order",
               "use_filter": True, "induced": len(subs) % 2 == 0}
        subs.append((b2, a, cfg, "tiny"))
    if not ctx.violations:
        eval_histories(ctx, hist, "tiny-exhaustive")
    if not ctx.violations:
        eval_sub(ctx, subs, "tiny-exhaustive")

    nrand = 700 if ctx.quick else 8000
    if not ctx.violations:
        eval_histories(ctx, gen_histories(ctx, nrand), "random")
    if not ctx.violations:
        eval_sub(ctx, gen_sub(ctx, nrand // 2), "random")
    if not ctx.violations:
        gi = []
        for _ in range(nrand // 4):
            g1, g2, shape = gen_pair(ctx.rnd)
            if ctx.rnd.random() < 0.5:  # make the defaults matter: drop order 1 / charge 0 / set element "*" on one side
                for g in (g1, g2):
                    for u, v in g.edges:
                        if g[u][v].get("order") == 1.0 and ctx.rnd.random() < 0.5:
                            del g[u][v]["order"]
                    for v in g.nodes:
                        if g.nodes[v].get("charge") == 0 and ctx.rnd.random() < 0.4:
                            del g.nodes[v]["charge"]
                shape += "+defaults"
            gi.append((g1, g2, ctx.rnd.random() < 0.6, shape))
        eval_giso(ctx, gi, "random")
    # ---- streams added for anchor coverage (kept after the original ones so that their draws are unchanged)
    if not ctx.violations:
        eval_search(ctx, gen_prefilter(ctx, 350 if ctx.quick else 4000), "prefilter")
    if not ctx.violations:
        eval_sub(ctx, gen_sub_options(ctx, 300 if ctx.quick else 3000), "sub-options")
    if not ctx.violations:
        eval_histories(ctx, gen_degenerate(ctx, 150 if ctx.quick else 1500), "degenerate")
    # ---- representation / scale streams (after everything else: the earlier draws are unchanged)
    if not ctx.violations:
        eval_histories(ctx, gen_representation(ctx, 450 if ctx.quick else 5000), "representation")
    if not ctx.violations:
        eval_histories(ctx, gen_tiny_retyped(ctx, tiny, 400 if ctx.quick else 5000), "tiny-retyped")
    if not ctx.violations:
        eval_histories(ctx, gen_scale(ctx, 120 if ctx.quick else 1200), "scale")
    if not ctx.violations:
        eval_sub(ctx, gen_repr_sub(ctx, 150 if ctx.quick else 1500, 100 if ctx.quick else 1000), "repr-sub")
    if not ctx.violations:
        eval_giso(ctx, gen_repr_giso(ctx, 100 if ctx.quick else 1000), "repr-giso")
    if not ctx.violations:
        eval_search(ctx, gen_repr_search(ctx, 150 if ctx.quick else 1500), "repr-search")
    ctx.obligation("correspondence: engine verdicts / embeddings / histories, sub-graph tests, graph_isomorphism, "
                   "find_subgraph_mappings with the pre-filter on/off impl == model", not ctx.violations)


def replay(ctx, case):
    c = case["case"] if "case" in case else case
    run_case_json(ctx, c, "replay")

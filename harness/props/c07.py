"""C07 — isomorphism verdicts and embeddings are correct; pre-filters never change them.

Correspondence: `GraphMatcherEngine.isomorphic / get_mappings` (incl. the class-level WL cache, run as
query histories over shared graph objects), `SubgraphMatch.subgraph_isomorphism / is_subgraph`,
`graph_morphism.subgraph_isomorphism / graph_isomorphism` (real code, in-process) against the Lean
model `SynKitModel/GraphMatcherEngine.lean`, whose answers are proved (Props/C07.lean) to be the
specification (verdict <=> a label-preserving bijection / induced / monomorphic embedding exists;
embeddings valid, non-empty iff contained; filters sound; cache transparent).

Gates (only what C07 determines):
* verdicts impl == model;
* embeddings: VF2's enumeration order is not specified, so the returned list must be duplicate-free,
  consist of pattern->host induced embeddings (members of the model's complete set) and have the
  model's length (min(max_mappings, total); 1 in the equal-size shortcut; 0 iff not contained);
* every query of a history on shared graph objects is also compared with the cache-free answer;
* filter on == filter off, relabelled copies get the same verdict, symmetric under equal/absent hcount
  (metamorphic gates on the implementation itself, mirroring the theorems).
"""
import json

import networkx as nx

from .. import graphio, matchgen
from ..core import ROOT, build_and_audit

THEOREMS = [
    "SynKit.GME.cache_transparent",
    "SynKit.GME.get_mappings_valid",
    "SynKit.GME.get_mappings_nonempty_iff_contained_partial",
    "SynKit.GME.isomorphic_sound",
    "SynKit.GME.isomorphic_iff_partial",
    "SynKit.GME.isomorphic_false_of_size",
    "SynKit.GME.isomorphic_relabel",
    "SynKit.GME.isomorphic_symm",
    "SynKit.GME.subgraph_induced_iff",
    "SynKit.GME.subgraph_mono_iff",
    "SynKit.GME.subgraph_filter_irrelevant",
    "SynKit.GME.filter_sound_sub",
    "SynKit.GME.filter_sound_size",
    "SynKit.GME.filter_sound_wl_base",
    "SynKit.GME.preCheck_sound_partial",
    "SynKit.GME.graph_isomorphism_iff",
    "SynKit.Match.isoDecide_iff",
    "SynKit.Match.mem_allInduced",
    "SynKit.Match.isoDecide_relabel_host",
    "SynKit.Match.isoDecide_relabel_pattern",
    "SynKit.Match.isoDecide_symm",
    "SynKit.Match.isoDecide_refl",
    "SynKit.GME.wl_refined_sound",
    "SynKit.GME.preCheck_sound",
    "SynKit.GME.get_mappings_nonempty_iff_contained",
    "SynKit.GME.isomorphic_iff",
]

NODE_ATTRS = [["element"], ["element", "charge"], ["element", "charge"], []]
EDGE_ATTRS = [["order"], ["order"], []]


# ---------------------------------------------------------------- implementation adapters
def mk_engine(cfg):
    from synkit.Graph.Matcher.graph_matcher import GraphMatcherEngine

    return GraphMatcherEngine(node_attrs=list(cfg["node_attrs"]), edge_attrs=list(cfg["edge_attrs"]),
                              wl1_filter=cfg["wl1_filter"], max_mappings=cfg["max_mappings"])


def impl_history(graphs, queries):
    """graphs: list of nx graphs (shared objects); queries: [{op, engine, a, b}] -> answers"""
    snap = [g.copy() for g in graphs]
    engines = {}
    out = []
    for q in queries:
        key = json.dumps(q["engine"], sort_keys=True)
        if key not in engines:
            engines[key] = mk_engine(q["engine"])
        e = engines[key]
        try:
            if q["op"] == "iso":
                out.append({"verdict": bool(e.isomorphic(graphs[q["a"]], graphs[q["b"]]))})
            else:
                res = e.get_mappings(graphs[q["a"]], graphs[q["b"]])
                lst = [graphio.mapping(m) for m in res]
                out.append({"maps": sorted(lst), "n": len(lst), "dups": len(lst) - len({json.dumps(m) for m in lst})})
        except Exception as ex:
            out.append({"error": type(ex).__name__ + ": " + str(ex)[:200]})
    mutated = any(not matchgen.graphs_equal(a, b) for a, b in zip(graphs, snap))
    return out, mutated


def judge_answer(q, impl, mod):
    if "error" in impl:
        return "raised " + impl["error"]
    if q["op"] == "iso":
        if impl["verdict"] != mod["verdict"]:
            return f"verdict {impl['verdict']}; a label-preserving bijection {'exists' if mod['verdict'] else 'does not exist'}"
        return None
    if impl["dups"]:
        return "embeddings contain duplicates"
    allm = {json.dumps(m) for m in mod["all"]}
    bad = [m for m in impl["maps"] if json.dumps(m) not in allm]
    if bad:
        return f"returned mapping {bad[0]} is not a pattern->host induced embedding"
    if impl["n"] != mod["n"]:
        return (f"{impl['n']} embedding(s) returned, the property demands {mod['n']} "
                f"({len(allm)} exist; max_mappings={q['engine']['max_mappings']})")
    return None


def hist_request(graphs, queries):
    return {"cmd": "c07.history", "graphs": [graphio.graph(g) for g in graphs], "queries": queries}


def hist_case(graphs, queries):
    return {"kind": "history", "graphs": [graphio.graph(g) for g in graphs], "queries": queries}


def impl_sub(which, child, parent, cfg):
    from synkit.Graph.Matcher.subgraph_matcher import SubgraphMatch
    from synkit.Graph.Matcher import graph_morphism

    kw = dict(node_label_names=list(cfg["names"]), node_label_default=[graphio.unval(d) for d in cfg["defaults"]],
              edge_attribute=cfg["edge_attr"], use_filter=cfg["use_filter"],
              check_type="induced" if cfg["induced"] else "monomorphism")
    c0, p0 = child.copy(), parent.copy()
    try:
        if which == "SubgraphMatch":
            r = SubgraphMatch.subgraph_isomorphism(child, parent, **kw)
        elif which == "is_subgraph":
            r = SubgraphMatch.is_subgraph(child, parent, **kw, backend="nx")
        else:
            r = graph_morphism.subgraph_isomorphism(child, parent, **kw)
    except Exception as ex:
        return {"error": type(ex).__name__ + ": " + str(ex)[:200]}
    return {"verdict": bool(r), "mutated": not (matchgen.graphs_equal(child, c0) and matchgen.graphs_equal(parent, p0))}


def sub_request(child, parent, cfg):
    return {"cmd": "c07.sub", "child": graphio.graph(child), "parent": graphio.graph(parent), **cfg}


def impl_giso(g1, g2, use_defaults):
    from synkit.Graph.Matcher.graph_morphism import graph_isomorphism

    try:
        return {"verdict": bool(graph_isomorphism(g1, g2, use_defaults=use_defaults))}
    except Exception as ex:
        return {"error": type(ex).__name__ + ": " + str(ex)[:200]}


# ---------------------------------------------------------------- evaluation
def eval_histories(ctx, cases, tag):
    """cases: list of (graphs, queries, shape)"""
    if not cases:
        return
    mods = ctx.lean().ok([hist_request(g, q) for g, q, _ in cases], shards=8)
    for (graphs, queries, shape), mod in zip(cases, mods):
        ctx.count("stream:" + tag)
        ctx.count("shape:" + shape)
        impl, mutated = impl_history(graphs, queries)
        pos = sum(1 for a in mod["answers"] if a.get("verdict") or a.get("n"))
        for q, a in zip(queries, mod["answers"]):
            ctx.count("query:" + q["op"] + ("+wl" if q["engine"]["wl1_filter"] else ""))
            if q["op"] == "iso":
                ctx.count("iso:" + ("true" if a["verdict"] else "false"))
            else:
                ctx.count("maps:" + ("0" if a["n"] == 0 else "1" if a["n"] == 1 else "many")
                          + ("/proper" if len(graphs[q["b"]]) < len(graphs[q["a"]]) else ""))
        ctx.case([[graphio.graph(g) for g in graphs], queries], pos >= 1 and max(len(g) for g in graphs) >= 2,
                 sample={"stream": tag, **hist_case(graphs, queries)} if max(len(g) for g in graphs) <= 3 and len(queries) <= 2 else None)
        if mod["answers"] != mod["pure"]:
            ctx.violation("model: history answers differ from cache-free answers (theorem cache_transparent contradicted)",
                          hist_case(graphs, queries), None, no_input=True)
        why, at = None, None
        if mutated:
            why, at = "an input graph was modified", len(queries) - 1
        for i, (q, a, m) in enumerate(zip(queries, impl, mod["answers"])):
            w = judge_answer(q, a, m)
            if w:
                why, at = w, i
                break
        if why is None:
            continue
        report_history(ctx, graphs, queries[:at + 1], why, tag)
        if len(ctx.violations) >= 5:
            return


def history_fails(ctx, graphs, queries):
    mod = ctx.lean().ok([hist_request(graphs, queries)])[0]
    impl, mutated = impl_history([g.copy() for g in graphs], queries)
    if mutated:
        return "an input graph was modified"
    if "error" in impl[-1] or any("error" in a for a in impl):
        return None  # while shrinking, an exception is a different failure: do not follow it
    # only the LAST query is the observed one; earlier ones are the history
    return judge_answer(queries[-1], impl[-1], mod["answers"][-1])


def report_history(ctx, graphs, queries, why, tag):
    from ..shrink import shrink_seq

    last = queries[-1]
    graphs0, queries0 = list(graphs), list(queries)
    # 1. drop earlier queries
    prefix = shrink_seq(queries[:-1], lambda cand: history_fails(ctx, graphs, list(cand) + [last]) is not None)
    queries = list(prefix) + [last]
    # 2. shrink the graphs the last query looks at
    a, b = last["a"], last["b"]
    if a != b:
        def fails(ga, gb):
            gs = list(graphs)
            gs[a], gs[b] = ga, gb
            return history_fails(ctx, gs, queries) is not None
        ga, gb = matchgen.shrink_pair(graphs[a], graphs[b], fails, budget=200)
        graphs = list(graphs)
        graphs[a], graphs[b] = ga, gb
    if history_fails(ctx, graphs, queries) is None:  # e.g. the original failure was an exception: report it unshrunk
        graphs, queries = graphs0, queries0
    why2 = history_fails(ctx, graphs, queries) or why
    mod = ctx.lean().ok([hist_request(graphs, queries)])[0]
    impl, _ = impl_history([g.copy() for g in graphs], queries)
    ctx.violation("GraphMatcherEngine answer departs from the specification", hist_case(graphs, queries),
                  {"clause": why2, "stream": tag, "history_dependent": len(queries) > 1,
                   "implementation": impl[-1], "specification": {k: v for k, v in mod["answers"][-1].items() if k != "all"},
                   "embeddings_that_exist": len(mod["answers"][-1].get("all", [])) if "all" in mod["answers"][-1] else None})


def eval_sub(ctx, cases, tag):
    """cases: list of (child, parent, cfg, shape)"""
    if not cases:
        return
    mods = ctx.lean().ok([sub_request(c, p, cfg) for c, p, cfg, _ in cases], shards=8)
    for (child, parent, cfg, shape), mod in zip(cases, mods):
        ctx.count("stream:" + tag)
        ctx.count("shape:" + shape)
        ctx.count("sub:" + ("induced" if cfg["induced"] else "mono") + ("+filter" if cfg["use_filter"] else "")
                  + (":true" if mod["verdict"] else ":false"))
        if cfg["use_filter"] and not mod["filter"]:
            ctx.count("sub_filter_rejected")
        ctx.case([graphio.graph(child), graphio.graph(parent), cfg], mod["verdict"] and len(parent) >= 2)
        for which in ("SubgraphMatch", "graph_morphism", "is_subgraph"):
            impl = impl_sub(which, child, parent, cfg)
            why = None
            if "error" in impl:
                why = "raised " + impl["error"]
            elif impl["mutated"]:
                why = "an input graph was modified"
            elif impl["verdict"] != mod["verdict"]:
                kind = "induced" if cfg["induced"] else "monomorphic"
                why = f"{which}: verdict {impl['verdict']}; the child {'is' if mod['verdict'] else 'is not'} {kind}ly contained (use_filter={cfg['use_filter']})"
            if why is None:
                continue

            def fails(c, p):
                m = ctx.lean().ok([sub_request(c, p, cfg)])[0]
                r = impl_sub(which, c, p, cfg)
                return "error" not in r and r["verdict"] != m["verdict"]
            c2, p2 = matchgen.shrink_pair(child, parent, fails, budget=200)
            m2 = ctx.lean().ok([sub_request(c2, p2, cfg)])[0]
            ctx.violation("boolean sub-graph test departs from the definition of containment",
                          {"kind": "sub", "which": which, "child": graphio.graph(c2), "parent": graphio.graph(p2), "cfg": cfg},
                          {"clause": why, "stream": tag, "implementation": impl_sub(which, c2, p2, cfg), "specification": m2})
            break
        if len(ctx.violations) >= 5:
            return


def eval_giso(ctx, cases, tag):
    if not cases:
        return
    mods = ctx.lean().ok([{"cmd": "c07.giso", "g1": graphio.graph(a), "g2": graphio.graph(b), "use_defaults": d} for a, b, d, _ in cases], shards=8)
    for (g1, g2, d, shape), mod in zip(cases, mods):
        ctx.count("stream:" + tag)
        ctx.count("giso:" + ("true" if mod else "false") + ("+defaults" if "+defaults" in shape else ""))
        ctx.case([graphio.graph(g1), graphio.graph(g2), d], bool(mod))
        impl = impl_giso(g1, g2, d)
        if "error" in impl or impl["verdict"] != mod:
            ctx.violation("graph_isomorphism verdict departs from the specification",
                          {"kind": "giso", "g1": graphio.graph(g1), "g2": graphio.graph(g2), "use_defaults": d},
                          {"implementation": impl, "specification": mod, "stream": tag})
            if len(ctx.violations) >= 5:
                return


# ---------------------------------------------------------------- generators
def rand_engine(rnd, wl=None, mm=None):
    return {"node_attrs": rnd.choice(NODE_ATTRS), "edge_attrs": rnd.choice(EDGE_ATTRS),
            "wl1_filter": (rnd.random() < 0.5) if wl is None else wl,
            "max_mappings": rnd.choice([1, 1, None, 2, 0, 5]) if mm is None else mm}


def full_attrs(g):
    """WL hashing sorts label tuples: keep attribute types homogeneous (every node has every compared key)."""
    for v in g.nodes:
        g.nodes[v].setdefault("charge", 0)
        g.nodes[v].setdefault("element", "C")
    return g


def gen_pair(rnd):
    """-> (g1, g2, shape) for isomorphism-type questions"""
    n = rnd.randint(1, 8)
    r = rnd.random()
    if r < 0.12:
        g1 = matchgen.symmetric_family(rnd, rnd.choice(["cycle", "star", "path", "kab", "rep"]), rnd.randint(2, 7))
    elif r < 0.3:
        g1 = matchgen.multi_component(rnd, [rnd.randint(1, 3) for _ in range(rnd.randint(2, 3))], elems=["C", "C", "N"])
    else:
        g1 = matchgen.mol_like(rnd, n, elems=["C", "C", "N", "O"] if rnd.random() < 0.7 else ["C"],
                               hcount_absent_p=rnd.choice([0.0, 0.15, 1.0]))
    full_attrs(g1)
    r = rnd.random()
    if r < 0.4:
        g2, _ = matchgen.relabelled_copy(rnd, g1)
        shape = "relabelled"
    elif r < 0.8:
        g2, _ = matchgen.relabelled_copy(rnd, g1)
        g2, kind = matchgen.one_edit(rnd, g2)
        shape = "one-edit:" + kind
    elif r < 0.9:
        g2 = full_attrs(matchgen.mol_like(rnd, len(g1), ids=range(50, 50 + len(g1)), elems=["C", "N"]))
        shape = "unrelated-same-size"
    else:
        g2 = full_attrs(matchgen.mol_like(rnd, rnd.randint(1, 8), ids=range(50, 58), elems=["C", "N"]))
        shape = "unrelated"
    return g1, g2, shape


def gen_host_pattern(rnd):
    n = rnd.randint(2, 8)
    if rnd.random() < 0.15:
        host = matchgen.symmetric_family(rnd, rnd.choice(["cycle", "star", "path", "kab"]), rnd.randint(3, 7))
    else:
        host = matchgen.mol_like(rnd, n, elems=["C", "C", "N", "O"])
    full_attrs(host)
    r = rnd.random()
    if r < 0.55:
        k = rnd.randint(1, max(1, len(host) - 1))
        pat, tag = matchgen.pattern_from(rnd, host, k, 1, induced_p=0.8, edit_p=0.25)
        shape = "proper/" + tag.split(":")[0]
    elif r < 0.8:
        pat, _ = matchgen.relabelled_copy(rnd, host, base=100)
        shape = "same-size/copy"
        if rnd.random() < 0.4:
            pat, kind = matchgen.one_edit(rnd, pat)
            shape = "same-size/edit"
        for v in pat.nodes:  # host >= pattern hydrogen rule
            if "hcount" in pat.nodes[v] and rnd.random() < 0.3:
                pat.nodes[v]["hcount"] = rnd.randint(0, pat.nodes[v]["hcount"])
    else:
        pat = full_attrs(matchgen.mol_like(rnd, rnd.randint(1, 4), ids=range(100, 104), elems=["C", "N"]))
        shape = "unrelated"
    return host, full_attrs(pat), shape


def gen_histories(ctx, count):
    rnd = ctx.rnd
    out = []
    for _ in range(count):
        r = rnd.random()
        if r < 0.35:  # single isomorphism question, both argument orders, filter on and off
            g1, g2, shape = gen_pair(rnd)
            e = rand_engine(rnd, wl=False)
            qs = [{"op": "iso", "engine": e, "a": 0, "b": 1}, {"op": "iso", "engine": {**e, "wl1_filter": True}, "a": 0, "b": 1},
                  {"op": "iso", "engine": e, "a": 1, "b": 0}]
            out.append(([g1, g2], qs[: rnd.randint(1, 3)] if rnd.random() < 0.3 else qs, "iso/" + shape.split(":")[0]))
        elif r < 0.70:  # embeddings
            host, pat, shape = gen_host_pattern(rnd)
            e = rand_engine(rnd)
            qs = [{"op": "maps", "engine": e, "a": 0, "b": 1}]
            if rnd.random() < 0.5:
                qs.append({"op": "maps", "engine": {**e, "wl1_filter": not e["wl1_filter"]}, "a": 0, "b": 1})
            out.append(([host, pat], qs, "maps/" + shape))
        else:  # histories: 2-3 shared graphs, 2-6 queries, 2-3 engines with different attribute selections
            g1, g2, shape = gen_pair(rnd)
            graphs = [g1, g2]
            if rnd.random() < 0.5:
                g3, _ = matchgen.relabelled_copy(rnd, g1)
                if rnd.random() < 0.7:
                    v = rnd.choice(list(g3.nodes))
                    g3.nodes[v]["charge"] = g3.nodes[v].get("charge", 0) + 1
                graphs.append(g3)
            engines = [{"node_attrs": na, "edge_attrs": rnd.choice(EDGE_ATTRS), "wl1_filter": rnd.random() < 0.85,
                        "max_mappings": rnd.choice([1, None])}
                       # incl. a permutation of a selection (hcount is not used here: it may be absent on some
                       # nodes, and an engine with wl1_filter sorts labels, which raises on None vs int)
                       for na in rnd.sample([["element"], ["element", "charge"], [], ["charge"], ["charge", "element"]],
                                            rnd.randint(2, 4))]
            qs = []
            for _ in range(rnd.randint(2, 6)):
                a, b = rnd.sample(range(len(graphs)), 2)
                qs.append({"op": rnd.choice(["iso", "iso", "maps"]), "engine": rnd.choice(engines), "a": a, "b": b})
            out.append((graphs, qs, "history/" + shape.split(":")[0]))
    return out


def gen_sub(ctx, count):
    rnd = ctx.rnd
    out = []
    for _ in range(count):
        parent, child, shape = gen_host_pattern(rnd)
        if rnd.random() < 0.3:  # drop some attributes so that the defaults matter
            for g in (parent, child):
                for v in g.nodes:
                    if rnd.random() < 0.3:
                        g.nodes[v].pop("charge", None)
        cfg = {"names": ["element", "charge"], "defaults": [{"s": "*"}, {"n": 0}], "edge_attr": "order",
               "use_filter": rnd.random() < 0.6, "induced": rnd.random() < 0.5}
        if rnd.random() < 0.15:
            cfg["names"], cfg["defaults"] = ["element"], [{"s": "*"}]
        out.append((child, parent, cfg, "sub/" + shape))
        if rnd.random() < 0.5:  # the same question with the filter flipped
            out.append((child, parent, {**cfg, "use_filter": not cfg["use_filter"]}, "sub/" + shape))
    return out


def gen_tiny(ctx):
    labels = [("C", 0), ("C", 1), ("N", 0)]
    gs = []
    for n in range(1, (3 if ctx.quick else 4) + 1):
        gs += matchgen.tiny_graphs(n, labels if n <= 3 else [("C", 0), ("N", 0)], (1, 2) if n <= 3 else (1,))
    return gs


def load_regress():
    out = []
    d = ROOT / "regress" / "C07"
    if d.exists():
        for f in sorted(d.glob("*.json")):
            out.append(json.loads(f.read_text()))
    return out


def run_case_json(ctx, c, tag):
    if c.get("kind") == "sub":
        eval_sub(ctx, [(graphio.to_nx(c["child"]), graphio.to_nx(c["parent"]), c["cfg"], "regress")], tag)
    elif c.get("kind") == "giso":
        eval_giso(ctx, [(graphio.to_nx(c["g1"]), graphio.to_nx(c["g2"]), c["use_defaults"], "regress")], tag)
    else:
        eval_histories(ctx, [([graphio.to_nx(g) for g in c["graphs"]], c["queries"], "regress")], tag)


def run(ctx):
    ctx.trusted = [
        "Lean 4.33 kernel; axioms of the property theorems as listed in obligation_list",
        "hand-written model SynKitModel/GraphMatcherEngine.lean (+ Match.lean) tied to /repo by this correspondence run",
        "NetworkX VF2 (is_isomorphic, subgraph_is_isomorphic/monomorphic, *_iter) honours the node/edge closures it is given; its "
        "enumeration order is not modelled (embedding lists are gated on validity + length)",
        "Driver/GraphMatcherEngine.lean JSON codec, harness/graphio.py encoding, sorting of mapping sets",
    ]
    ctx.assumptions = [
        "simple undirected graphs, non-negative integer node ids; every node carries every attribute an engine with wl1_filter compares "
        "(the WL histogram sorts label tuples, which Python cannot do for mixed None/str values)",
        "hydrogen rule as documented: the first argument of isomorphic() plays host when sizes are equal (DESIGN 5a)",
        "graph objects are not mutated between queries of a history (the cache is documented to go stale otherwise)",
    ]
    ctx.gen_rule = ("regression corpus first; tiny-exhaustive: all ordered pairs of graph classes with <=3 (quick) / <=4 (thorough) nodes over "
                    "2 elements x hcount{0,1} x orders{1,2}: isomorphic() with filter off/on in both argument orders, get_mappings(max_mappings=None), "
                    "sub-graph tests induced/mono with filter off/on; random: molecule-like graphs <=8 nodes, relabelled copies, one-edit "
                    "neighbours, unrelated pairs, strictly smaller planted/edited patterns, symmetric families; max_mappings in {0,1,2,5,None}; "
                    "query histories of 2-6 queries by 2-3 engines with attribute selections from {element},{element,charge},{charge},{} on 2-3 "
                    "shared graph objects; graph_isomorphism with/without defaults.")
    ctx.nontrivial_rule = "case distinct as JSON, some graph has >=2 nodes and at least one positive answer (true verdict / non-empty embeddings)"
    build_and_audit(ctx, ["SynKitProofs.Props.C07"], "SynKitProofs/Audit/C07.lean", THEOREMS)

    reg = load_regress()
    for c in reg:
        run_case_json(ctx, c, "regress")
    ctx.count("regress_cases", len(reg))

    tiny = gen_tiny(ctx)
    e0 = {"node_attrs": ["element"], "edge_attrs": ["order"], "wl1_filter": False, "max_mappings": None}
    e1 = {**e0, "wl1_filter": True}
    hist, subs = [], []
    pairs = [(a, b) for a in tiny for b in tiny if len(b) <= len(a)]
    cap = 2500 if ctx.quick else 30000
    if len(pairs) > cap:
        pairs = ctx.rnd.sample(pairs, cap)
        ctx.extra["exhaustive"] = False
    else:
        ctx.extra["exhaustive"] = True
    ctx.extra["exhaustive_part"] = f"{len(tiny)} graph classes, {len(pairs)} ordered pairs (pattern no larger than host)"
    for a, b in pairs:
        b2 = nx.relabel_nodes(b, {v: v + 10 for v in b.nodes})
        qs = [{"op": "iso", "engine": e0, "a": 0, "b": 1}, {"op": "iso", "engine": e1, "a": 1, "b": 0},
              {"op": "maps", "engine": e1, "a": 0, "b": 1}, {"op": "maps", "engine": e0, "a": 0, "b": 1}]
        hist.append(([a, b2], qs, "tiny"))
        cfg = {"names": ["element", "charge"], "defaults": [{"s": "*"}, {"n": 0}], "edge_attr": "order",
               "use_filter": True, "induced": len(subs) % 2 == 0}
        subs.append((b2, a, cfg, "tiny"))
    if not ctx.violations:
        eval_histories(ctx, hist, "tiny-exhaustive")
    if not ctx.violations:
        eval_sub(ctx, subs, "tiny-exhaustive")

    nrand = 700 if ctx.quick else 8000
    if not ctx.violations:
        eval_histories(ctx, gen_histories(ctx, nrand), "random")
    if not ctx.violations:
        eval_sub(ctx, gen_sub(ctx, nrand // 2), "random")
    if not ctx.violations:
        gi = []
        for _ in range(nrand // 4):
            g1, g2, shape = gen_pair(ctx.rnd)
            if ctx.rnd.random() < 0.5:  # make the defaults matter: drop order 1 / charge 0 / set element "*" on one side
                for g in (g1, g2):
                    for u, v in g.edges:
                        if g[u][v].get("order") == 1.0 and ctx.rnd.random() < 0.5:
                            del g[u][v]["order"]
                    for v in g.nodes:
                        if g.nodes[v].get("charge") == 0 and ctx.rnd.random() < 0.4:
                            del g.nodes[v]["charge"]
                shape += "+defaults"
            gi.append((g1, g2, ctx.rnd.random() < 0.6, shape))
        eval_giso(ctx, gi, "random")
    ctx.obligation("correspondence: engine verdicts / embeddings / histories, sub-graph tests, graph_isomorphism impl == model", not ctx.violations)


def replay(ctx, case):
    c = case["case"] if "case" in case else case
    run_case_json(ctx, c, "replay")

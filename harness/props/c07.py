"""C07 — isomorphism verdicts and embeddings are correct; pre-filters never change them.

Correspondence: `GraphMatcherEngine.isomorphic / get_mappings` (incl. the class-level WL cache, run as
query histories over shared graph objects), `SubgraphMatch.subgraph_isomorphism / is_subgraph`,
`graph_morphism.subgraph_isomorphism / graph_isomorphism` (real code, in-process) against the Lean
model `SynKitModel/GraphMatcherEngine.lean`, whose answers are proved (Props/C07.lean) to be the
specification (verdict <=> a label-preserving bijection / induced / monomorphic embedding exists;
embeddings valid, non-empty iff contained; filters sound; cache transparent).

Gates (only what C07 determines):
* verdicts impl == model;
* embeddings: VF2's enumeration order is not specified, so the returned list must be duplicate-free,
  consist of pattern->host induced embeddings (members of the model's complete set) and have the
  model's length (min(max_mappings, total); 1 in the equal-size shortcut; 0 iff not contained);
* every query of a history on shared graph objects is also compared with the cache-free answer;
* filter on == filter off, relabelled copies get the same verdict, symmetric under equal/absent hcount
  (metamorphic gates on the implementation itself, mirroring the theorems).

Streams added for anchor coverage (after the original ones, so the original draws are unchanged):
* `prefilter`: `SubgraphSearchEngine.find_subgraph_mappings(pre_filter=True/False)` — the anchored
  `_quick_pre_filter` — against the Lean model `SynKit.SubgraphSearch.search` (driver `c06.search`;
  theorems `prefilter_spec`, `prefilter_zero_sound`, `prefilter_zero_lossless`, `prefilter_sound_or_large`
  of Props/C06.lean).  Gate: result *set* impl == model with the filter off and with it on; a difference
  with the filter on is a violation of C07 (input reported) unless it lies inside the documented blow-up
  guard (candidate product, computed independently here, exceeds the threshold), where it is reported as
  a broken correspondence without input.
* `sub-options`: the boolean sub-graph tests with falsy / absent `edge_attribute`, other label
  selections and defaults, explicit comparators (`eq`-equivalent, or constant-true = attribute not
  selected) — expected verdicts from the Lean model under the translated selection.
* `degenerate`: empty graphs, a graph queried against itself, `node_attrs=None`, backend spelled
  `"NX"`, unsupported backends (must raise or answer as the model does).

Streams added for representation / scale (after all the others; the earlier draws are unchanged).  The model side is
computed per query from the encoded graphs alone (the Lean model is pure); `graphio` maps every Python spelling of a
number (int / float / numpy scalars) to one `Val.num` and every `str` subclass to one `Val.str`, so re-spelling a value
never changes what the specification says.  Violation cases carry a `types` table so that a replay rebuilds the very
Python objects (`to_nx` alone would give plain ints):
* `representation`: query histories over graphs whose numeric labels are spelled as int / float / numpy.int64 / int32 /
  float64 (uniformly per graph — graph A all ints, graph B all floats — or mixed value by value inside one graph), str
  labels partly as `numpy.str_`; richer selections (up to 7 node keys: element, charge, hcount, aromatic (bool), isotope
  (multi-digit), grp (tuple-valued, (1,2) next to (2,1) and ()), name ('' / 'a' / 'A' / 'a '), label present on nodes AND
  edges; permuted key lists, keys given as tuple), bond orders as strings ('-', '=', 'SINGLE', ...), falsy labels ('' as
  element, order 0, empty tuple), charges / hydrogen counts >= 10, unselected noise attributes (`weight`, `capacity`,
  `id`, `color`) with unrelated values on nodes and edges; symmetric skeletons where one value of one extra key breaks
  the symmetry; pairs: relabelled copy, one-edit (incl. an edit of an extra key), labels permuted over the same skeleton,
  strictly smaller planted pattern; further graph objects derived from a queried one (`copy()`, a re-spelled copy, an
  induced sub-graph); the same query repeated, a second engine object with the same configuration.
* `tiny-retyped`: pairs of the tiny-exhaustive classes with the second graph re-spelled, selections containing the numeric
  keys, filter off / on, both argument orders.
* `scale`: 9-12 nodes (one to four more than the random streams), node ids up to 10^6, max_mappings in {6, 10, 100}.
* `repr-sub` / `repr-giso` / `repr-search`: the boolean sub-graph tests, `graph_isomorphism` and
  `find_subgraph_mappings(pre_filter=..)` on the inputs of their own generators, re-spelled the same way.

Certificate streams (after all the others; the earlier draws are unchanged).  The specification side is computed per query,
independently of the history, and a query history runs on shared graph / engine objects as before:
* `find-small`: `graph_morphism.find_graph_isomorphism(G1, G2, use_defaults in {True, False, default}, fast_invariant_check in
  {True, False, default})` — until now not exercised at all — against its Lean model `SynKit.GME.findGraphIsomorphism` (driver
  `c07.findiso`; theorems find_iso_valid / find_iso_iff / find_iso_fast_irrelevant): a mapping is returned iff the model returns
  one, with the quick invariants on and off, in both argument orders; every returned mapping is checked by Lean to be a G1 -> G2
  bijection preserving adjacency and element / atom_map / hcount / order with their defaults (`isIsoB`, theorem isIsoB_iff).
  Inputs <= 8 nodes: relabelled copies, one-edit neighbours (also of atom_map), labels permuted, unrelated, tiny classes; atom_map
  absent / 0 / partly set; hcount, atom_map, order partly absent so that the defaults matter; element symbols that are prefixes
  of one another (H / Hg / He, C / Cl).  A third of the cases also asks the other entry points through the certificate path and
  the enumerating model at once, which ties the translation `spec_of` used by the `large` stream to the model.
* `large`: every isomorphism / containment entry point (find_graph_isomorphism, graph_isomorphism, GraphMatcherEngine.isomorphic /
  get_mappings, SubgraphMatch.subgraph_isomorphism / is_subgraph, graph_morphism.subgraph_isomorphism) on graphs beyond CPython's
  small-integer cache — more than 256 nodes, more than 256 edges, both, and controls at 250..256 — where the enumerating Lean
  engine is not run.  Answers are PLANTED and Lean checks certificates only (no search): a relabelled copy with its bijection
  (`c07.certificate`, `isIsoB`: the verdict must be True, theorems isomorphic_of_certificate / find_iso_of_certificate /
  get_mappings_of_certificate / subgraph_*_iff), the copy with one element replaced by a symbol that does not occur or with one
  edge removed / one node added (`c07.invariants`: counts, degree sequence, label histograms differ, the verdict must be False,
  theorems no_iso_of_invariants / not_contained_of_invariants / find_iso_none_of_invariants), a planted sub-pattern of more than
  256 nodes (`isInducedB`); every mapping the implementation returns is checked by Lean; every pre-filter flag is asked off and on
  and the verdicts must agree.  A violated planted isomorphism is shrunk along the bijection (nodes removed together with their
  images while the implementation keeps failing), which exposes the size at which the failure starts.
"""
import json

import networkx as nx

from .. import graphio, matchgen
from ..core import ROOT, build_and_audit

THEOREMS = [
    "SynKit.GME.cache_transparent",
    "SynKit.GME.get_mappings_valid",
    "SynKit.GME.get_mappings_nonempty_iff_contained_partial",
    "SynKit.GME.isomorphic_sound",
    "SynKit.GME.isomorphic_iff_partial",
    "SynKit.GME.isomorphic_false_of_size",
    "SynKit.GME.isomorphic_relabel",
    "SynKit.GME.isomorphic_symm",
    "SynKit.GME.subgraph_induced_iff",
    "SynKit.GME.subgraph_mono_iff",
    "SynKit.GME.subgraph_filter_irrelevant",
    "SynKit.GME.filter_sound_sub",
    "SynKit.GME.filter_sound_size",
    "SynKit.GME.filter_sound_wl_base",
    "SynKit.GME.preCheck_sound_partial",
    "SynKit.GME.graph_isomorphism_iff",
    "SynKit.Match.isoDecide_iff",
    "SynKit.Match.mem_allInduced",
    "SynKit.Match.isoDecide_relabel_host",
    "SynKit.Match.isoDecide_relabel_pattern",
    "SynKit.Match.isoDecide_symm",
    "SynKit.Match.isoDecide_refl",
    "SynKit.GME.wl_refined_sound",
    "SynKit.GME.preCheck_sound",
    "SynKit.GME.get_mappings_nonempty_iff_contained",
    "SynKit.GME.isomorphic_iff",
    "SynKit.GME.isIsoB_iff",
    "SynKit.GME.isInducedB_iff",
    "SynKit.GME.isMonoB_iff",
    "SynKit.GME.isomorphic_of_certificate",
    "SynKit.GME.get_mappings_of_certificate",
    "SynKit.GME.no_iso_of_invariants",
    "SynKit.GME.not_contained_of_invariants",
    "SynKit.GME.isomorphic_false_of_invariants",
    "SynKit.GME.find_iso_valid",
    "SynKit.GME.find_iso_iff",
    "SynKit.GME.find_iso_fast_irrelevant",
    "SynKit.GME.find_iso_of_certificate",
    "SynKit.GME.find_iso_none_of_invariants",
    "SynKit.SubgraphSearch.prefilter_spec",
    "SynKit.SubgraphSearch.prefilter_zero_sound",
    "SynKit.SubgraphSearch.prefilter_zero_lossless",
    "SynKit.SubgraphSearch.prefilter_estimate_upper",
    "SynKit.SubgraphSearch.prefilter_fires_iff",
    "SynKit.SubgraphSearch.prefilter_sound_or_large",
]

NODE_ATTRS = [["element"], ["element", "charge"], ["element", "charge"], []]
EDGE_ATTRS = [["order"], ["order"], []]


# ---------------------------------------------------------------- implementation adapters
def mk_engine(cfg):
    from synkit.Graph.Matcher.graph_matcher import GraphMatcherEngine

    na, ea = list(cfg["node_attrs"]), list(cfg["edge_attrs"])
    kw = {}
    if "backend" in cfg:
        kw["backend"] = cfg["backend"]
    if cfg.get("none_for_empty"):  # the documented default `None` instead of an empty selection
        na, ea = (na or None), (ea or None)
    if cfg.get("attrs_as") == "tuple":  # the selections are documented as lists; a tuple may be refused, not answered differently
        na, ea = (None if na is None else tuple(na)), (None if ea is None else tuple(ea))
    return GraphMatcherEngine(node_attrs=na, edge_attrs=ea, wl1_filter=cfg["wl1_filter"],
                              max_mappings=cfg["max_mappings"], **kw)


def backend_supported(cfg):
    """Only the spelling "nx" is taken as certainly supported: C07 says nothing about back-end names, so for any other
    name (incl. "NX", which the engine lower-cases today) raising is accepted, and an answer is judged like any other."""
    return cfg.get("backend", "nx") == "nx" and not cfg.get("attrs_as")


# ---------------------------------------------------------------- representation of attribute values
# The protocol (graphio) identifies 1, 1.0, numpy.int64(1), numpy.float64(1.0) (one `Val.num`) and 'C', numpy.str_('C')
# (one `Val.str`), exactly the values Python's `==` / `hash` identify; bool stays apart.  A case that was evaluated with
# some other spelling than `graphio.to_nx` gives back carries a table of type tags, so that a replay rebuilds the objects.
def _np():
    import numpy
    return numpy


def tag_of(x):
    """Type tag of a value, None when `graphio.unval(graphio.val(x))` already has x's type."""
    np = _np()
    if x is None or isinstance(x, (bool, np.bool_)):
        return None
    if isinstance(x, np.str_):
        return "np.str_"
    if isinstance(x, str):
        return None
    if isinstance(x, np.generic):
        return "np." + type(x).__name__
    if isinstance(x, float):
        return "float" if x == int(x) else None
    if isinstance(x, tuple):
        ts = [tag_of(y) for y in x]
        return {"t": ts} if any(t is not None for t in ts) else None
    return None


def retag(x, t):
    if t is None:
        return x
    if isinstance(t, dict):
        return tuple(retag(y, u) for y, u in zip(x, t["t"]))
    if t == "float":
        return float(x)
    return getattr(_np(), t[3:])(x)


def plain(x):
    """The spelling `graphio.to_nx` produces."""
    try:
        return graphio.unval(graphio.val(x))
    except graphio.Unsupported:
        return x


def _tags(d):
    out = {}
    for k, x in d.items():
        t = tag_of(x)
        if t is not None:
            out[str(k)] = t
    return out


def types_of(g):
    ns = [[int(v), t] for v, t in ((v, _tags(d)) for v, d in g.nodes(data=True)) if t]
    es = [[int(u), int(v), t] for u, v, t in ((u, v, _tags(d)) for u, v, d in g.edges(data=True)) if t]
    return {"nodes": ns, "edges": es} if ns or es else None


def apply_types(g, ty):
    if ty:
        for v, t in ty.get("nodes", []):
            for k, u in t.items():
                g.nodes[v][k] = retag(g.nodes[v][k], u)
        for a, b, t in ty.get("edges", []):
            for k, u in t.items():
                g[a][b][k] = retag(g[a][b][k], u)
    return g


def typed(case, **gs):
    """Add the type table of the named graphs to a case dict (nothing when every value is plain)."""
    ty = {k: types_of(g) for k, g in gs.items()}
    ty = {k: v for k, v in ty.items() if v}
    if ty:
        case["types"] = ty
    return case


def untyped(c, name):
    return apply_types(graphio.to_nx(c[name]), (c.get("types") or {}).get(name))


FORMS = ["int", "float", "np.int64", "np.float64", "np.int32"]
MODES = FORMS + ["mixed", "mixed", "mixed", "asis"]


def as_form(x, form):
    np = _np()
    integral = float(x) == int(x)
    if form == "int":
        return int(x) if integral else float(x)
    if form == "float":
        return float(x)
    if form == "np.float64" or not integral:
        return np.float64(x)
    return getattr(np, form[3:])(int(x))


def retype_val(rnd, x, mode, str_p):
    np = _np()
    if isinstance(x, tuple):
        return tuple(retype_val(rnd, y, mode, str_p) for y in x)
    if isinstance(x, str):
        return np.str_(x) if rnd.random() < str_p else str(x)
    if x is None or isinstance(x, (bool, np.bool_)) or mode == "asis":
        return x
    return as_form(x, rnd.choice(FORMS) if mode == "mixed" else mode)


def retype_graph(rnd, g, mode=None, str_p=None):
    """A new graph object, same node ids / insertion order / values, every number spelled per `mode` (one form for the
    whole graph, or "mixed": drawn value by value), strings as numpy.str_ with probability str_p."""
    mode = rnd.choice(MODES) if mode is None else mode
    str_p = rnd.choice([0.0, 0.0, 0.5, 1.0]) if str_p is None else str_p
    out = nx.Graph()
    for v, d in g.nodes(data=True):
        out.add_node(v, **{k: retype_val(rnd, x, mode, str_p) for k, x in d.items()})
    for u, v, d in g.edges(data=True):
        out.add_edge(u, v, **{k: retype_val(rnd, x, mode, str_p) for k, x in d.items()})
    if graphio.graph(out) != graphio.graph(g):
        raise AssertionError("harness: re-spelling changed the encoded graph")
    return out, mode


NOISE_KEYS = ["weight", "capacity", "id", "color"]


def add_noise(rnd, g):
    """Attributes no engine selects, with values unrelated between graphs (a library default might pick them up)."""
    keys = rnd.sample(NOISE_KEYS, rnd.randint(1, 2))
    for k in keys:
        where = rnd.choice(["edges", "edges", "nodes", "both"])
        if where != "nodes":
            for u, v in g.edges:
                g[u][v][k] = rnd.choice([0, 1, 2.5, 7, "a", ""]) if k != "color" else rnd.choice(["r", "g"])
        if where != "edges":
            for v in g.nodes:
                g.nodes[v][k] = rnd.choice([0, 1, 2.5, 7, "a", ""]) if k != "color" else rnd.choice(["r", "g"])
    return g


def impl_history(graphs, queries):
    """graphs: list of nx graphs (shared objects); queries: [{op, engine, a, b}] -> answers"""
    snap = [g.copy() for g in graphs]
    engines = {}
    out = []
    for q in queries:
        key = json.dumps(q["engine"], sort_keys=True)
        try:
            if key not in engines:
                engines[key] = mk_engine(q["engine"])
            e = engines[key]
            if q["op"] == "iso":
                out.append({"verdict": bool(e.isomorphic(graphs[q["a"]], graphs[q["b"]]))})
            else:
                res = e.get_mappings(graphs[q["a"]], graphs[q["b"]])
                lst = [graphio.mapping(m) for m in res]
                out.append({"maps": sorted(lst), "n": len(lst), "dups": len(lst) - len({json.dumps(m) for m in lst})})
        except Exception as ex:
            out.append({"error": type(ex).__name__ + ": " + str(ex)[:200]})
    mutated = any(not matchgen.graphs_equal(a, b) for a, b in zip(graphs, snap))
    return out, mutated


def judge_answer(q, impl, mod):
    if "error" in impl:
        return "raised " + impl["error"]
    if q["op"] == "iso":
        if impl["verdict"] != mod["verdict"]:
            return f"verdict {impl['verdict']}; a label-preserving bijection {'exists' if mod['verdict'] else 'does not exist'}"
        return None
    if impl["dups"]:
        return "embeddings contain duplicates"
    allm = {json.dumps(m) for m in mod["all"]}
    bad = [m for m in impl["maps"] if json.dumps(m) not in allm]
    if bad:
        return f"returned mapping {bad[0]} is not a pattern->host induced embedding"
    if impl["n"] != mod["n"]:
        return (f"{impl['n']} embedding(s) returned, the property demands {mod['n']} "
                f"({len(allm)} exist; max_mappings={q['engine']['max_mappings']})")
    return None


def hist_request(graphs, queries):
    return {"cmd": "c07.history", "graphs": [graphio.graph(g) for g in graphs], "queries": queries}


def hist_case(graphs, queries):
    c = {"kind": "history", "graphs": [graphio.graph(g) for g in graphs], "queries": queries}
    ty = [types_of(g) for g in graphs]
    if any(ty):
        c["types"] = ty
    return c


def _cmp_eq(a, b):
    return a == b


def _cmp_true(a, b):
    return True


CMPS = {None: None, "eq": _cmp_eq, "true": _cmp_true}


def impl_sub(which, child, parent, cfg):
    from synkit.Graph.Matcher.subgraph_matcher import SubgraphMatch
    from synkit.Graph.Matcher import graph_morphism

    kw = dict(node_label_names=list(cfg["names"]), node_label_default=[graphio.unval(d) for d in cfg["defaults"]],
              edge_attribute=cfg["edge_attr"], use_filter=cfg["use_filter"],
              check_type="induced" if cfg["induced"] else "monomorphism")
    if which != "is_subgraph":  # is_subgraph has no comparator parameters
        if cfg.get("node_cmp"):
            kw["node_comparator"] = CMPS[cfg["node_cmp"]]
        if cfg.get("edge_cmp"):
            kw["edge_comparator"] = CMPS[cfg["edge_cmp"]]
    c0, p0 = child.copy(), parent.copy()
    try:
        if which == "SubgraphMatch":
            r = SubgraphMatch.subgraph_isomorphism(child, parent, **kw)
        elif which == "is_subgraph":
            r = SubgraphMatch.is_subgraph(child, parent, **kw, backend=cfg.get("backend", "nx"))
        else:
            r = graph_morphism.subgraph_isomorphism(child, parent, **kw)
    except Exception as ex:
        return {"error": type(ex).__name__ + ": " + str(ex)[:200]}
    return {"verdict": bool(r), "mutated": not (matchgen.graphs_equal(child, c0) and matchgen.graphs_equal(parent, p0))}


def model_sub_cfg(cfg):
    """The selection the model is asked about: a constant-true comparator compares nothing, i.e. the
    attribute is not selected (only generated with use_filter=False: the filter compares with `!=`)."""
    names, defaults, edge_attr = list(cfg["names"]), list(cfg["defaults"]), cfg["edge_attr"]
    if cfg.get("node_cmp") == "true":
        names, defaults = [], []
    if cfg.get("edge_cmp") == "true":
        edge_attr = None
    return {"names": names, "defaults": defaults, "edge_attr": edge_attr, "use_filter": cfg["use_filter"], "induced": cfg["induced"]}


def sub_variants(cfg):
    """Which of the three entry points take this configuration."""
    out = []
    if cfg["edge_attr"] is not None:  # SubgraphMatch documents `edge_attribute: str`; None is accepted by graph_morphism only
        out.append("SubgraphMatch")
    out.append("graph_morphism")
    if cfg["edge_attr"] is not None and not cfg.get("node_cmp") and not cfg.get("edge_cmp"):
        out.append("is_subgraph")
    return out


def sub_request(child, parent, cfg):
    return {"cmd": "c07.sub", "child": graphio.graph(child), "parent": graphio.graph(parent), **model_sub_cfg(cfg)}


def impl_giso(g1, g2, use_defaults):
    from synkit.Graph.Matcher.graph_morphism import graph_isomorphism

    try:
        return {"verdict": bool(graph_isomorphism(g1, g2, use_defaults=use_defaults))}
    except Exception as ex:
        return {"error": type(ex).__name__ + ": " + str(ex)[:200]}


# ---------------------------------------------------------------- evaluation
TYPED_STREAMS = ("representation", "tiny-retyped", "scale")


def eval_histories(ctx, cases, tag):
    """cases: list of (graphs, queries, shape)"""
    if not cases:
        return
    mods = ctx.lean().ok([hist_request(g, q) for g, q, _ in cases], shards=8)
    for (graphs, queries, shape), mod in zip(cases, mods):
        ctx.count("stream:" + tag)
        ctx.count("shape:" + shape)
        impl, mutated = impl_history(graphs, queries)
        pos = sum(1 for a in mod["answers"] if a.get("verdict") or a.get("n"))
        for q, a in zip(queries, mod["answers"]):
            ctx.count("query:" + q["op"] + ("+wl" if q["engine"]["wl1_filter"] else ""))
            if tag == "degenerate":
                ctx.count("degenerate:" + ("same-object" if q["a"] == q["b"] else "empty-graph" if 0 in (len(graphs[q["a"]]), len(graphs[q["b"]]))
                                           else "single-node" if 1 in (len(graphs[q["a"]]), len(graphs[q["b"]])) else "other")
                          + (":attrs=None" if q["engine"].get("none_for_empty") else "")
                          + (":backend=" + q["engine"]["backend"] if "backend" in q["engine"] else ""))
            if q["op"] == "iso":
                ctx.count("iso:" + ("true" if a["verdict"] else "false"))
            else:
                ctx.count("maps:" + ("0" if a["n"] == 0 else "1" if a["n"] == 1 else "many")
                          + ("/proper" if len(graphs[q["b"]]) < len(graphs[q["a"]]) else ""))
        canonical = [[graphio.graph(g) for g in graphs], queries]
        if tag in TYPED_STREAMS:  # the spelling of the values is part of what makes two of these cases different
            canonical.append([types_of(g) for g in graphs])
            for g in graphs:
                ctx.count("spelling:" + spelling_class(g))
            if len(queries) >= 2:
                ctx.count("queries_repeated:" + ("yes" if len({json.dumps(q, sort_keys=True) for q in queries}) < len(queries) else "no"))
            for q in queries:
                ctx.count(f"selection:{len(q['engine']['node_attrs'])}node+{len(q['engine']['edge_attrs'])}edge keys")
        ctx.case(canonical, pos >= 1 and max(len(g) for g in graphs) >= 2,
                 sample={"stream": tag, **hist_case(graphs, queries)} if max(len(g) for g in graphs) <= 3 and len(queries) <= 2 else None)
        if mod["answers"] != mod["pure"]:
            ctx.violation("model: history answers differ from cache-free answers (theorem cache_transparent contradicted)",
                          hist_case(graphs, queries), None, no_input=True)
        why, at = None, None
        if mutated:
            why, at = "an input graph was modified", len(queries) - 1
        for i, (q, a, m) in enumerate(zip(queries, impl, mod["answers"])):
            if not backend_supported(q["engine"]):
                ctx.count(("backend:" + str(q["engine"]["backend"]) if "backend" in q["engine"] else "attrs_as:" + str(q["engine"].get("attrs_as")))
                          + (":raised" if "error" in a else ":answered"))
                if "error" in a:  # no answer given: nothing for the property to judge
                    continue
            w = judge_answer(q, a, m)
            if w:
                why, at = w, i
                break
        if why is None:
            continue
        report_history(ctx, graphs, queries[:at + 1], why, tag)
        if len(ctx.violations) >= 5:
            return


def history_fails(ctx, graphs, queries):
    mod = ctx.lean().ok([hist_request(graphs, queries)])[0]
    impl, mutated = impl_history([g.copy() for g in graphs], queries)
    if mutated:
        return "an input graph was modified"
    if "error" in impl[-1] or any("error" in a for a in impl):
        return None  # while shrinking, an exception is a different failure: do not follow it
    # only the LAST query is the observed one; earlier ones are the history
    return judge_answer(queries[-1], impl[-1], mod["answers"][-1])


def spelling_class(g):
    tags = set()
    for d in [d for _, d in g.nodes(data=True)] + [d for _, _, d in g.edges(data=True)]:
        for x in d.values():
            for y in (x if isinstance(x, tuple) else (x,)):
                if y is not None and not isinstance(y, (bool, _np().bool_)):
                    tags.add("str" if type(y) is str else type(y).__name__)
    nums = sorted(t for t in tags if t not in ("str", "str_"))
    return ("no-number" if not nums else nums[0] if len(nums) == 1 else "mixed-numbers") + ("+numpy.str_" if "str_" in tags else "")


def simplify_repr(graphs, idxs, queries, fails, budget=80):
    """Greedy, while `fails(graphs)` holds: remove attributes no query selects, then give values their plain spelling."""
    selected = {"hcount"} | {k for q in queries for k in q["engine"]["node_attrs"]} | {k for q in queries for k in q["engine"]["edge_attrs"]}
    graphs = list(graphs)
    n = 0

    def attempt(i, cand):
        nonlocal n
        n += 1
        gs = list(graphs)
        gs[i] = cand
        try:
            ok = fails(gs)
        except Exception:
            ok = False
        if ok:
            graphs[i] = cand
        return ok

    for i in idxs:
        g = graphs[i]
        extra = sorted({k for _, d in g.nodes(data=True) for k in d} | {k for _, _, d in g.edges(data=True) for k in d})
        for k in extra:
            if k in selected or n >= budget:
                continue
            h = graphs[i].copy()
            for v in h.nodes:
                h.nodes[v].pop(k, None)
            for u, v in h.edges:
                h[u][v].pop(k, None)
            attempt(i, h)
    for i in idxs:  # whole graph plain first, then value by value
        if n >= budget or not types_of(graphs[i]):
            continue
        h = graphs[i].copy()
        for v in h.nodes:
            h.nodes[v].update({k: plain(x) for k, x in h.nodes[v].items()})
        for u, v in h.edges:
            h[u][v].update({k: plain(x) for k, x in h[u][v].items()})
        if attempt(i, h):
            continue
        for v in list(graphs[i].nodes):
            for k, x in list(graphs[i].nodes[v].items()):
                if tag_of(x) is not None and n < budget:
                    h = graphs[i].copy()
                    h.nodes[v][k] = plain(x)
                    attempt(i, h)
        for u, v in list(graphs[i].edges):
            for k, x in list(graphs[i][u][v].items()):
                if tag_of(x) is not None and n < budget:
                    h = graphs[i].copy()
                    h[u][v][k] = plain(x)
                    attempt(i, h)
    return graphs


def shrink_both(ga, gb, fails, budget=200):
    """Remove one node from each graph at a time while `fails` holds (a one-sided removal leaves the equal-size branch)."""
    n = 0
    changed = True
    while changed and n < budget and len(ga) > 1:
        changed = False
        for u in list(ga.nodes):
            for v in list(gb.nodes):
                n += 1
                if n > budget:
                    break
                ha, hb = ga.copy(), gb.copy()
                ha.remove_node(u)
                hb.remove_node(v)
                try:
                    bad = fails(ha, hb)
                except Exception:
                    bad = False
                if bad:
                    ga, gb, changed = ha, hb, True
                    break
            if changed or n > budget:
                break
    return ga, gb


def report_history(ctx, graphs, queries, why, tag):
    from ..shrink import shrink_seq

    last = queries[-1]
    graphs0, queries0 = list(graphs), list(queries)
    # 1. drop earlier queries
    prefix = shrink_seq(queries[:-1], lambda cand: history_fails(ctx, graphs, list(cand) + [last]) is not None)
    queries = list(prefix) + [last]
    # 2. shrink the graphs the last query looks at
    a, b = last["a"], last["b"]
    if a != b:
        def fails(ga, gb):
            gs = list(graphs)
            gs[a], gs[b] = ga, gb
            return history_fails(ctx, gs, queries) is not None
        ga, gb = matchgen.shrink_pair(graphs[a], graphs[b], fails, budget=200)
        graphs = list(graphs)
        graphs[a], graphs[b] = ga, gb
        if len(graphs[a]) == len(graphs[b]):  # equal sizes (full isomorphism branch): shrink both sides together
            ga, gb = shrink_both(graphs[a], graphs[b], fails)
            graphs[a], graphs[b] = ga, gb
    if history_fails(ctx, graphs, queries) is None:  # e.g. the original failure was an exception: report it unshrunk
        graphs, queries = graphs0, queries0
    else:  # 3. drop unselected attributes, then spell plainly every value whose spelling does not matter
        graphs = simplify_repr(graphs, sorted({q[k] for q in queries for k in ("a", "b")}), queries,
                               lambda gs: history_fails(ctx, gs, queries) is not None)
    why2 = history_fails(ctx, graphs, queries) or why
    mod = ctx.lean().ok([hist_request(graphs, queries)])[0]
    impl, _ = impl_history([g.copy() for g in graphs], queries)
    ctx.violation("GraphMatcherEngine answer departs from the specification", hist_case(graphs, queries),
                  {"clause": why2, "stream": tag, "history_dependent": len(queries) > 1,
                   "implementation": impl[-1], "specification": {k: v for k, v in mod["answers"][-1].items() if k != "all"},
                   "embeddings_that_exist": len(mod["answers"][-1].get("all", [])) if "all" in mod["answers"][-1] else None})


def eval_sub(ctx, cases, tag):
    """cases: list of (child, parent, cfg, shape)"""
    if not cases:
        return
    mods = ctx.lean().ok([sub_request(c, p, cfg) for c, p, cfg, _ in cases], shards=8)
    for (child, parent, cfg, shape), mod in zip(cases, mods):
        ctx.count("stream:" + tag)
        ctx.count("shape:" + shape)
        ctx.count("sub:" + ("induced" if cfg["induced"] else "mono") + ("+filter" if cfg["use_filter"] else "")
                  + (":true" if mod["verdict"] else ":false"))
        if cfg["use_filter"] and not mod["filter"]:
            ctx.count("sub_filter_rejected")
        if tag == "sub-options":
            ctx.count("subopt:edge_attribute=" + repr(cfg["edge_attr"]))
            ctx.count("subopt:labels=" + ",".join(cfg["names"]) + "/defaults=" + ",".join(str(graphio.unval(d)) for d in cfg["defaults"]))
            ctx.count(f"subopt:node_comparator={cfg.get('node_cmp')}:edge_comparator={cfg.get('edge_cmp')}")
        ctx.case([graphio.graph(child), graphio.graph(parent), cfg], mod["verdict"] and len(parent) >= 2)
        for which in sub_variants(cfg):
            impl = impl_sub(which, child, parent, cfg)
            why = None
            if which == "is_subgraph" and cfg.get("backend", "nx") != "nx":
                ctx.count("is_subgraph_backend:" + str(cfg["backend"]) + (":raised" if "error" in impl else ":answered"))
                if "error" in impl:  # no answer given: nothing for the property to judge
                    continue
            if "error" in impl:
                why = "raised " + impl["error"]
            elif impl["mutated"]:
                why = "an input graph was modified"
            elif impl["verdict"] != mod["verdict"]:
                kind = "induced" if cfg["induced"] else "monomorphic"
                why = f"{which}: verdict {impl['verdict']}; the child {'is' if mod['verdict'] else 'is not'} {kind}ly contained (use_filter={cfg['use_filter']})"
            if why is None:
                continue

            def fails(c, p):
                m = ctx.lean().ok([sub_request(c, p, cfg)])[0]
                r = impl_sub(which, c, p, cfg)
                return "error" not in r and r["verdict"] != m["verdict"]
            c2, p2 = matchgen.shrink_pair(child, parent, fails, budget=200)
            m2 = ctx.lean().ok([sub_request(c2, p2, cfg)])[0]
            ctx.violation("boolean sub-graph test departs from the definition of containment",
                          typed({"kind": "sub", "which": which, "child": graphio.graph(c2), "parent": graphio.graph(p2), "cfg": cfg},
                                child=c2, parent=p2),
                          {"clause": why, "stream": tag, "implementation": impl_sub(which, c2, p2, cfg), "specification": m2})
            break
        if len(ctx.violations) >= 5:
            return


def eval_giso(ctx, cases, tag):
    if not cases:
        return
    mods = ctx.lean().ok([{"cmd": "c07.giso", "g1": graphio.graph(a), "g2": graphio.graph(b), "use_defaults": d} for a, b, d, _ in cases], shards=8)
    for (g1, g2, d, shape), mod in zip(cases, mods):
        ctx.count("stream:" + tag)
        ctx.count("giso:" + ("true" if mod else "false") + ("+defaults" if "+defaults" in shape else ""))
        ctx.case([graphio.graph(g1), graphio.graph(g2), d], bool(mod))
        impl = impl_giso(g1, g2, d)
        if "error" in impl or impl["verdict"] != mod:
            ctx.violation("graph_isomorphism verdict departs from the specification",
                          typed({"kind": "giso", "g1": graphio.graph(g1), "g2": graphio.graph(g2), "use_defaults": d}, g1=g1, g2=g2),
                          {"implementation": impl, "specification": mod, "stream": tag})
            if len(ctx.violations) >= 5:
                return


# ---------------------------------------------------------------- SubgraphSearchEngine: pre_filter on / off
SEARCH_NK = [["element"], ["element", "charge"], [], ["charge", "element"], ["element", "in_ring"]]
SEARCH_EK = [["order"], ["order"], []]


def impl_search(host, pat, nk, ek, cfg):
    from synkit.Graph.Matcher.subgraph_matcher import SubgraphSearchEngine as S
    from synkit.Synthesis.Reactor.strategy import Strategy

    strat = Strategy(cfg["strategy"]) if cfg.get("as_enum") else cfg["strategy"]
    h0, p0 = host.copy(), pat.copy()
    try:
        res = S.find_subgraph_mappings(host, pat, node_attrs=list(nk), edge_attrs=list(ek), strategy=strat,
                                       max_results=None, strict_cc_count=cfg["strict"],
                                       threshold=cfg["threshold"], pre_filter=cfg["pre_filter"])
    except Exception as ex:
        return {"error": type(ex).__name__ + ": " + str(ex)[:200]}
    lst = [graphio.mapping(m) for m in res]
    return {"maps": sorted(lst), "n": len(lst), "dups": len(lst) - len({json.dumps(m) for m in lst}),
            "mutated": not (matchgen.graphs_equal(host, h0) and matchgen.graphs_equal(pat, p0))}


def cand_counts(host, pat, nk):
    """The documented candidate sets of the pre-filter, counted independently of the code under test: for every
    pattern node the host nodes with equal selected attributes, hydrogen count >= and degree >= the pattern node's."""
    out = []
    for p, pd in pat.nodes(data=True):
        out.append(sum(1 for h, hd in host.nodes(data=True)
                       if all(hd.get(k) == pd.get(k) for k in nk) and hd.get("hcount", 0) >= pd.get("hcount", 0)
                       and host.degree(h) >= pat.degree(p)))
    return out


def search_request(host, pat, nk, ek, cfgs):
    mc = [{"strategy": c["strategy"], "max_results": None, "strict": c["strict"], "threshold": c["threshold"],
           "pre_filter": c["pre_filter"]} for c in cfgs]
    # last run: probe of the zero-candidate branch alone (a threshold no candidate product reaches)
    mc.append({"strategy": "all", "max_results": None, "strict": False, "threshold": 10 ** 9, "pre_filter": True})
    return {"cmd": "c06.search", "host": graphio.graph(host), "pattern": graphio.graph(pat),
            "node_keys": list(nk), "edge_keys": list(ek), "cfgs": mc}


def search_case(host, pat, nk, ek, cfg):
    return typed({"kind": "search", "host": graphio.graph(host), "pattern": graphio.graph(pat), "node_keys": list(nk),
                  "edge_keys": list(ek), "cfg": cfg}, host=host, pattern=pat)


def judge_search(host, pat, nk, cfg, impl_off, impl_on, m_off, m_on):
    """-> (None | "spec" | "corr", text).  "spec": C07 is violated on this input; "corr": the implementation departs
    from the model only inside the documented blow-up guard (the filter may give up when the candidate product
    exceeds the threshold), which C07 does not constrain."""
    for name, impl in (("pre_filter=False", impl_off), ("pre_filter=True", impl_on)):
        if "error" in impl:
            return "spec", f"{name}: raised {impl['error']}"
        if impl["mutated"]:
            return "spec", f"{name}: an input graph was modified"
        if impl["dups"]:
            return "spec", f"{name}: embeddings contain duplicates"
    if impl_off["maps"] != m_off["result"]:
        return "spec", (f"pre_filter=False: {impl_off['n']} embedding(s) returned, the specification of the strategy "
                        f"demands {m_off['n']} (set comparison)")
    if impl_on["maps"] == m_on["result"]:
        return None, None
    counts = cand_counts(host, pat, nk)
    prod = 1
    for c in counts:
        prod *= c
    thr = 5000 if cfg["threshold"] is None else cfg["threshold"]
    if impl_on["maps"] == m_off["result"]:
        return "corr", "the modelled blow-up guard fires, the implementation returned the unfiltered result"
    if impl_on["n"] == 0 and 0 not in counts and prod > thr:
        return "corr", f"the filter gave up at candidate product {prod} (threshold {thr}); the model's guard does not fire there"
    return "spec", (f"turning the pre-filter on changed the result set: {impl_on['n']} embedding(s) with pre_filter=True, "
                    f"{m_off['n']} without (candidates per pattern node {counts}, product {prod}, threshold {thr})")


def eval_search(ctx, cases, tag):
    """cases: list of (host, pattern, node_keys, edge_keys, cfgs, shape); every cfg is evaluated with the pre-filter off and on."""
    if not cases:
        return
    def both(cfgs):
        return [{**c, "pre_filter": f} for c in cfgs for f in (False, True)]
    mods = ctx.lean().ok([search_request(h, p, nk, ek, both(cfgs)) for h, p, nk, ek, cfgs, _ in cases], shards=8)
    for (host, pat, nk, ek, cfgs, shape), mod in zip(cases, mods):
        total = mod["total"]
        counts = cand_counts(host, pat, nk)
        zero = 0 in counts
        ctx.count("stream:" + tag)
        ctx.count("shape:" + shape)
        ctx.count("search_matches:" + ("0" if total == 0 else "1" if total == 1 else "many"))
        ctx.count("search_zero_candidate_node:" + ("yes" if zero else "no"))
        ctx.case(["search", graphio.graph(host), graphio.graph(pat), nk, ek], total >= 1 and host.number_of_nodes() >= 2,
                 sample={"stream": tag, **search_case(host, pat, nk, ek, {**cfgs[0], "pre_filter": True}), "matches": total}
                 if host.number_of_nodes() <= 3 else None)
        if mod["runs"][-1]["prefilter"] != zero:
            ctx.violation("model: `_quick_pre_filter` zero-candidate branch differs from the documented candidate definition "
                          "(harness cand_counts vs SubgraphSearch.quickPreFilter)", search_case(host, pat, nk, ek, cfgs[0]),
                          {"counts": counts, "model_prefilter": mod["runs"][-1]["prefilter"]}, no_input=True)
        if zero and total:
            ctx.violation("model: a pattern node has no candidate but a monomorphism exists (theorem prefilter_zero_sound contradicted)",
                          search_case(host, pat, nk, ek, cfgs[0]), {"counts": counts, "total": total}, no_input=True)
        for i, cfg in enumerate(cfgs):
            m_off, m_on = mod["runs"][2 * i], mod["runs"][2 * i + 1]
            fired = m_on["prefilter"]
            branch = "zero" if zero else "estimate" if fired else "none"
            ctx.count(f"search:{cfg['strategy']}{'+strict' if cfg['strict'] and cfg['strategy'] != 'all' else ''}"
                      f":thr={cfg['threshold']}:filter_branch={branch}")
            if fired and not zero and m_off["n"]:
                ctx.count("search_guard_empties_nonempty_result(documented)")
            if not fired and m_on["result"] != m_off["result"]:
                ctx.violation("model: pre-filter passes but the model's answers differ (theorem prefilter_spec contradicted)",
                              search_case(host, pat, nk, ek, cfg), None, no_input=True)
            impl_off = impl_search(host, pat, nk, ek, {**cfg, "pre_filter": False})
            impl_on = impl_search(host, pat, nk, ek, {**cfg, "pre_filter": True})
            kind, why = judge_search(host, pat, nk, cfg, impl_off, impl_on, m_off, m_on)
            if kind is None:
                continue
            report_search(ctx, host, pat, nk, ek, cfg, kind, why, tag)
            break
        if len(ctx.violations) >= 5:
            return


def search_verdict(ctx, host, pat, nk, ek, cfg):
    mod = ctx.lean().ok([search_request(host, pat, nk, ek, [{**cfg, "pre_filter": False}, {**cfg, "pre_filter": True}])])[0]
    impl_off = impl_search(host, pat, nk, ek, {**cfg, "pre_filter": False})
    impl_on = impl_search(host, pat, nk, ek, {**cfg, "pre_filter": True})
    kind, why = judge_search(host, pat, nk, cfg, impl_off, impl_on, mod["runs"][0], mod["runs"][1])
    return kind, why, impl_off, impl_on, mod


def report_search(ctx, host, pat, nk, ek, cfg, kind, why, tag):
    if kind == "corr":
        ctx.violation("correspondence: `_quick_pre_filter` blow-up guard fires elsewhere than modelled (threshold * 1e4); "
                      "C07 itself is not violated on this input", search_case(host, pat, nk, ek, {**cfg, "pre_filter": True}),
                      {"clause": why, "stream": tag}, no_input=True)
        return

    def fails(h, p):
        k, w, a, b, _ = search_verdict(ctx, h, p, nk, ek, cfg)
        return k == "spec" and "error" not in a and "error" not in b

    h2, p2 = matchgen.shrink_pair(host, pat, fails, budget=120)
    k, w, impl_off, impl_on, mod = search_verdict(ctx, h2, p2, nk, ek, cfg)
    if k != "spec":
        h2, p2 = host, pat
        k, w, impl_off, impl_on, mod = search_verdict(ctx, h2, p2, nk, ek, cfg)
    ctx.violation("find_subgraph_mappings: the cheap pre-filter changes the result set / embeddings depart from the specification",
                  search_case(h2, p2, nk, ek, {**cfg, "pre_filter": True}),
                  {"clause": w or why, "stream": tag, "pre_filter=False": impl_off, "pre_filter=True": impl_on,
                   "specification": {"pre_filter=False": mod["runs"][0]["result"], "pre_filter=True": mod["runs"][1]["result"],
                                     "model_filter_gives_up": mod["runs"][1]["prefilter"]},
                   "candidates_per_pattern_node": cand_counts(h2, p2, nk), "monomorphisms_total": mod["total"]})


# ---------------------------------------------------------------- generators
def rand_engine(rnd, wl=None, mm=None):
    return {"node_attrs": rnd.choice(NODE_ATTRS), "edge_attrs": rnd.choice(EDGE_ATTRS),
            "wl1_filter": (rnd.random() < 0.5) if wl is None else wl,
            "max_mappings": rnd.choice([1, 1, None, 2, 0, 5]) if mm is None else mm}


def full_attrs(g):
    """WL hashing sorts label tuples: keep attribute types homogeneous (every node has every compared key)."""
    for v in g.nodes:
        g.nodes[v].setdefault("charge", 0)
        g.nodes[v].setdefault("element", "C")
    return g


def gen_pair(rnd):
    """-> (g1, g2, shape) for isomorphism-type questions"""
    n = rnd.randint(1, 8)
    r = rnd.random()
    if r < 0.12:
        g1 = matchgen.symmetric_family(rnd, rnd.choice(["cycle", "star", "path", "kab", "rep"]), rnd.randint(2, 7))
    elif r < 0.3:
        g1 = matchgen.multi_component(rnd, [rnd.randint(1, 3) for _ in range(rnd.randint(2, 3))], elems=["C", "C", "N"])
    else:
        g1 = matchgen.mol_like(rnd, n, elems=["C", "C", "N", "O"] if rnd.random() < 0.7 else ["C"],
                               hcount_absent_p=rnd.choice([0.0, 0.15, 1.0]))
    full_attrs(g1)
    r = rnd.random()
    if r < 0.4:
        g2, _ = matchgen.relabelled_copy(rnd, g1)
        shape = "relabelled"
    elif r < 0.8:
        g2, _ = matchgen.relabelled_copy(rnd, g1)
        g2, kind = matchgen.one_edit(rnd, g2)
        shape = "one-edit:" + kind
    elif r < 0.9:
        g2 = full_attrs(matchgen.mol_like(rnd, len(g1), ids=range(50, 50 + len(g1)), elems=["C", "N"]))
        shape = "unrelated-same-size"
    else:
        g2 = full_attrs(matchgen.mol_like(rnd, rnd.randint(1, 8), ids=range(50, 58), elems=["C", "N"]))
        shape = "unrelated"
    return g1, g2, shape


def gen_host_pattern(rnd):
    n = rnd.randint(2, 8)
    if rnd.random() < 0.15:
        host = matchgen.symmetric_family(rnd, rnd.choice(["cycle", "star", "path", "kab"]), rnd.randint(3, 7))
    else:
        host = matchgen.mol_like(rnd, n, elems=["C", "C", "N", "O"])
    full_attrs(host)
    r = rnd.random()
    if r < 0.55:
        k = rnd.randint(1, max(1, len(host) - 1))
        pat, tag = matchgen.pattern_from(rnd, host, k, 1, induced_p=0.8, edit_p=0.25)
        shape = "proper/" + tag.split(":")[0]
    elif r < 0.8:
        pat, _ = matchgen.relabelled_copy(rnd, host, base=100)
        shape = "same-size/copy"
        if rnd.random() < 0.4:
            pat, kind = matchgen.one_edit(rnd, pat)
            shape = "same-size/edit"
        for v in pat.nodes:  # host >= pattern hydrogen rule
            if "hcount" in pat.nodes[v] and rnd.random() < 0.3:
                pat.nodes[v]["hcount"] = rnd.randint(0, pat.nodes[v]["hcount"])
    else:
        pat = full_attrs(matchgen.mol_like(rnd, rnd.randint(1, 4), ids=range(100, 104), elems=["C", "N"]))
        shape = "unrelated"
    return host, full_attrs(pat), shape


def gen_histories(ctx, count):
    rnd = ctx.rnd
    out = []
    for _ in range(count):
        r = rnd.random()
        if r < 0.35:  # single isomorphism question, both argument orders, filter on and off
            g1, g2, shape = gen_pair(rnd)
            e = rand_engine(rnd, wl=False)
            qs = [{"op": "iso", "engine": e, "a": 0, "b": 1}, {"op": "iso", "engine": {**e, "wl1_filter": True}, "a": 0, "b": 1},
                  {"op": "iso", "engine": e, "a": 1, "b": 0}]
            out.append(([g1, g2], qs[: rnd.randint(1, 3)] if rnd.random() < 0.3 else qs, "iso/" + shape.split(":")[0]))
        elif r < 0.70:  # embeddings
            host, pat, shape = gen_host_pattern(rnd)
            e = rand_engine(rnd)
            qs = [{"op": "maps", "engine": e, "a": 0, "b": 1}]
            if rnd.random() < 0.5:
                qs.append({"op": "maps", "engine": {**e, "wl1_filter": not e["wl1_filter"]}, "a": 0, "b": 1})
            out.append(([host, pat], qs, "maps/" + shape))
        else:  # histories: 2-3 shared graphs, 2-6 queries, 2-3 engines with different attribute selections
            g1, g2, shape = gen_pair(rnd)
            graphs = [g1, g2]
            if rnd.random() < 0.5:
                g3, _ = matchgen.relabelled_copy(rnd, g1)
                if rnd.random() < 0.7:
                    v = rnd.choice(list(g3.nodes))
                    g3.nodes[v]["charge"] = g3.nodes[v].get("charge", 0) + 1
                graphs.append(g3)
            engines = [{"node_attrs": na, "edge_attrs": rnd.choice(EDGE_ATTRS), "wl1_filter": rnd.random() < 0.85,
                        "max_mappings": rnd.choice([1, None])}
                       # incl. a permutation of a selection (hcount is not used here: it may be absent on some
                       # nodes, and an engine with wl1_filter sorts labels, which raises on None vs int)
                       for na in rnd.sample([["element"], ["element", "charge"], [], ["charge"], ["charge", "element"]],
                                            rnd.randint(2, 4))]
            qs = []
            for _ in range(rnd.randint(2, 6)):
                a, b = rnd.sample(range(len(graphs)), 2)
                qs.append({"op": rnd.choice(["iso", "iso", "maps"]), "engine": rnd.choice(engines), "a": a, "b": b})
            out.append((graphs, qs, "history/" + shape.split(":")[0]))
    return out


def gen_sub(ctx, count):
    rnd = ctx.rnd
    out = []
    for _ in range(count):
        parent, child, shape = gen_host_pattern(rnd)
        if rnd.random() < 0.3:  # drop some attributes so that the defaults matter
            for g in (parent, child):
                for v in g.nodes:
                    if rnd.random() < 0.3:
                        g.nodes[v].pop("charge", None)
        cfg = {"names": ["element", "charge"], "defaults": [{"s": "*"}, {"n": 0}], "edge_attr": "order",
               "use_filter": rnd.random() < 0.6, "induced": rnd.random() < 0.5}
        if rnd.random() < 0.15:
            cfg["names"], cfg["defaults"] = ["element"], [{"s": "*"}]
        out.append((child, parent, cfg, "sub/" + shape))
        if rnd.random() < 0.5:  # the same question with the filter flipped
            out.append((child, parent, {**cfg, "use_filter": not cfg["use_filter"]}, "sub/" + shape))
    return out


def _search_cfgs(rnd, guard=False):
    """Configurations for one (host, pattern): every strategy with the default threshold, plus small thresholds
    (where the candidate-product guard of the pre-filter can fire).  Each is run with pre_filter off and on."""
    cfgs = [{"strategy": "all", "strict": True, "threshold": None},
            {"strategy": "comp", "strict": False, "threshold": None},
            {"strategy": "bt", "strict": rnd.random() < 0.3, "threshold": None}]
    if rnd.random() < 0.3:
        cfgs.append({"strategy": "comp", "strict": True, "threshold": None})
    for t in ([0, 1, rnd.choice([2, 3])] if guard else [rnd.choice([0, 1, 2, 3, 10])]):
        cfgs.append({"strategy": rnd.choice(["all", "all", "comp", "bt"]), "strict": False, "threshold": t})
    for c in cfgs:
        if rnd.random() < 0.3:
            c["as_enum"] = True
    return cfgs


def gen_prefilter(ctx, count):
    """Pairs aimed at the decision boundaries of `_quick_pre_filter`: attribute equality, hydrogen count >=,
    degree >=, no candidate at all, and the candidate-product guard."""
    rnd = ctx.rnd
    out = []
    for _ in range(count):
        r = rnd.random()
        nk, ek = rnd.choice(SEARCH_NK), rnd.choice(SEARCH_EK)
        guard = False
        if r < 0.30:  # planted pattern (contained): the filter has to let it through
            if rnd.random() < 0.5:
                host = matchgen.mol_like(rnd, rnd.randint(2, 8), hcount_absent_p=rnd.choice([0.0, 0.15, 0.6]))
                ncomp = 1
            else:
                host = matchgen.multi_component(rnd, [rnd.randint(1, 3) for _ in range(rnd.randint(2, 3))], elems=["C", "C", "N"],
                                                hcount_absent_p=rnd.choice([0.15, 0.6]))
                ncomp = rnd.choice([1, 2])
            pat, _ = matchgen.pattern_from(rnd, host, rnd.randint(ncomp, 5), ncomp, lower_h_p=rnd.choice([0.0, 0.5]))
            shape = "prefilter/planted"
        elif r < 0.50:  # hydrogen boundary: one pattern node at exactly / one above the hydrogen count of its image
            host = matchgen.mol_like(rnd, rnd.randint(2, 7), elems=["C", "N", "O", "S"], hcount_absent_p=rnd.choice([0.0, 0.3]))
            k = rnd.randint(1, len(host))
            pat, _ = matchgen.pattern_from(rnd, host, k, 1, lower_h_p=0.0, induced_p=1.0)
            v = rnd.choice(list(pat.nodes))
            top = max([d.get("hcount", 0) for _, d in host.nodes(data=True) if d.get("element") == pat.nodes[v].get("element")] or [0])
            if rnd.random() < 0.5:
                pat.nodes[v]["hcount"] = top
                shape = "prefilter/hcount=max"
            else:
                pat.nodes[v]["hcount"] = top + 1
                shape = "prefilter/hcount=max+1"
        elif r < 0.70:  # degree boundary: a whole component (degrees equal), or one pendant neighbour too many
            host = matchgen.mol_like(rnd, rnd.randint(2, 7), elems=["C", "C", "N"], ring_p=0.7)
            pat, _ = matchgen.relabelled_copy(rnd, host, base=100)
            if rnd.random() < 0.5:
                shape = "prefilter/degree=equal"
            else:
                top = max(d for _, d in host.degree())
                v = rnd.choice([x for x in pat.nodes if pat.degree(x) == top] if rnd.random() < 0.6 else list(pat.nodes))
                keep = set(matchgen.connected_subset(rnd, pat, rnd.randint(1, len(pat)), [v]))
                pat = pat.subgraph(keep | {v}).copy()
                w = max(pat.nodes) + 1
                pat.add_node(w, element=rnd.choice(["C", "N"]), charge=0, hcount=0)
                pat.add_edge(v, w, order=1.0)
                shape = "prefilter/degree+pendant"
        elif r < 0.82:  # one label edited (mostly unplants the pattern; the filter may or may not see it)
            host = matchgen.mol_like(rnd, rnd.randint(2, 8))
            pat, tag = matchgen.pattern_from(rnd, host, rnd.randint(1, 5), 1, edit_p=1.0)
            shape = "prefilter/" + tag.replace(":", "-")
        elif r < 0.90:  # many candidates: the candidate-product guard fires for small thresholds
            host = matchgen.symmetric_family(rnd, rnd.choice(["cycle", "star", "path", "kab", "rep"]), rnd.randint(5, 8))
            pat = matchgen.symmetric_family(rnd, rnd.choice(["path", "rep", "star"]), rnd.randint(3, 5), base=100)
            for v in pat.nodes:
                pat.nodes[v]["hcount"] = rnd.choice([0, 1])
            guard = True
            shape = "prefilter/symmetric"
        elif r < 0.95:  # few embeddings, large candidate product: only the guard can empty the result
            n = rnd.randint(5, 8)
            host = nx.Graph()
            for i in range(n):
                host.add_node(i, element="C", charge=0, hcount=2)
            for i in range(n - 1):
                host.add_edge(i, i + 1, order=float(rnd.choice([1, 2, 3])))
            pat, _ = matchgen.relabelled_copy(rnd, host, base=100)
            nk, ek, guard = ["element"], ["order"], True
            shape = "prefilter/chain-copy"
        else:  # degenerate: empty pattern / empty host / isolated nodes
            host = matchgen.multi_component(rnd, [rnd.randint(0, 2) for _ in range(rnd.randint(0, 3))], elems=["C", "N"])
            pat = matchgen.multi_component(rnd, [rnd.randint(0, 1) for _ in range(rnd.randint(0, 3))], elems=["C", "N"], base=100)
            shape = "prefilter/degenerate"
        if "in_ring" in nk:  # an attribute some nodes do not carry: `.get` gives None on both sides
            for g in (host, pat):
                for v in g.nodes:
                    if rnd.random() < 0.5:
                        g.nodes[v]["in_ring"] = rnd.random() < 0.3
        out.append((host, pat, nk, ek, _search_cfgs(rnd, guard), shape))
    return out


# ---------------------------------------------------------------- representation / scale streams
EXTRA_ALPH = {"aromatic": [False, True], "isotope": [0, 0, 12, 13, 2500], "grp": [(), (1, 2), (2, 1), (1,), (1, 2, 3)],
              "name": ["", "a", "A", "a "], "label": ["", "x", "y"], "ring": [False, True]}
ORDER_MAPS = [None, None, {1.0: "-", 2.0: "=", 3.0: "#", 1.5: ":"}, {1.0: "SINGLE", 2.0: "DOUBLE", 3.0: "TRIPLE", 1.5: "AROMATIC"},
              {2.0: "="}, {3.0: 0}, {3.0: 12, 2.0: 10}, {1.0: "1", 2.0: "2"}]


def decorate(rnd, g, symmetric=False):
    """Extra attributes on EVERY node / edge of g (so that a WL engine can sort the label tuples), other spellings of the
    bond orders, falsy / multi-digit values.  -> (extra node keys, extra edge keys).  On a symmetric skeleton every extra
    key is constant except for one value of one key."""
    nkeys = [k for k, p in (("aromatic", 0.35), ("isotope", 0.35), ("grp", 0.3), ("name", 0.3), ("label", 0.3)) if rnd.random() < p]
    ekeys = [k for k, p in (("label", 1.0 if "label" in nkeys else 0.1), ("ring", 0.25)) if rnd.random() < p]
    for k in nkeys:
        const = rnd.choice(EXTRA_ALPH[k])
        for v in g.nodes:
            g.nodes[v][k] = const if symmetric else rnd.choice(EXTRA_ALPH[k])
    for k in ekeys:
        const = rnd.choice(EXTRA_ALPH[k])
        for u, v in g.edges:
            g[u][v][k] = const if symmetric else rnd.choice(EXTRA_ALPH[k])
    if symmetric and nkeys and len(g):
        k, v = rnd.choice(nkeys), rnd.choice(list(g.nodes))
        g.nodes[v][k] = rnd.choice([x for x in EXTRA_ALPH[k] if x != g.nodes[v][k]])
    om = rnd.choice(ORDER_MAPS)
    if om:
        for u, v in g.edges:
            g[u][v]["order"] = om.get(g[u][v].get("order"), g[u][v].get("order"))
    r = rnd.random()
    if r < 0.15:  # a falsy element symbol
        for v in g.nodes:
            if g.nodes[v].get("element") == "N":
                g.nodes[v]["element"] = ""
    elif r < 0.3:  # symbols that differ only in case / length
        for v in g.nodes:
            g.nodes[v]["element"] = {"N": "Cl", "O": "c"}.get(g.nodes[v].get("element"), g.nodes[v].get("element"))
    if rnd.random() < 0.2:
        for v in g.nodes:
            g.nodes[v]["charge"] = g.nodes[v].get("charge", 0) * rnd.choice([10, 12])
    if rnd.random() < 0.15:
        for v in g.nodes:
            if "hcount" in g.nodes[v]:
                g.nodes[v]["hcount"] += 10
    return nkeys, ekeys


def edit_extra(rnd, g, nkeys, ekeys):
    """One value of one extra key changed."""
    h = g.copy()
    opts = [("n", k) for k in nkeys if len(h)] + [("e", k) for k in ekeys if h.number_of_edges()]
    if not opts:
        return matchgen.one_edit(rnd, g)
    where, k = rnd.choice(opts)
    if where == "n":
        v = rnd.choice(list(h.nodes))
        h.nodes[v][k] = rnd.choice([x for x in EXTRA_ALPH[k] if x != h.nodes[v][k]])
    else:
        u, v = rnd.choice(list(h.edges))
        h[u][v][k] = rnd.choice([x for x in EXTRA_ALPH[k] if x != h[u][v][k]])
    return h, "extra:" + k


def permute_labels(rnd, g):
    """Same skeleton, same multiset of node (or edge) labels, placed differently."""
    h = g.copy()
    if rnd.random() < 0.6 or not h.number_of_edges():
        nodes = list(h.nodes)
        ds = [dict(h.nodes[v]) for v in nodes]
        rnd.shuffle(ds)
        for v, d in zip(nodes, ds):
            h.nodes[v].clear()
            h.nodes[v].update(d)
    else:
        edges = list(h.edges)
        ds = [dict(h[u][v]) for u, v in edges]
        rnd.shuffle(ds)
        for (u, v), d in zip(edges, ds):
            h[u][v].clear()
            h[u][v].update(d)
    return h


def rich_engines(rnd, nkeys, ekeys, has_h, k, wl_ok=True):
    pool_n = ["element", "charge"] + list(nkeys) + (["hcount"] if has_h else [])
    pool_e = ["order"] + list(ekeys)
    out = []
    for _ in range(k):
        r = rnd.random()
        if r < 0.3:  # everything, in some order
            na = rnd.sample(pool_n, len(pool_n))
        elif r < 0.55:  # the defaults plus more keys
            na = ["element", "charge"] + rnd.sample(pool_n[2:], rnd.randint(0, len(pool_n) - 2))
        elif r < 0.7:  # one numeric / extra key alone
            na = [rnd.choice(pool_n[1:])]
        else:
            na = rnd.sample(pool_n, rnd.randint(0, len(pool_n)))
        ea = rnd.sample(pool_e, len(pool_e)) if rnd.random() < 0.6 else rnd.sample(pool_e, rnd.randint(0, len(pool_e)))
        e = {"node_attrs": na, "edge_attrs": ea, "wl1_filter": wl_ok and rnd.random() < 0.8,
             "max_mappings": rnd.choice([1, None, None, 2, 6, 10])}
        if rnd.random() < 0.12:
            e["attrs_as"] = "tuple"
        out.append(e)
    return out


def pair_queries(rnd, engines, ngraphs, wl_ok=True):
    """The main pair (0, 1) with the filter off and on, both argument orders, embeddings; then further queries: other graph
    objects, other engines, a query repeated verbatim, a second engine object with an equal configuration."""
    e = engines[0]
    on, off = {**e, "wl1_filter": wl_ok}, {**e, "wl1_filter": False}
    qs = [{"op": "iso", "engine": off, "a": 0, "b": 1}, {"op": "iso", "engine": on, "a": 0, "b": 1},
          {"op": "iso", "engine": on, "a": 1, "b": 0}, {"op": "maps", "engine": on, "a": 0, "b": 1},
          {"op": "maps", "engine": off, "a": 0, "b": 1}]
    for _ in range(rnd.randint(0, 4)):
        r = rnd.random()
        if r < 0.25:
            qs.append(rnd.choice(qs))
        else:
            a = rnd.randrange(ngraphs)
            b = a if rnd.random() < 0.08 else rnd.choice([x for x in range(ngraphs) if x != a])
            eng = rnd.choice(engines)
            if r < 0.45:
                eng = {**eng, "instance": rnd.randint(2, 3)}  # ignored by both sides: only makes it a separate engine object
            qs.append({"op": rnd.choice(["iso", "iso", "maps"]), "engine": eng, "a": a, "b": b})
    if rnd.random() < 0.5:
        rnd.shuffle(qs)
    return qs


def gen_representation(ctx, count):
    rnd = ctx.rnd
    out = []
    for _ in range(count):
        r = rnd.random()
        symmetric = r < 0.15
        habs = rnd.choice([0.0, 0.0, 1.0])
        if symmetric:
            g1 = matchgen.symmetric_family(rnd, rnd.choice(["cycle", "star", "path", "kab", "rep"]), rnd.randint(3, 7))
        elif r < 0.3:
            g1 = matchgen.multi_component(rnd, [rnd.randint(1, 3) for _ in range(rnd.randint(2, 3))], elems=["C", "C", "N"], hcount_absent_p=habs)
        else:
            g1 = matchgen.mol_like(rnd, rnd.randint(2, 8), elems=["C", "C", "N", "O"] if rnd.random() < 0.7 else ["C"],
                                   charge_p=rnd.choice([0.1, 0.4]), hcount_absent_p=habs)
        full_attrs(g1)
        nkeys, ekeys = decorate(rnd, g1, symmetric)
        r = rnd.random()
        if r < 0.45:
            g2, _ = matchgen.relabelled_copy(rnd, g1)
            shape = "relabelled"
        elif r < 0.6:
            g2, _ = matchgen.relabelled_copy(rnd, g1)
            g2, kind = matchgen.one_edit(rnd, g2)
            shape = "one-edit"
        elif r < 0.72:
            g2, _ = matchgen.relabelled_copy(rnd, g1)
            g2, kind = edit_extra(rnd, g2, nkeys, ekeys)
            shape = "one-edit-extra"
        elif r < 0.82:
            g2, _ = matchgen.relabelled_copy(rnd, permute_labels(rnd, g1))
            shape = "labels-permuted"
        else:
            g2, tag = matchgen.pattern_from(rnd, g1, rnd.randint(1, max(1, len(g1) - 1)), 1, induced_p=0.8, edit_p=0.2)
            shape = "proper-pattern"
        graphs = [g1, g2]
        r = rnd.random()
        if r < 0.2:  # objects derived from an object that is queried too
            graphs.append(g1.copy())
            ctx.count("repr_third_object:copy-of-queried")
        elif r < 0.35:
            keep = matchgen.connected_subset(rnd, g1, rnd.randint(1, len(g1)))
            graphs.append(g1.subgraph(keep).copy())
            ctx.count("repr_third_object:subgraph-of-queried")
        elif r < 0.45:
            g3, _ = matchgen.relabelled_copy(rnd, g2)
            graphs.append(g3)
            ctx.count("repr_third_object:relabelled-copy")
        wl_ok = True
        if rnd.random() < 0.1:  # optional attributes missing on some nodes / edges: `.get` gives None on both sides; the WL
            wl_ok = False       # engine cannot sort None next to a value (assumption), so these are asked with the filter off
            for g in graphs:
                for v in g.nodes:
                    for k in ["charge"] + nkeys:
                        if rnd.random() < 0.2:
                            g.nodes[v].pop(k, None)
                for u, v in g.edges:
                    for k in ["order"] + ekeys:
                        if rnd.random() < 0.15:
                            g[u][v].pop(k, None)
            ctx.count("repr_attributes_absent(filter off)")
        if rnd.random() < 0.5:
            ctx.count("repr_unselected_noise_attributes")
            for g in graphs:
                if rnd.random() < 0.7:
                    add_noise(rnd, g)
        for k in nkeys:
            ctx.count("repr_extra_node_key:" + k)
        for k in ekeys:
            ctx.count("repr_extra_edge_key:" + k)
        orders = {type(d.get("order")).__name__ for d in (d for _, _, d in g1.edges(data=True))}
        ctx.count("repr_orders:" + ("none" if not orders else "strings" if orders == {"str"} else "numbers" if "str" not in orders else "strings+numbers"))
        # spelling: one mode per graph object (int graph vs float graph vs value-by-value mixtures)
        graphs = [retype_graph(rnd, g)[0] for g in graphs]
        # hcount is selectable only where every node of every graph carries it (a planted pattern may have dropped it)
        has_h = all("hcount" in d for g in graphs for _, d in g.nodes(data=True))
        engines = rich_engines(rnd, nkeys, ekeys, has_h, rnd.randint(1, 3), wl_ok)
        qs = pair_queries(rnd, engines, len(graphs), wl_ok)
        out.append((graphs, qs, "repr/" + ("symmetric/" if symmetric else "") + shape))
    return out


def gen_tiny_retyped(ctx, tiny, count):
    """Pairs of tiny classes; the second graph relabelled and re-spelled; selections containing the numeric keys."""
    rnd = ctx.rnd
    by_n = {}
    for g in tiny:
        by_n.setdefault(len(g), []).append(g)
    sels = [["element", "hcount"], ["element", "charge"], ["hcount"], ["charge", "element", "hcount"], ["hcount", "element"]]
    out = []
    for i in range(count):
        a = rnd.choice(tiny)
        r = rnd.random()
        if r < 0.5:
            b = a
        elif r < 0.85:
            b = rnd.choice(by_n[len(a)])
        else:
            b = rnd.choice(tiny)
        if len(b) > len(a):
            a, b = b, a
        b2 = nx.relabel_nodes(b, {v: v + 10 for v in b.nodes})
        a2, _ = retype_graph(rnd, a, rnd.choice(["asis", "int", "mixed"]), 0.0)
        b2, _ = retype_graph(rnd, b2, FORMS[i % len(FORMS)] if i % 3 else "mixed", rnd.choice([0.0, 0.0, 1.0]))
        e0 = {"node_attrs": sels[i % len(sels)], "edge_attrs": ["order"], "wl1_filter": False, "max_mappings": None}
        e1 = {**e0, "wl1_filter": True}
        qs = [{"op": "iso", "engine": e0, "a": 0, "b": 1}, {"op": "iso", "engine": e1, "a": 1, "b": 0},
              {"op": "iso", "engine": e1, "a": 0, "b": 1}, {"op": "maps", "engine": e1, "a": 0, "b": 1},
              {"op": "maps", "engine": e0, "a": 0, "b": 1}]
        out.append(([a2, b2], qs, "tiny-retyped/" + ("same-class" if b is a else "same-size" if len(a) == len(b) else "smaller")))
    return out


def gen_scale(ctx, count):
    """One to four nodes more than the random streams use, multi-digit node ids, larger max_mappings."""
    rnd = ctx.rnd
    out = []
    for _ in range(count):
        n = rnd.randint(9, 12)
        base = rnd.choice([0, 90, 1000, 10 ** 6])
        if rnd.random() < 0.15:
            g1 = matchgen.symmetric_family(rnd, rnd.choice(["cycle", "path", "rep"]), n, base=base)
        else:
            g1 = matchgen.mol_like(rnd, n, ids=range(base, base + n), elems=["C", "C", "N", "O"], hcount_absent_p=rnd.choice([0.0, 0.15]))
        full_attrs(g1)
        r = rnd.random()
        if r < 0.4:
            g2, _ = matchgen.relabelled_copy(rnd, g1, base=rnd.choice([None, 500, 10 ** 5]))
            shape = "relabelled"
        elif r < 0.65:
            g2, _ = matchgen.relabelled_copy(rnd, g1)
            g2, _ = matchgen.one_edit(rnd, g2)
            shape = "one-edit"
        else:
            k = rnd.choice([n - 1, n - 1, n - 2, rnd.randint(1, n - 1)])
            g2, _ = matchgen.pattern_from(rnd, g1, k, 1, induced_p=0.8, edit_p=0.2)
            shape = "proper-pattern"
        graphs = [g1, full_attrs(g2)]
        if rnd.random() < 0.5:
            graphs = [retype_graph(rnd, g)[0] for g in graphs]
            shape += "+respelled"
        e = rand_engine(rnd, wl=False, mm=rnd.choice([1, 6, 10, 100, None]))
        if "hcount" not in e["node_attrs"] and all("hcount" in d for g in graphs for _, d in g.nodes(data=True)) and rnd.random() < 0.2:
            e = {**e, "node_attrs": e["node_attrs"] + ["hcount"]}
        on = {**e, "wl1_filter": True}
        qs = [{"op": "iso", "engine": e, "a": 0, "b": 1}, {"op": "iso", "engine": on, "a": 0, "b": 1},
              {"op": "iso", "engine": on, "a": 1, "b": 0}, {"op": "maps", "engine": on, "a": 0, "b": 1},
              {"op": "maps", "engine": e, "a": 0, "b": 1}]
        out.append((graphs, qs, f"scale/{shape}"))
    return out


def respell_values(rnd, graphs):
    """The same re-labelling of bond orders / element symbols in all graphs of a case (falsy, string-valued, multi-digit)."""
    om = rnd.choice(ORDER_MAPS)
    em = rnd.choice([None, None, {"N": ""}, {"N": "Cl", "O": "c"}])
    for g in graphs:
        if om:
            for u, v in g.edges:
                if "order" in g[u][v]:
                    g[u][v]["order"] = om.get(g[u][v]["order"], g[u][v]["order"])
        if em:
            for v in g.nodes:
                if "element" in g.nodes[v]:
                    g.nodes[v]["element"] = em.get(g.nodes[v]["element"], g.nodes[v]["element"])
    return ("+orders" if om else "") + ("+elements" if em else "")


def respelled(rnd, graphs, values=True):
    """-> (new graph objects, shape suffix): values re-labelled consistently, noise attributes, numbers / strings re-spelled
    independently per graph."""
    graphs = [g.copy() for g in graphs]
    sfx = respell_values(rnd, graphs) if values and rnd.random() < 0.4 else ""
    for g in graphs:
        if rnd.random() < 0.3:
            add_noise(rnd, g)
    return [retype_graph(rnd, g)[0] for g in graphs], sfx


def gen_repr_sub(ctx, n1, n2):
    cs = []
    for child, parent, cfg, shape in gen_sub(ctx, n1) + gen_sub_options(ctx, n2):
        (child, parent), sfx = respelled(ctx.rnd, [child, parent])
        cs.append((child, parent, cfg, "repr-" + shape + sfx))
    return cs


def gen_repr_giso(ctx, n):
    gi = []
    for _ in range(n):
        g1, g2, shape = gen_pair(ctx.rnd)
        (g1, g2), sfx = respelled(ctx.rnd, [g1, g2])
        gi.append((g1, g2, ctx.rnd.random() < 0.6, "repr-" + shape + sfx))
    return gi


def gen_repr_search(ctx, n):
    cs = []
    for host, pat, nk, ek, cfgs, shape in gen_prefilter(ctx, n):
        (host, pat), sfx = respelled(ctx.rnd, [host, pat])
        cs.append((host, pat, nk, ek, cfgs, "repr-" + shape + sfx))
    return cs


SUB_SELECTIONS = [(["element", "charge"], [{"s": "*"}, {"n": 0}]), (["element"], [{"s": "*"}]), ([], []), (["charge"], [{"n": 0}]),
                  (["charge", "element"], [{"n": 0}, {"s": "C"}]), (["element"], [{"s": "C"}]), (["element", "hcount"], [{"s": "*"}, {"n": 0}])]


def gen_sub_options(ctx, count):
    """The boolean sub-graph tests under the options the original stream keeps fixed: falsy / absent edge attribute,
    other label selections and defaults (with attributes missing so that defaults matter), explicit comparators."""
    rnd = ctx.rnd
    out = []
    for _ in range(count):
        parent, child, shape = gen_host_pattern(rnd)
        if rnd.random() < 0.5:  # missing attributes: defaults / None labels matter
            for g in (parent, child):
                for v in g.nodes:
                    for k in ("charge", "element", "hcount"):
                        if rnd.random() < 0.2:
                            g.nodes[v].pop(k, None)
                for u, v in g.edges:
                    if rnd.random() < 0.15:
                        g[u][v].pop("order", None)
        names, defaults = rnd.choice(SUB_SELECTIONS)
        cfg = {"names": names, "defaults": defaults, "edge_attr": rnd.choice(["order", "order", "", None, None, "bond"]),
               "use_filter": rnd.random() < 0.5, "induced": rnd.random() < 0.5}
        r = rnd.random()
        if r < 0.2:
            cfg["node_cmp"] = "eq"
            cfg["edge_cmp"] = rnd.choice([None, "eq"])
        elif r < 0.4:  # constant-true comparator = attribute not selected (filter off: the filter compares with `!=`)
            cfg["use_filter"] = False
            cfg["node_cmp"], cfg["edge_cmp"] = rnd.choice([("true", None), (None, "true"), ("true", "true"), ("true", "eq")])
        elif r < 0.5:
            cfg["backend"] = rnd.choice(["mod", "NX", "bogus"])
            if cfg["edge_attr"] is None:
                cfg["edge_attr"] = ""
        out.append((child, parent, cfg, "subopt/" + shape))
        if rnd.random() < 0.5 and cfg.get("node_cmp") != "true" and cfg.get("edge_cmp") != "true":
            out.append((child, parent, {**cfg, "use_filter": not cfg["use_filter"]}, "subopt/" + shape))
    return out


def gen_degenerate(ctx, count):
    """Engine queries the original streams never ask: empty graphs, a graph against itself, `node_attrs=None`,
    the backend spelled in upper case, unsupported backends."""
    rnd = ctx.rnd
    out = []
    for _ in range(count):
        g1, g2, shape = gen_pair(rnd)
        graphs = [g1, g2, nx.Graph()]
        if rnd.random() < 0.5:
            one = nx.Graph()
            one.add_node(rnd.randint(0, 60), element=rnd.choice(["C", "N"]), charge=0, hcount=rnd.choice([0, 1]))
            graphs.append(one)
        engines = []
        for _ in range(rnd.randint(1, 3)):
            e = rand_engine(rnd)
            r = rnd.random()
            if r < 0.3:
                e["none_for_empty"] = True
            elif r < 0.5:
                e["backend"] = rnd.choice(["NX", "Nx"])
            elif r < 0.65:
                e["backend"] = rnd.choice(["rule", "mod", "bogus"])
            engines.append(e)
        qs = []
        for _ in range(rnd.randint(2, 5)):
            a = rnd.randrange(len(graphs))
            b = a if rnd.random() < 0.3 else rnd.randrange(len(graphs))
            qs.append({"op": rnd.choice(["iso", "maps"]), "engine": rnd.choice(engines), "a": a, "b": b})
        out.append((graphs, qs, "degenerate/" + shape.split(":")[0]))
    return out


# ---------------------------------------------------------------- certificate streams
# `find_graph_isomorphism` (small inputs: against its Lean model) and every isomorphism / containment entry point on
# inputs beyond CPython's small-integer cache (more than 256 nodes or edges: the enumerating Lean engine is not run
# there).  The specification side of a query is computed per query, independently of the history, from search-free Lean
# commands: `c07.certificate` checks a GIVEN mapping (the planted bijection of a relabelled copy / the planted embedding
# of a sub-pattern / every mapping the implementation returns) with `isIsoB` / `isInducedB` / `isMonoB`
# (theorems isIsoB_iff, isInducedB_iff, isMonoB_iff); `c07.invariants` evaluates `isoInvariants` / `containInvariants`
# (theorems no_iso_of_invariants, not_contained_of_invariants).  A checked mapping makes the demanded verdict True
# (isomorphic_of_certificate, get_mappings_of_certificate, find_iso_of_certificate, subgraph_*_iff,
# graph_isomorphism_iff), a failed invariant makes it False; otherwise the query is only gated metamorphically.
FIND_KEYS = ["element", "atom_map", "hcount"]
GISO_PREP = {"names": ["element", "charge"], "defaults": [{"s": "*"}, {"n": 0}], "edge_key": "order", "edge_default": {"n": 2}}


def spec_of(q):
    """How an entry-point query reads as a question about (host, pattern, selection, iso / induced / mono)."""
    e = q["entry"]
    if e == "find":  # the mapping goes G1 -> G2: G1 is the pattern of the Lean reading
        d = q.get("use_defaults") is not False
        return {"host": q["b"], "pattern": q["a"], "node_keys": FIND_KEYS if d else [], "edge_keys": ["order"] if d else [],
                "hcount": False, "prep": "find" if d else None, "mode": "iso"}
    if e == "giso":
        d = bool(q.get("use_defaults"))
        return {"host": q["a"], "pattern": q["b"], "node_keys": ["element", "charge"] if d else [], "edge_keys": ["order"] if d else [],
                "hcount": False, "prep": GISO_PREP if d else None, "mode": "iso"}
    if e in ("engine.iso", "engine.maps"):  # isomorphic(g1, g2): g1 plays host; get_mappings(host, pattern)
        return {"host": q["a"], "pattern": q["b"], "node_keys": list(q["engine"]["node_attrs"]), "edge_keys": list(q["engine"]["edge_attrs"]),
                "hcount": True, "prep": None, "mode": "iso" if e == "engine.iso" else "induced"}
    if e == "sub":  # a = child, b = parent
        c = model_sub_cfg(q["cfg"])
        k = min(len(c["names"]), len(c["defaults"]))
        return {"host": q["b"], "pattern": q["a"], "node_keys": c["names"][:k], "edge_keys": [c["edge_attr"]] if c["edge_attr"] else [],
                "hcount": False, "prep": {"names": c["names"], "defaults": c["defaults"]}, "mode": "induced" if c["induced"] else "mono"}
    raise ValueError(e)


def _lean_sel(sp, enc):
    """enc: the encoded graphs of the case (encoded once per case: the large ones are asked about many times)."""
    r = {"host": enc[sp["host"]], "pattern": enc[sp["pattern"]],
         "node_keys": sp["node_keys"], "edge_keys": sp["edge_keys"], "hcount": sp["hcount"]}
    if sp["prep"] is not None:
        r["prep"] = sp["prep"]
    return r


def cert_request(sp, graphs, enc, m):
    """m: dict pattern node -> host node.  None when m is not even a function on the pattern's node set."""
    pat = graphs[sp["pattern"]]
    try:
        if set(m) != set(pat.nodes):
            return None
        pairs = [[int(v), int(m[v])] for v in pat.nodes]
    except (TypeError, ValueError):
        return None
    return {"cmd": "c07.certificate", **_lean_sel(sp, enc), "mapping": pairs, "mode": sp["mode"]}


def planted_for(planted, sp):
    """A planted mapping pattern -> host for this reading, if one is known (isomorphisms are known in both directions)."""
    for pl in planted:
        if pl["from"] == sp["pattern"] and pl["to"] == sp["host"] and (pl["kind"] == "iso" or sp["mode"] != "iso"):
            return {u: v for u, v in pl["map"]}
        if pl["kind"] == "iso" and pl["from"] == sp["host"] and pl["to"] == sp["pattern"]:
            return {v: u for u, v in pl["map"]}
    return None


def model_request(q, graphs):
    """The enumerating model's own answer (small inputs only)."""
    a, b = graphs[q["a"]], graphs[q["b"]]
    e = q["entry"]
    if e == "find":
        return {"cmd": "c07.findiso", "g1": graphio.graph(a), "g2": graphio.graph(b), "use_defaults": q.get("use_defaults") is not False}
    if e == "giso":
        return {"cmd": "c07.giso", "g1": graphio.graph(a), "g2": graphio.graph(b), "use_defaults": bool(q.get("use_defaults"))}
    if e in ("engine.iso", "engine.maps"):
        eng = {k: q["engine"][k] for k in ("node_attrs", "edge_attrs", "wl1_filter", "max_mappings")}
        return hist_request([a, b], [{"op": "iso" if e == "engine.iso" else "maps", "engine": eng, "a": 0, "b": 1}])
    return sub_request(a, b, q["cfg"])


def model_verdict(q, mod):
    """-> (verdict, exact number of embeddings demanded or None)"""
    e = q["entry"]
    if e == "find":
        return (mod["on"] if q.get("fast") is not False else mod["off"]) is not None, None
    if e == "giso":
        return bool(mod), None
    if e == "engine.iso":
        return mod["pure"][0]["verdict"], None
    if e == "engine.maps":
        return mod["pure"][0]["n"] > 0, mod["pure"][0]["n"]
    return mod["verdict"], None


class _TooSlow(Exception):
    pass


def _alarm(*_):
    raise _TooSlow()


WATCHDOG_S = 60


def impl_entry(graphs, q, engines):
    """One entry-point call.  On large inputs a watchdog ends a call that runs for more than a minute (the generated families
    take well under a second on the unchanged tree; VF2 has no time bound of its own): such a call is recorded as an error of its
    own kind and never judged, so it can only ever suppress a gate."""
    import signal
    import threading

    big = max(len(graphs[q["a"]]), len(graphs[q["b"]]), graphs[q["a"]].number_of_edges(), graphs[q["b"]].number_of_edges()) > 200
    guard = big and threading.current_thread() is threading.main_thread() and hasattr(signal, "SIGALRM")
    if not guard:
        return _impl_entry(graphs, q, engines)
    prev = signal.signal(signal.SIGALRM, _alarm)
    signal.alarm(WATCHDOG_S)
    try:
        return _impl_entry(graphs, q, engines)
    except _TooSlow:
        return {"error": "watchdog", "watchdog": True}
    finally:
        signal.alarm(0)
        signal.signal(signal.SIGALRM, prev)


def _impl_entry(graphs, q, engines):
    a, b = graphs[q["a"]], graphs[q["b"]]
    e = q["entry"]
    try:
        if e == "find":
            from synkit.Graph.Matcher.graph_morphism import find_graph_isomorphism
            kw = {}
            if q.get("use_defaults") is not None:
                kw["use_defaults"] = q["use_defaults"]
            if q.get("fast") is not None:
                kw["fast_invariant_check"] = q["fast"]
            m = find_graph_isomorphism(a, b, **kw)
            if m is not None and not isinstance(m, dict):
                return {"error": f"returned {type(m).__name__}, neither a dict nor None"}
            return {"verdict": m is not None, "maps": [] if m is None else [dict(m)]}
        if e == "giso":
            from synkit.Graph.Matcher.graph_morphism import graph_isomorphism
            return {"verdict": bool(graph_isomorphism(a, b, use_defaults=bool(q.get("use_defaults"))))}
        if e in ("engine.iso", "engine.maps"):
            key = json.dumps(q["engine"], sort_keys=True)
            if key not in engines:
                engines[key] = mk_engine(q["engine"])
            if e == "engine.iso":
                return {"verdict": bool(engines[key].isomorphic(a, b))}
            res = [dict(m) for m in engines[key].get_mappings(a, b)]
            return {"verdict": len(res) > 0, "maps": res}
        r = impl_sub(q["which"], a, b, q["cfg"])
        return r if "error" in r else {"verdict": r["verdict"]}
    except _TooSlow:
        raise
    except RecursionError as ex:
        return {"error": "RecursionError: " + str(ex)[:100]}
    except Exception as ex:
        return {"error": type(ex).__name__ + ": " + str(ex)[:200]}


def _flagless(q):
    """The query with its cheap pre-filter flag removed: queries equal up to it must get the same verdict."""
    q = json.loads(json.dumps(q))
    q.pop("fast", None)
    if "engine" in q:
        q["engine"].pop("wl1_filter", None)
        q["engine"].pop("instance", None)
    if "cfg" in q:
        q["cfg"].pop("use_filter", None)
    q.pop("which", None)  # the three boolean sub-graph entry points answer the same question
    return json.dumps(q, sort_keys=True)


def _mkey(m):
    try:
        return json.dumps(sorted([int(k), int(v)] for k, v in m.items()))
    except (TypeError, ValueError):
        return repr(sorted(m.items(), key=repr))


def _cert_prepare(graphs, planted, queries, with_model):
    """Run the implementation on the shared graph objects, build the Lean requests of the specification side."""
    snap = [g.copy() for g in graphs]
    engines = {}
    impls = [impl_entry(graphs, q, engines) for q in queries]
    mutated = any(not matchgen.graphs_equal(x, y) for x, y in zip(graphs, snap))
    graphs = snap  # the specification side reads the inputs as they were handed in
    enc = [graphio.graph(g) for g in graphs]
    reqs, slots = [], []
    for i, q in enumerate(queries):
        sp = spec_of(q)
        pl = planted_for(planted, sp)
        cand = [("inv", None, {"cmd": "c07.invariants", **_lean_sel(sp, enc)})]
        if pl is not None:
            cand.append(("planted", None, cert_request(sp, graphs, enc, pl)))
        if with_model:
            cand.append(("model", None, model_request(q, graphs)))
        for j, m in enumerate(impls[i].get("maps", [])):
            cand.append(("ret", j, cert_request(sp, graphs, enc, m)))
        for kind, j, r in cand:
            if r is not None:
                slots.append((i, kind, j))
                reqs.append(r)
    return {"graphs": graphs, "queries": queries, "impls": impls, "mutated": mutated, "slots": slots, "with_model": with_model}, reqs


def _cert_judge(prep, reps):
    graphs, queries, impls, with_model = prep["graphs"], prep["queries"], prep["impls"], prep["with_model"]
    info = [{"planted": None, "inv": None, "model": None, "ret": {}} for _ in queries]
    for (i, kind, j), rep in zip(prep["slots"], reps):
        if kind == "ret":
            info[i]["ret"][j] = rep
        else:
            info[i][kind] = rep
    out = []
    for i, q in enumerate(queries):
        sp, inf, impl = spec_of(q), info[i], impls[i]
        rec = {"impl": {k: (v if k != "maps" else len(v)) for k, v in impl.items()}, "spec": None, "why": None, "kind": "spec", "by": None}
        inv_no = not inf["inv"]["iso" if sp["mode"] == "iso" else "contain"]
        if not inf["inv"]["wf"]:
            rec["why"], rec["kind"] = "harness: an input graph is not well formed", "model"
        elif inf["planted"] and inv_no:
            rec["why"], rec["kind"] = "model: a checked mapping exists although an invariant differs (theorem no_iso_of_invariants contradicted)", "model"
        if inf["planted"]:
            rec["spec"], rec["by"] = True, "planted mapping checked by Lean"
        elif inv_no:
            rec["spec"], rec["by"] = False, "an invariant (counts / degree sequence / label histogram) differs"
        demanded_n = None
        if with_model:
            mv, demanded_n = model_verdict(q, inf["model"])
            if rec["spec"] is not None and rec["spec"] != mv and rec["why"] is None:
                rec["why"], rec["kind"] = (f"model: the enumerating model answers {mv}, the certificate path {rec['spec']} "
                                           "(theorems *_of_certificate / *_of_invariants contradicted, or `spec_of` mistranslates the entry point)"), "model"
            if q["entry"] == "find" and (inf["model"]["on"] is None) != (inf["model"]["off"] is None) and rec["why"] is None:
                rec["why"], rec["kind"] = "model: the quick invariants change the model's verdict (theorem find_iso_fast_irrelevant contradicted)", "model"
            if rec["spec"] is None:
                rec["spec"], rec["by"] = mv, "enumerating Lean model"
        if rec["why"] is None:
            rec["why"] = judge_entry(q, sp, impl, rec["spec"], inf["ret"], demanded_n, graphs)
        out.append(rec)
    if prep["mutated"] and all(r["why"] is None for r in out):
        out[-1]["why"] = "an input graph was modified"
    # metamorphic: queries equal up to the pre-filter flag get equal verdicts (also where the specification is undetermined)
    seen = {}
    for i, (q, rec) in enumerate(zip(queries, out)):
        if "error" in impls[i] or rec["why"] is not None:
            continue
        k = (_flagless(q), q["a"], q["b"])
        if k in seen and seen[k][1] != impls[i]["verdict"]:
            rec["why"] = (f"turning the cheap pre-filter on / off changed the verdict: {impls[i]['verdict']} here, "
                          f"{seen[k][1]} for query #{seen[k][0]} which differs only in the filter flag")
        seen.setdefault(k, (i, impls[i]["verdict"]))
    return out


def run_cert_cases(ctx, cases, with_model):
    """cases: [(graphs, planted, queries)] -> per case the list of per-query records {impl, spec (True / False / None), by,
    why (None = fine), kind ("spec": the property is violated on this input / "model": the Lean side contradicts itself)}.
    One batched Lean call for all cases: the specification side never depends on the history."""
    preps, allreqs, cuts = [], [], []
    for graphs, planted, queries in cases:
        prep, reqs = _cert_prepare(graphs, planted, queries, with_model)
        preps.append(prep)
        cuts.append((len(allreqs), len(allreqs) + len(reqs)))
        allreqs += reqs
    keys = [json.dumps(r, sort_keys=True) for r in allreqs]  # queries differing only in a filter flag share their specification
    first = {}
    for i, k in enumerate(keys):
        first.setdefault(k, i)
    uniq = sorted(first.values())
    uniq = [i for r in range(8) for i in uniq[r::8]]  # the driver shards by contiguous ranges: spread the large cases over the shards
    pos = {i: n for n, i in enumerate(uniq)}
    ureps = ctx.lean().ok([allreqs[i] for i in uniq], shards=8)
    reps = [ureps[pos[first[k]]] for k in keys]
    return [_cert_judge(prep, reps[a:b]) for prep, (a, b) in zip(preps, cuts)]


def run_cert_case(ctx, graphs, planted, queries, with_model):
    return run_cert_cases(ctx, [(graphs, planted, queries)], with_model)[0]


def judge_entry(q, sp, impl, spec, ret, demanded_n, graphs):
    if impl.get("watchdog"):
        return None
    if "error" in impl:
        if q["entry"].startswith("engine") and not backend_supported(q["engine"]):
            return None
        return "raised " + impl["error"]
    what = {"iso": "a label-preserving bijection", "induced": "an induced embedding", "mono": "a monomorphic embedding"}[sp["mode"]]
    if spec is not None and q["entry"] != "engine.maps" and impl["verdict"] != spec:
        return f"verdict {impl['verdict']}; {what} {'exists' if spec else 'does not exist'}"
    maps = impl.get("maps", [])
    if maps:
        keys = [_mkey(m) for m in maps]
        if len(set(keys)) < len(keys):
            return "embeddings contain duplicates"
        for j, m in enumerate(maps):
            if ret.get(j) is not True:
                return f"returned mapping #{j} is not {what} of the pattern into the host (checked by Lean: isIsoB / isInducedB)"
    if q["entry"] == "engine.maps":
        mm = q["engine"]["max_mappings"]
        a, b = graphs[q["a"]], graphs[q["b"]]
        same = a.number_of_nodes() == b.number_of_nodes() and a.number_of_edges() == b.number_of_edges()
        if demanded_n is not None:
            if len(maps) != demanded_n:
                return f"{len(maps)} embedding(s) returned, the property demands {demanded_n} (max_mappings={mm})"
        else:
            if spec is True and mm != 0 and not maps:
                return "no embedding returned although the pattern is contained (planted embedding checked by Lean)"
            if spec is False and maps:
                return "embeddings returned although the pattern is not contained"
            if not same and mm is not None and len(maps) > mm:
                return f"{len(maps)} embeddings returned, max_mappings={mm}"
            if same and len(maps) > 1:
                return f"{len(maps)} embeddings returned for graphs of equal size (one is documented)"
    return None


def cert_case(graphs, planted, queries, with_model):
    return {"kind": "cert", "graphs": [graphio.graph(g) for g in graphs], "planted": planted, "queries": queries, "model": with_model}


def _restrict(graphs, planted, queries):
    """Keep only the graph objects the queries look at."""
    used = sorted({q[k] for q in queries for k in ("a", "b")})
    idx = {old: new for new, old in enumerate(used)}
    qs = [{**q, "a": idx[q["a"]], "b": idx[q["b"]]} for q in queries]
    pls = [{**pl, "from": idx[pl["from"]], "to": idx[pl["to"]]} for pl in planted if pl["from"] in idx and pl["to"] in idx]
    return [graphs[i] for i in used], pls, qs


def shrink_planted(ctx, graphs, planted, q):
    """A planted isomorphism the implementation does not recognise: remove nodes together with their images, in chunks,
    while the implementation keeps failing; the specification side of the result is re-checked by Lean afterwards."""
    pl = next((p for p in planted if p["kind"] == "iso" and {p["from"], p["to"]} == {q["a"], q["b"]}), None)
    if pl is None or q["a"] == q["b"]:
        return graphs, planted
    gi, hi = pl["from"], pl["to"]
    g, h, f = graphs[gi].copy(), graphs[hi].copy(), {u: v for u, v in pl["map"]}
    want = spec_of(q)["mode"] == "iso"

    def still_fails(g2, h2):
        gs = list(graphs)
        gs[gi], gs[hi] = g2, h2
        r = impl_entry(gs, q, {})
        return "error" not in r and r["verdict"] is False

    if not want or not still_fails(g, h):
        return graphs, planted
    budget, chunk = 60, max(1, len(g) // 4)
    while chunk >= 1 and budget > 0:
        nodes = list(g.nodes)
        i, progressed = 0, False
        while i < len(nodes) and budget > 0 and len(g) > 1:
            part = [v for v in nodes[i:i + chunk] if v in g]
            i += chunk
            if not part or len(part) >= len(g):
                continue
            g2, h2 = g.copy(), h.copy()
            g2.remove_nodes_from(part)
            h2.remove_nodes_from([f[v] for v in part])
            budget -= 1
            if still_fails(g2, h2):
                g, h, progressed = g2, h2, True
        if not progressed or chunk == 1:
            chunk //= 2
    gs = list(graphs)
    gs[gi], gs[hi] = g, h
    return gs, [{**pl, "map": [[u, v] for u, v in pl["map"] if u in g]}]


def eval_cert(ctx, cases, tag, with_model):
    """cases: list of (graphs, planted, queries, shape)"""
    if not cases:
        return
    allrecs = run_cert_cases(ctx, [(g, p, q) for g, p, q, _ in cases], with_model)
    for (graphs, planted, queries, shape), recs in zip(cases, allrecs):
        ctx.count("stream:" + tag)
        ctx.count("shape:" + shape)
        for q, r in zip(queries, recs):
            a, b = graphs[q["a"]], graphs[q["b"]]
            n, m = max(len(a), len(b)), max(a.number_of_edges(), b.number_of_edges())
            ctx.count(f"cert:{q['entry']}:spec={r['spec']}" + (f" ({r['by']})" if r["by"] else ""))
            ctx.count("cert_size:" + ("nodes>256,edges>256" if n > 256 and m > 256 else "nodes>256" if n > 256 else "edges>256" if m > 256
                                      else "nodes,edges in 250..256" if max(n, m) >= 250 else "small"))
            if r["impl"].get("watchdog"):
                ctx.count("cert_watchdog(call not judged)")
            if q["entry"] == "find":
                ctx.count(f"find:use_defaults={q.get('use_defaults')}:fast={q.get('fast')}:{'mapping' if r['impl'].get('verdict') else 'None'}")
        pos = sum(1 for r in recs if r["spec"])
        ctx.case([[graphio.graph(g) for g in graphs], queries], pos >= 1 and max(len(g) for g in graphs) >= 2,
                 sample={"stream": tag, **cert_case(graphs, planted, queries[:2], with_model)} if max(len(g) for g in graphs) <= 3 else None)
        bad = next((i for i, r in enumerate(recs) if r["why"] is not None), None)
        if bad is None:
            continue
        rec, q = recs[bad], queries[bad]
        if rec["kind"] == "model":
            ctx.violation(rec["why"], cert_case(*_restrict(graphs, planted, [q]), with_model), {"stream": tag}, no_input=True)
        else:
            report_cert(ctx, graphs, planted, queries[:bad + 1], rec, tag, with_model)
        if len(ctx.violations) >= 3:
            return


def report_cert(ctx, graphs, planted, queries, rec, tag, with_model):
    q = queries[-1]
    # 1. does the failure need the history?
    gs1, pl1, qs1 = _restrict(graphs, planted, [q])
    alone = run_cert_case(ctx, [g.copy() for g in gs1], pl1, qs1, with_model)[-1]
    if alone["why"] is not None and alone["kind"] == "spec":
        graphs, planted, queries, rec = gs1, pl1, qs1, alone
    else:
        graphs, planted, queries = _restrict(graphs, planted, queries)
    if len(queries) == 1:
        q = queries[0]
        if with_model and q["a"] != q["b"]:  # small: minimise the two graphs against the enumerating model
            def fails(ga, gb):
                gs = list(graphs)
                gs[q["a"]], gs[q["b"]] = ga, gb
                r = run_cert_case(ctx, gs, [], [q], True)[-1]
                return r["why"] is not None and r["kind"] == "spec" and "error" not in r["impl"]
            try:
                ga, gb = matchgen.shrink_pair(graphs[q["a"]], graphs[q["b"]], fails, budget=60)
                gs = list(graphs)
                gs[q["a"]], gs[q["b"]] = ga, gb
                if len(ga) == len(gb):
                    ga, gb = shrink_both(ga, gb, fails, budget=40)
                    gs[q["a"]], gs[q["b"]] = ga, gb
                r2 = run_cert_case(ctx, [g.copy() for g in gs], [], [q], True)[-1]
                if r2["why"] is not None and r2["kind"] == "spec":
                    graphs, planted, rec = gs, [], r2
            except Exception:
                pass
        elif rec["spec"] is True and rec["impl"].get("verdict") is False:  # large: shrink along the planted bijection
            gs, pls = shrink_planted(ctx, graphs, planted, q)
            r2 = run_cert_case(ctx, [g.copy() for g in gs], pls, [q], with_model)[-1]
            if r2["why"] is not None and r2["kind"] == "spec" and r2["spec"] is True:
                graphs, planted, rec = gs, pls, r2
    a, b = graphs[queries[-1]["a"]], graphs[queries[-1]["b"]]
    ctx.violation({"find": "find_graph_isomorphism", "giso": "graph_isomorphism", "engine.iso": "GraphMatcherEngine.isomorphic",
                   "engine.maps": "GraphMatcherEngine.get_mappings", "sub": "boolean sub-graph test"}[queries[-1]["entry"]]
                  + " departs from the specification", cert_case(graphs, planted, queries, with_model),
                  {"clause": rec["why"], "stream": tag, "query": queries[-1], "history_dependent": len(queries) > 1,
                   "implementation": rec["impl"], "specification": {"verdict": rec["spec"], "established_by": rec["by"]},
                   "sizes": {"a": [a.number_of_nodes(), a.number_of_edges()], "b": [b.number_of_nodes(), b.number_of_edges()]}})


# ---- generators for the certificate streams
ENTRY_ENGINES = [["element"], ["element", "charge"], [], ["charge", "element"], ["element", "hcount"], ["hcount"], ["atom_map", "element"]]
FRESH_ELEMENTS = ["S", "Hg", "Cl", "Si", ""]


def rand_find_queries(rnd, a, b, both_orders=True, need_labels=False):
    """`find_graph_isomorphism(a, b)`: every use_defaults choice drawn is asked with the quick invariants off and on (or left at
    their default).  need_labels: only the label-comparing configurations (on large irregular graphs VF2 itself does not finish a
    structure-only comparison in reasonable time)."""
    qs = []
    opts = [True, None] if need_labels else [True, False, None]
    for d in rnd.sample(opts, rnd.choice([1, 2, 2, 3][:len(opts) + 1])):
        for fast in (False, rnd.choice([True, None])):
            qs.append({"entry": "find", "a": a, "b": b, "use_defaults": d, "fast": fast})
        if both_orders and rnd.random() < 0.6:
            qs.append({"entry": "find", "a": b, "b": a, "use_defaults": d, "fast": rnd.choice([True, None, False])})
    return qs


def rand_entry_queries(rnd, a, b, both_orders, has_h, has_am, k, maps_cap=(1, None, 2, 5), sub_modes=(True, False), need_labels=False, sub_ok=True):
    """k queries over the other entry points for the pair (a, b); every pre-filter flag is asked on and off."""
    qs = []
    for _ in range(k):
        x, y = (b, a) if both_orders and rnd.random() < 0.35 else (a, b)
        r = rnd.random()
        if r < 0.2:
            qs.append({"entry": "giso", "a": x, "b": y, "use_defaults": need_labels or rnd.random() < 0.6})
        elif r < 0.6 or not sub_ok:
            na = rnd.choice([s for s in ENTRY_ENGINES if (has_h or "hcount" not in s) and (has_am or "atom_map" not in s)
                             and (not need_labels or "element" in s)])
            e = {"node_attrs": na, "edge_attrs": ["order"] if need_labels else rnd.choice(EDGE_ATTRS), "wl1_filter": False,
                 "max_mappings": rnd.choice(list(maps_cap))}
            entry = "engine.iso" if rnd.random() < 0.6 else "engine.maps"
            if entry == "engine.maps":
                x, y = a, b
            for wl in rnd.sample([False, True], 2):
                qs.append({"entry": entry, "a": x, "b": y, "engine": {**e, "wl1_filter": wl}})
        else:
            cfg = {"names": ["element", "charge"], "defaults": [{"s": "*"}, {"n": 0}],
                   "edge_attr": "order" if need_labels else rnd.choice(["order", "order", None]), "induced": rnd.choice(list(sub_modes))}
            if rnd.random() < 0.3:
                cfg["names"], cfg["defaults"] = rnd.choice([(["element"], [{"s": "*"}]), (["charge", "element"], [{"n": 0}, {"s": "C"}])]
                                                           + ([] if need_labels else [([], [])]))
            which = rnd.choice(["graph_morphism", "SubgraphMatch", "is_subgraph"]) if cfg["edge_attr"] else "graph_morphism"
            for f in rnd.sample([False, True], 2):
                qs.append({"entry": "sub", "which": which, "a": b, "b": a, "cfg": {**cfg, "use_filter": f}})  # child b in parent a
    return qs


def set_atom_maps(rnd, g, mode):
    """atom_map as find_graph_isomorphism's default matcher reads it: absent (default 0), 0, or a few mapped atoms."""
    nodes = list(g.nodes)
    if mode == "zero":
        for v in nodes:
            g.nodes[v]["atom_map"] = 0
    elif mode == "some":
        picks = rnd.sample(nodes, min(len(nodes), rnd.randint(1, 3)))
        for v in nodes:
            if rnd.random() < 0.5:
                g.nodes[v]["atom_map"] = 0
        for i, v in enumerate(picks):
            g.nodes[v]["atom_map"] = rnd.choice([i + 1, 1, 12])
    return g


def gen_find_small(ctx, tiny, count):
    """Small pairs for `find_graph_isomorphism` (and, as a cross-check of `spec_of`, the other entry points): relabelled copies
    with the planted bijection, one-edit neighbours, labels permuted, unrelated; atom_map absent / 0 / partly set; hcount and
    bond orders partly absent (the defaults 0 and 1 matter); tiny classes against each other."""
    rnd = ctx.rnd
    out = []
    for i in range(count):
        r = rnd.random()
        if r < 0.2:
            g1 = rnd.choice(tiny).copy()
            full_attrs(g1)
        elif r < 0.32:
            g1 = full_attrs(matchgen.symmetric_family(rnd, rnd.choice(["cycle", "star", "path", "kab", "rep"]), rnd.randint(2, 7)))
        elif r < 0.45:
            g1 = full_attrs(matchgen.multi_component(rnd, [rnd.randint(1, 3) for _ in range(rnd.randint(2, 3))], elems=["C", "C", "N"]))
        else:
            g1 = full_attrs(matchgen.mol_like(rnd, rnd.randint(1, 8), elems=rnd.choice([["C", "C", "N", "O"], ["C"], ["H", "Hg", "He", "C", "Cl"]]),
                                              hcount_absent_p=rnd.choice([0.0, 0.3, 1.0])))
        am = rnd.choice(["absent", "absent", "zero", "some", "some"])
        set_atom_maps(rnd, g1, am)
        planted = []
        r = rnd.random()
        if r < 0.4:
            g2, f = matchgen.relabelled_copy(rnd, g1)
            planted = [{"from": 0, "to": 1, "kind": "iso", "map": [[int(u), int(v)] for u, v in f.items()]}]
            shape = "relabelled"
        elif r < 0.7:
            g2, _ = matchgen.relabelled_copy(rnd, g1)
            if rnd.random() < 0.3 and len(g2):
                v = rnd.choice(list(g2.nodes))
                g2.nodes[v]["atom_map"] = g2.nodes[v].get("atom_map", 0) + rnd.choice([1, 12])
                shape = "one-edit:atom_map"
            else:
                g2, kind = matchgen.one_edit(rnd, g2)
                shape = "one-edit:" + kind
        elif r < 0.8:
            g2, _ = matchgen.relabelled_copy(rnd, permute_labels(rnd, g1))
            shape = "labels-permuted"
        elif r < 0.9:
            g2 = set_atom_maps(rnd, full_attrs(matchgen.mol_like(rnd, len(g1), ids=range(50, 50 + len(g1)), elems=["C", "N"])), am)
            shape = "unrelated-same-size"
        else:
            g2 = full_attrs(matchgen.mol_like(rnd, rnd.randint(1, 8), ids=range(50, 58), elems=["C", "N"]))
            shape = "unrelated"
        if rnd.random() < 0.4:  # absent values and their defaults: atom_map 0, hcount 0, order 1 (spelled 1 or 1.0)
            for g in (g1, g2):
                for v in g.nodes:
                    if g.nodes[v].get("atom_map") == 0 and rnd.random() < 0.5:
                        del g.nodes[v]["atom_map"]
                    if g.nodes[v].get("hcount") == 0 and rnd.random() < 0.5:
                        del g.nodes[v]["hcount"]
                for u, v in g.edges:
                    if g[u][v].get("order") == 1.0 and rnd.random() < 0.5:
                        del g[u][v]["order"]
            planted = []  # the planted mapping is only a certificate of the attribute dicts as they were
            shape += "+defaults"
        has_h = all("hcount" in d for g in (g1, g2) for _, d in g.nodes(data=True))
        has_am = all("atom_map" in d for g in (g1, g2) for _, d in g.nodes(data=True))
        qs = rand_find_queries(rnd, 0, 1)
        if rnd.random() < 0.35:
            extra = rand_entry_queries(rnd, 0, 1, True, has_h, has_am, rnd.randint(1, 2))
            if len(g2) > len(g1):  # the boolean sub-graph tests and get_mappings look for the second graph inside the first
                extra = [q for q in extra if q["entry"] not in ("sub", "engine.maps")]
            qs += extra
        if rnd.random() < 0.4:
            rnd.shuffle(qs)
        out.append(([g1, g2], planted, qs, "find-small/" + shape.split(":")[0]))
    return out


def _label_nodes(rnd, g, elems, hmode, charge_p=0.05):
    out = nx.Graph()
    nodes = list(g.nodes)
    rnd.shuffle(nodes)
    for v in nodes:
        a = {"element": rnd.choice(elems), "charge": 0 if rnd.random() > charge_p else rnd.choice([1, -1])}
        if hmode != "absent":
            a["hcount"] = 1 if hmode == "const" else rnd.choice([0, 0, 1, 2, 3])
        out.add_node(v, **a)
    return out


MAPPED_ENGINES = [["atom_map", "element"], ["element", "charge", "atom_map"], ["atom_map"], ["element", "atom_map", "hcount"]]
MAPPED_SUBS = [(["element", "atom_map"], [{"s": "*"}, {"n": 0}]), (["atom_map", "element", "charge"], [{"n": 0}, {"s": "*"}, {"n": 0}]),
               (["atom_map"], [{"n": 0}])]


def large_graph(rnd):
    """-> (graph, family, mode).  More than 256 nodes and / or more than 256 edges, or just below (250..256: controls).

    NetworkX's VF2 — which the code under test calls — back-tracks exponentially on large sparse graphs as soon as labels repeat
    (a path of 257 equal atoms already takes minutes), on the unchanged tree.  So only two kinds of large input are generated:
    mode "mapped": molecule-like graphs (polymers, ring-rich graphs, mixtures of many small molecules, labelled paths, cycles and
      branched chains) whose atoms all carry a distinct `atom_map` (a fully atom-mapped reaction side), asked only under selections
      that compare `atom_map`: every assignment VF2 makes is forced;
    mode "symmetric": complete graphs (any labels: every label-preserving partial assignment extends), cycles of equal atoms and
      complete bipartite graphs (sides labelled apart or alike), asked under any selection (bipartite: isomorphism questions only)."""
    r = rnd.random()
    hmode = rnd.choice(["rand", "rand", "const", "absent"])
    habs = 1.0 if hmode == "absent" else 0.0
    if r < 0.17:  # molecule-like polymer: > 256 nodes (and mostly > 256 edges)
        n = rnd.choice([257, 258, rnd.randint(259, 300)])
        return matchgen.mol_like(rnd, n, elems=["C", "C", "N", "O"], hcount_absent_p=habs, ring_p=rnd.choice([0.0, 0.5])), "polymer", "mapped"
    if r < 0.29:  # ring-rich: fewer than 256 nodes, more than 256 edges
        return matchgen.mol_like(rnd, rnd.randint(215, 252), elems=["C", "C", "N", "O"], hcount_absent_p=habs, ring_p=1.0), "ring-rich", "mapped"
    if r < 0.35:  # many small molecules (a reaction mixture): more than 256 nodes in total, fewer edges
        return matchgen.multi_component(rnd, [3] * rnd.randint(86, 96), elems=["C", "N", "O"], hcount_absent_p=habs), "components", "mapped"
    if r < 0.58:  # paths / cycles / branched chains right at the boundary (257 nodes: 256 / 257 edges)
        n = rnd.choice([255, 256, 257, 257, 258, 280])
        kind = rnd.choice(["path", "cycle", "chain", "cycle-uniform"])
        sk = nx.path_graph(n) if kind in ("path", "chain") else nx.cycle_graph(n)
        g = _label_nodes(rnd, sk, ["C"] if kind == "cycle-uniform" else ["C", "N", "O"], "const" if kind == "cycle-uniform" and hmode != "absent" else hmode,
                         0.0 if kind == "cycle-uniform" else 0.05)
        for u, v in sk.edges:
            g.add_edge(u, v, order=float(1 + (min(u, v) % 2)) if kind == "chain" else 1.0)
        if kind == "chain":
            nxt = n
            for i in range(5, n, 17):
                g.add_node(nxt, element="F", charge=0, **({} if hmode == "absent" else {"hcount": 0}))
                g.add_edge(i, nxt, order=1.0)
                nxt += 1
        return g, kind, "symmetric" if kind == "cycle-uniform" else "mapped"
    if r < 0.84:  # complete graphs: few nodes, 231..351 edges
        sk = nx.complete_graph(rnd.choice([22, 23, 24, 24, 25, 26, 27]))
        g = _label_nodes(rnd, sk, rnd.choice([["C"], ["C", "N"], ["C", "N", "O"]]), "const" if hmode != "absent" else "absent", 0.0)
        o = rnd.choice([1.0, 1.5])
        for u, v in sk.edges:
            g.add_edge(u, v, order=o)
        return g, "complete", "symmetric"
    a, b = rnd.randint(14, 18), rnd.randint(14, 19)  # complete bipartite
    sk = nx.complete_bipartite_graph(a, b)
    two = rnd.random() < 0.6
    g = nx.Graph()
    nodes = list(sk.nodes)
    rnd.shuffle(nodes)
    for v in nodes:
        g.add_node(v, element=("N" if v >= a and two else "C"), charge=0, **({} if hmode == "absent" else {"hcount": 1}))
    for u, v in sk.edges:
        g.add_edge(u, v, order=1.0)
    return g, "bipartite", "symmetric"


def large_queries(rnd, a, b, mode, fam, has_h, k, both_orders=True, proper=False):
    """Queries for the pair (a, b) of large graphs (b: the copy / neighbour / pattern), within the selections `large_graph` allows.
    Every cheap pre-filter flag is asked off and on.  proper: b is strictly smaller (embeddings and sub-graph tests only)."""
    qs = []
    kinds = ["find", "find", "engine.iso", "engine.maps", "sub"] + (["giso"] if mode == "symmetric" else [])
    if fam == "bipartite":
        kinds.remove("sub")
    if proper:
        kinds = ["engine.maps", "sub"]
    for kind in rnd.sample(kinds, min(k, len(kinds))):
        x, y = (b, a) if both_orders and rnd.random() < 0.35 else (a, b)
        if kind == "find":
            d = rnd.choice([True, None] if mode == "mapped" else [True, None, False])
            qs += [{"entry": "find", "a": x, "b": y, "use_defaults": d, "fast": f} for f in (False, rnd.choice([True, None]))]
        elif kind == "giso":
            qs.append({"entry": "giso", "a": x, "b": y, "use_defaults": rnd.random() < 0.6})
        elif kind in ("engine.iso", "engine.maps"):
            na = rnd.choice([s for s in (MAPPED_ENGINES if mode == "mapped" else ENTRY_ENGINES[:6]) if has_h or "hcount" not in s])
            e = {"node_attrs": na, "edge_attrs": rnd.choice(EDGE_ATTRS), "max_mappings": rnd.choice([1, None, 2])}
            if kind == "engine.maps":
                x, y = a, b
            qs += [{"entry": kind, "a": x, "b": y, "engine": {**e, "wl1_filter": wl}} for wl in rnd.sample([False, True], 2)]
        else:
            names, defaults = rnd.choice(MAPPED_SUBS if mode == "mapped" else SUB_SELECTIONS[:6])
            cfg = {"names": names, "defaults": defaults, "edge_attr": rnd.choice(["order", "order", None]), "induced": rnd.random() < 0.5}
            which = rnd.choice(["graph_morphism", "SubgraphMatch", "is_subgraph"]) if cfg["edge_attr"] else "graph_morphism"
            qs += [{"entry": "sub", "which": which, "a": b, "b": a, "cfg": {**cfg, "use_filter": fl}} for fl in rnd.sample([False, True], 2)]
    return qs


def gen_large(ctx, count):
    """Pairs beyond CPython's small-integer cache with PLANTED answers: a relabelled copy (the bijection is known), the copy
    with the element of its first node replaced by a symbol that does not occur (no bijection when the element is compared: the
    label histogram differs; asked only with the edited graph in the position where VF2 rejects it at its first node), the copy
    with one edge removed / one pendant node added (counts differ: VF2 compares order and degree sequence first), and — mapped
    graphs — a connected induced sub-pattern that is itself beyond 256 nodes or edges (planted embedding)."""
    rnd = ctx.rnd
    out = []
    for _ in range(count):
        g, fam, mode = large_graph(rnd)
        full_attrs(g)
        if mode == "mapped":  # distinct atom maps, also multi-digit and beyond 256
            vals = rnd.sample(range(1, rnd.choice([len(g) + 1, 1000, 10 ** 4])), len(g))
            for v, x in zip(g.nodes, vals):
                g.nodes[v]["atom_map"] = x
        else:
            set_atom_maps(rnd, g, rnd.choice(["absent", "absent", "zero"]))
        h, f = matchgen.relabelled_copy(rnd, g, base=rnd.choice([None, None, 1000, 10 ** 6]))
        graphs = [g, h]
        fmap = [[int(u), int(v)] for u, v in f.items()]
        planted = [{"from": 0, "to": 1, "kind": "iso", "map": fmap}]
        has_h = all("hcount" in d for _, d in g.nodes(data=True))
        big = len(g) > 256
        qs = [{"entry": "find", "a": 0, "b": 1, "use_defaults": None, "fast": f} for f in (None, False)]  # the documented defaults
        qs += large_queries(rnd, 0, 1, mode, fam, has_h, 2 if big else 3)
        # the copy once more, with one label that does not occur in g on the node VF2 looks at first; the same bijection is a
        # certificate exactly for the selections that do not look at the element
        hn = h.copy()
        hn.nodes[next(iter(hn.nodes))]["element"] = rnd.choice(FRESH_ELEMENTS)
        graphs.append(hn)
        i = len(graphs) - 1
        planted.append({"from": 0, "to": i, "kind": "iso", "map": fmap})
        qs += large_queries(rnd, 0, i, mode, fam, has_h, 1 if big else 2, both_orders=False)
        if rnd.random() < 0.6:  # counts differ: one edge fewer / one pendant node more
            hc = h.copy()
            if rnd.random() < 0.6 and hc.number_of_edges():
                hc.remove_edge(*rnd.choice(list(hc.edges)))
                kind = "edge-removed"
            else:
                w = max(hc.nodes) + 1
                hc.add_node(w, **{**dict(hc.nodes[rnd.choice(list(hc.nodes))]), "atom_map": 0})
                hc.add_edge(rnd.choice([x for x in hc.nodes if x != w]), w, order=1.0)
                kind = "node-added"
            graphs.append(hc)
            j = len(graphs) - 1
            x, y = rnd.choice([(0, j), (j, 0)])
            qs += [{"entry": "find", "a": x, "b": y, "use_defaults": rnd.choice([True, None, False]), "fast": fl} for fl in (False, True)]
            qs.append({"entry": "giso", "a": y, "b": x, "use_defaults": rnd.random() < 0.5})
            if kind == "edge-removed":  # equal node counts: the engines go through is_isomorphic as well
                e = {"node_attrs": rnd.choice(ENTRY_ENGINES[:4]), "edge_attrs": rnd.choice(EDGE_ATTRS), "max_mappings": 1}
                qs += [{"entry": "engine.iso", "a": x, "b": y, "engine": {**e, "wl1_filter": wl}} for wl in (False, True)]
            ctx.count("large_negative:" + kind)
        if mode == "mapped" and rnd.random() < 0.5:  # a strictly smaller pattern, itself beyond 256 nodes or edges where g allows
            keep = set(matchgen.connected_subset(rnd, g, max(1, len(g) - rnd.choice([1, 2, 5, 20]))))
            sub = nx.Graph()
            for v in g.nodes:
                if v in keep:
                    sub.add_node(v, **dict(g.nodes[v]))
            for u, v, d in g.subgraph(keep).edges(data=True):
                sub.add_edge(u, v, **dict(d))
            pat, fp = matchgen.relabelled_copy(rnd, sub, base=2000)
            lowered = has_h and rnd.random() < 0.5
            if lowered:  # host >= pattern hydrogen rule of the engines
                for v in pat.nodes:
                    if rnd.random() < 0.2:
                        pat.nodes[v]["hcount"] = rnd.randint(0, pat.nodes[v]["hcount"])
            graphs.append(pat)
            j = len(graphs) - 1
            planted.append({"from": j, "to": 0, "kind": "induced", "map": [[int(fp[v]), int(v)] for v in sub.nodes]})
            pq = large_queries(rnd, 0, j, mode, fam, has_h and not lowered, 1 if big else 2, both_orders=False, proper=True)
            qs += [q for q in pq if not (lowered and q["entry"] == "sub")]
            ctx.count("large_pattern:planted" + ("+hcount-lowered" if lowered else ""))
        if rnd.random() < 0.5:
            rnd.shuffle(qs)
        ctx.count("large_family:" + fam + "/" + mode)
        out.append((graphs, planted, qs, "large/" + fam))
    return out


def gen_tiny(ctx):
    labels = [("C", 0), ("C", 1), ("N", 0)]
    gs = []
    for n in range(1, (3 if ctx.quick else 4) + 1):
        gs += matchgen.tiny_graphs(n, labels if n <= 3 else [("C", 0), ("N", 0)], (1, 2) if n <= 3 else (1,))
    return gs


def load_regress():
    out = []
    d = ROOT / "regress" / "C07"
    if d.exists():
        for f in sorted(d.glob("*.json")):
            out.append(json.loads(f.read_text()))
    return out


def run_case_json(ctx, c, tag):
    if c.get("kind") == "sub":
        eval_sub(ctx, [(untyped(c, "child"), untyped(c, "parent"), c["cfg"], "regress")], tag)
    elif c.get("kind") == "giso":
        eval_giso(ctx, [(untyped(c, "g1"), untyped(c, "g2"), c["use_defaults"], "regress")], tag)
    elif c.get("kind") == "cert":
        eval_cert(ctx, [([graphio.to_nx(g) for g in c["graphs"]], c.get("planted", []), c["queries"], "regress")], tag, bool(c.get("model")))
    elif c.get("kind") == "search":
        cfg = {k: v for k, v in c["cfg"].items() if k != "pre_filter"}
        eval_search(ctx, [(untyped(c, "host"), untyped(c, "pattern"), c["node_keys"], c["edge_keys"], [cfg], "regress")], tag)
    else:
        ty = c.get("types") or [None] * len(c["graphs"])
        eval_histories(ctx, [([apply_types(graphio.to_nx(g), t) for g, t in zip(c["graphs"], ty)], c["queries"], "regress")], tag)


def run(ctx):
    ctx.trusted = [
        "Lean 4.33 kernel; axioms of the property theorems as listed in obligation_list",
        "hand-written model SynKitModel/GraphMatcherEngine.lean (+ Match.lean) tied to /repo by this correspondence run",
        "NetworkX VF2 (is_isomorphic, subgraph_is_isomorphic/monomorphic, *_iter) honours the node/edge closures it is given; its "
        "enumeration order is not modelled (embedding lists are gated on validity + length)",
        "Driver/GraphMatcherEngine.lean JSON codec, harness/graphio.py encoding, sorting of mapping sets",
        "representation streams: `retype_graph` only re-spells values (checked on every graph: the encoding sent to Lean is unchanged); the "
        "`types` table of a reported case + `apply_types` rebuild the same Python objects on replay",
        "certificate streams: SynKitModel/FindIso.lean (findGraphIsomorphism; isMonoB / isInducedB / isIsoB; isoInvariants / containInvariants) "
        "through the driver commands c07.findiso / c07.certificate / c07.invariants; harness `spec_of` (which graph is host / pattern, which keys "
        "and defaults an entry point compares) — cross-checked on every small case against the enumerating model; `matchgen.relabelled_copy` "
        "only as the source of a candidate bijection (Lean checks it)",
        "stream prefilter: model SynKitModel/SubgraphSearch.lean through driver command c06.search (its theorems, incl. prefilter_spec / "
        "prefilter_zero_sound / prefilter_zero_lossless / prefilter_sound_or_large, are audited by ./check C06); harness cand_counts "
        "(the documented candidate definition, re-implemented here) only to classify a difference, cross-checked against the model on every case",
    ]
    ctx.assumptions = [
        "simple undirected graphs, non-negative integer node ids; every node carries every attribute an engine with wl1_filter compares "
        "(the WL histogram sorts label tuples, which Python cannot do for mixed None/str values)",
        "hydrogen rule as documented: the first argument of isomorphic() plays host when sizes are equal (DESIGN 5a)",
        "graph objects are not mutated between queries of a history (the cache is documented to go stale otherwise)",
        "find_subgraph_mappings(pre_filter=True): the candidate-product guard (docstring: result empty if the pre-filter guard exceeds the "
        "threshold) is the one documented way the pre-filter may change a result set; it is compared with the model as coded (product > "
        "threshold*1e4), a difference confined to products above the threshold is reported as a broken correspondence, not as a C07 violation; "
        "strict_cc_count / threshold semantics of the strategies are C06's and taken from the model as coded",
        "SubgraphMatch.subgraph_isomorphism / is_subgraph document `edge_attribute: str`: None is passed to graph_morphism.subgraph_isomorphism only "
        "(the SubgraphMatch copy raises TypeError on None — recorded, not gated); a constant-true comparator is read as 'attribute not selected' "
        "and only generated with use_filter=False",
        "a backend name other than 'nx' (incl. 'NX', which the engine lower-cases today) must raise or answer as the model does; mod is not installed, so the rule back-end itself is not exercised",
        "find_graph_isomorphism: two nx.Graph objects, matchers either the documented defaults (use_defaults=True: element / atom_map / hcount with "
        "defaults '*', 0, 0 and order with default 1) or none (use_defaults=False: structure only); custom matcher callables, DiGraph / MultiGraph "
        "inputs and mixed graph types are not modelled",
        "stream large: NetworkX's VF2, which every entry point calls, has no polynomial bound (a path of 257 equal atoms takes minutes on the "
        "unchanged tree); the large inputs are therefore restricted to fully atom-mapped molecule-like graphs under selections that compare "
        "atom_map, and to complete / complete bipartite graphs and cycles of equal atoms; negatives are asked only in the argument position "
        "where VF2 rejects at its first node or in its order / degree-sequence test; a call that runs into the 60 s watchdog is counted and not "
        "judged (it can only suppress a gate; none is expected: the generated calls take < 0.5 s)",
        "attribute values are compared as Python compares them (`==`): 1, 1.0, numpy.int64(1), numpy.float64(1.0) are one label, 'C' and "
        "numpy.str_('C') are one label (graphio encodes them to one Lean value); bool is kept apart from int (never mixed under one key); node ids "
        "stay plain ints; attribute selections given as a tuple instead of the documented list must raise or answer as the model does",
    ]
    ctx.gen_rule = ("regression corpus first; tiny-exhaustive: all ordered pairs of graph classes with <=3 (quick) / <=4 (thorough) nodes over "
                    "2 elements x hcount{0,1} x orders{1,2}: isomorphic() with filter off/on in both argument orders, get_mappings(max_mappings=None), "
                    "sub-graph tests induced/mono with filter off/on; random: molecule-like graphs <=8 nodes, relabelled copies, one-edit "
                    "neighbours, unrelated pairs, strictly smaller planted/edited patterns, symmetric families; max_mappings in {0,1,2,5,None}; "
                    "query histories of 2-6 queries by 2-3 engines with attribute selections from {element},{element,charge},{charge},{} on 2-3 "
                    "shared graph objects; graph_isomorphism with/without defaults. Added streams: prefilter (350 quick / 4000 thorough pairs for "
                    "find_subgraph_mappings, each with strategies all/comp/bt at the default threshold plus thresholds from {0,1,2,3,10}, "
                    "pre_filter off and on, strategy as string or enum; 30% planted patterns in molecule-like or multi-component hosts, 20% one pattern "
                    "node at / one above the largest hydrogen count of its element, 20% relabelled copy (degrees equal) or with one pendant neighbour "
                    "too many, 12% one-edit, 8% symmetric families and 5% order-labelled chains with small thresholds (candidate-product guard), 5% "
                    "empty / isolated-node graphs; selections {element},{element,charge},{},{charge,element},{element,in_ring (partly absent)}); "
                    "sub-options (300 / 3000: edge_attribute in {'order','',None,'bond'}, 7 label selections/defaults with attributes dropped, "
                    "comparators none / eq / constant-true, is_subgraph back-ends 'mod','NX','bogus'); degenerate (150 / 1500 histories over a pair, "
                    "the empty graph and a single node: same-object queries, node_attrs=None, backend 'NX'/'Nx' and unsupported names). "
                    "Representation / scale streams: representation (450 / 5000 histories of 5-9 queries on 2-3 graph objects: relabelled copy 45%, "
                    "one-edit 15%, one value of an extra key edited 12%, labels permuted over the skeleton 10%, strictly smaller planted pattern 18%; "
                    "third object = copy / induced sub-graph / relabelled copy of a queried one in 45%; numbers spelled int / float / numpy.int64 / "
                    "int32 / float64, one form per graph or value by value, strings as numpy.str_ with p in {0, .5, 1}; extra keys aromatic(bool), "
                    "isotope{0,12,13,2500}, grp(tuples (), (1,2), (2,1), (1,), (1,2,3)), name{'', 'a', 'A', 'a '}, label on nodes and edges, ring(bool) "
                    "on edges; bond orders re-labelled to symbols / words / digit strings / 0 / 10, 12 in 6 of 8 cases; element '' or 'Cl'/'c' in 30%; charges "
                    "x10/x12 in 20%, hydrogen counts +10 in 15%; unselected weight/capacity/id/color attributes in 50%; attributes dropped (filter off) "
                    "in 10%; 1-3 engines over the available keys, permuted, 12% given as tuples; the pair asked with the filter off and on in both "
                    "argument orders, plus up to 4 further queries incl. verbatim repeats and equal-configuration engine objects); tiny-retyped "
                    "(400 / 5000 pairs of tiny classes, same class 50% / same size 35%, second graph re-spelled, selections over element / charge / "
                    "hcount); scale (120 / 1200 pairs with 9-12 nodes, ids from 0 / 90 / 1000 / 10^6, max_mappings in {1,6,10,100,None}, half of them "
                    "re-spelled); repr-sub (250 / 2500), repr-giso (100 / 1000), repr-search (150 / 1500): the inputs of the sub-graph, "
                    "graph_isomorphism and pre-filter generators with values re-labelled consistently (40%), noise attributes (30%) and every graph re-spelled. "
                    "Certificate streams: find-small (500 / 6000 pairs <= 8 nodes for find_graph_isomorphism: relabelled copy 40%, one-edit 30% (a third of "
                    "them an atom_map edit), labels permuted 10%, unrelated 20%; tiny class / symmetric family / multi-component / molecule-like incl. "
                    "element alphabets H,Hg,He,C,Cl; atom_map absent 40% / 0 20% / partly set 40%; absent atom_map / hcount / order 40%; use_defaults and "
                    "fast_invariant_check each in {True, False, left at default}, every drawn use_defaults with the quick invariants off and on, both argument "
                    "orders; 35% also 1-2 queries of the other entry points); large (16 / 120 cases with planted answers: atom-mapped polymers 257-300 "
                    "nodes 17%, ring-rich 215-252 nodes with > 256 edges 12%, mixtures of 86-96 three-atom molecules 6%, paths / cycles / branched chains "
                    "/ cycles of equal atoms with 255, 256, 257, 258, 280 nodes 23%, complete graphs K22-K27 26%, complete bipartite 14-19 per side 16%; "
                    "node ids up to 10^6, atom maps up to 10^4; per case: the relabelled copy (find_graph_isomorphism with everything at its default and "
                    "with the quick invariants off, plus 2-3 entry points, flags off and on, both orders), the copy with a foreign element on its first "
                    "node, in 60% the copy with one edge removed or one node added, in 50% of the mapped cases a planted connected sub-pattern with 1, 2, 5 "
                    "or 20 nodes fewer, hydrogen counts lowered in half of them).")
    ctx.nontrivial_rule = "case distinct as JSON, some graph has >=2 nodes and at least one positive answer (true verdict / non-empty embeddings)"
    build_and_audit(ctx, ["SynKitProofs.Props.C07"], "SynKitProofs/Audit/C07.lean", THEOREMS)

    reg = load_regress()
    for c in reg:
        run_case_json(ctx, c, "regress")
    ctx.count("regress_cases", len(reg))

    tiny = gen_tiny(ctx)
    e0 = {"node_attrs": ["element"], "edge_attrs": ["order"], "wl1_filter": False, "max_mappings": None}
    e1 = {**e0, "wl1_filter": True}
    hist, subs = [], []
    pairs = [(a, b) for a in tiny for b in tiny if len(b) <= len(a)]
    cap = 2500 if ctx.quick else 30000
    if len(pairs) > cap:
        pairs = ctx.rnd.sample(pairs, cap)
        ctx.extra["exhaustive"] = False
    else:
        ctx.extra["exhaustive"] = True
    ctx.extra["exhaustive_part"] = f"{len(tiny)} graph classes, {len(pairs)} ordered pairs (pattern no larger than host)"
    for a, b in pairs:
        b2 = nx.relabel_nodes(b, {v: v + 10 for v in b.nodes})
        qs = [{"op": "iso", "engine": e0, "a": 0, "b": 1}, {"op": "iso", "engine": e1, "a": 1, "b": 0},
              {"op": "maps", "engine": e1, "a": 0, "b": 1}, {"op": "maps", "engine": e0, "a": 0, "b": 1}]
        hist.append(([a, b2], qs, "tiny"))
        cfg = {"names": ["element", "charge"], "defaults": [{"s": "*"}, {"n": 0}], "edge_attr": "order",
               "use_filter": True, "induced": len(subs) % 2 == 0}
        subs.append((b2, a, cfg, "tiny"))
    if not ctx.violations:
        eval_histories(ctx, hist, "tiny-exhaustive")
    if not ctx.violations:
        eval_sub(ctx, subs, "tiny-exhaustive")

    nrand = 700 if ctx.quick else 8000
    if not ctx.violations:
        eval_histories(ctx, gen_histories(ctx, nrand), "random")
    if not ctx.violations:
        eval_sub(ctx, gen_sub(ctx, nrand // 2), "random")
    if not ctx.violations:
        gi = []
        for _ in range(nrand // 4):
            g1, g2, shape = gen_pair(ctx.rnd)
            if ctx.rnd.random() < 0.5:  # make the defaults matter: drop order 1 / charge 0 / set element "*" on one side
                for g in (g1, g2):
                    for u, v in g.edges:
                        if g[u][v].get("order") == 1.0 and ctx.rnd.random() < 0.5:
                            del g[u][v]["order"]
                    for v in g.nodes:
                        if g.nodes[v].get("charge") == 0 and ctx.rnd.random() < 0.4:
                            del g.nodes[v]["charge"]
                shape += "+defaults"
            gi.append((g1, g2, ctx.rnd.random() < 0.6, shape))
        eval_giso(ctx, gi, "random")
    # ---- streams added for anchor coverage (kept after the original ones so that their draws are unchanged)
    if not ctx.violations:
        eval_search(ctx, gen_prefilter(ctx, 350 if ctx.quick else 4000), "prefilter")
    if not ctx.violations:
        eval_sub(ctx, gen_sub_options(ctx, 300 if ctx.quick else 3000), "sub-options")
    if not ctx.violations:
        eval_histories(ctx, gen_degenerate(ctx, 150 if ctx.quick else 1500), "degenerate")
    # ---- representation / scale streams (after everything else: the earlier draws are unchanged)
    if not ctx.violations:
        eval_histories(ctx, gen_representation(ctx, 450 if ctx.quick else 5000), "representation")
    if not ctx.violations:
        eval_histories(ctx, gen_tiny_retyped(ctx, tiny, 400 if ctx.quick else 5000), "tiny-retyped")
    if not ctx.violations:
        eval_histories(ctx, gen_scale(ctx, 120 if ctx.quick else 1200), "scale")
    if not ctx.violations:
        eval_sub(ctx, gen_repr_sub(ctx, 150 if ctx.quick else 1500, 100 if ctx.quick else 1000), "repr-sub")
    if not ctx.violations:
        eval_giso(ctx, gen_repr_giso(ctx, 100 if ctx.quick else 1000), "repr-giso")
    if not ctx.violations:
        eval_search(ctx, gen_repr_search(ctx, 150 if ctx.quick else 1500), "repr-search")
    # ---- certificate streams: find_graph_isomorphism; every entry point beyond 256 nodes / edges (after everything else)
    if not ctx.violations:
        eval_cert(ctx, gen_find_small(ctx, tiny, 500 if ctx.quick else 6000), "find-small", True)
    if not ctx.violations:
        eval_cert(ctx, gen_large(ctx, 16 if ctx.quick else 120), "large", False)
    ctx.obligation("correspondence: engine verdicts / embeddings / histories, sub-graph tests, graph_isomorphism, find_graph_isomorphism, "
                   "find_subgraph_mappings with the pre-filter on/off impl == model; beyond 256 nodes / edges impl == what the Lean-checked "
                   "certificates (planted mapping / invariant) demand", not ctx.violations)


def replay(ctx, case):
    c = case["case"] if "case" in case else case
    run_case_json(ctx, c, "replay")
